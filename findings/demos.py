"""Runtime demonstrations of the genuine defects found by the static checks.

NOT part of any check (the checks are purely static).  This file only documents, for each
defect recorded in /verif/known_findings.json, a concrete failing input against the real code:
    /venv/bin/python /verif/findings/demos.py [name ...]
prints PASS/FAIL per demonstration; FAIL on the pinned tree, PASS after the `fix:` commit.
"""
import sys, traceback
import numpy as np
sys.path.insert(0, '/repo' if len(sys.argv) < 2 or not sys.argv[1].startswith('--repo=') else sys.argv[1][7:])
if len(sys.argv) > 1 and sys.argv[1].startswith('--repo='):
    del sys.argv[1]
import types
for _m in ('pkbar', 'sklearn', 'sklearn.metrics'):
    try:
        __import__(_m)
    except Exception:
        mod = types.ModuleType(_m)
        if _m == 'pkbar':
            class Kbar:
                def __init__(self, *a, **k): pass
                def update(self, *a, **k): pass
                def add(self, *a, **k): pass
            mod.Kbar = Kbar
        if _m == 'sklearn.metrics':
            for n in ('accuracy_score', 'roc_auc_score', 'confusion_matrix', 'classification_report'):
                setattr(mod, n, lambda *a, **k: None)
        sys.modules[_m] = mod
import synapgrad as sg
from synapgrad import nn, optim
import torch

DEMOS = {}
def demo(f):
    DEMOS[f.__name__] = f
    return f

def T(a, rg=True, dtype=np.float32):
    return sg.Tensor(np.array(a, dtype=dtype), requires_grad=rg)

@demo
def c01_movedim_backward_inverse():
    x = T(np.random.rand(2, 3, 4)); y = x.movedim(0, 2)
    g = np.random.rand(*y.shape).astype(np.float32)
    y.backward(sg.Tensor(g))
    xt = torch.tensor(x.data, requires_grad=True); yt = xt.movedim(0, 2); yt.backward(torch.tensor(g))
    assert np.allclose(x.grad.data, xt.grad.numpy())

@demo
def c01_slice_repeated_indices():
    x = T([1., 2., 3.]); y = x[[0, 0, 1]]; y.backward(sg.Tensor(np.ones(3, dtype=np.float32)))
    assert np.allclose(x.grad.data, [2, 1, 0]), x.grad.data

@demo
def c01_mean_negative_tuple_axes():
    x = T(np.random.rand(2, 3, 4)); y = x.mean(dim=(-1, -2)); y.backward(sg.Tensor(np.ones(2, dtype=np.float32)))
    assert np.allclose(x.grad.data, 1 / 12), x.grad.data.ravel()[:3]

@demo
def c02_batchnorm_eval_backward_scale():
    bn = nn.BatchNorm1d(3); bn.running_var.data = np.array([4., 9., 16.], dtype=np.float32); bn.eval()
    x = T(np.random.rand(5, 3)); y = bn(x); y.backward(sg.Tensor(np.ones((5, 3), dtype=np.float32)))
    assert np.allclose(x.grad.data[0], 1 / np.sqrt(np.array([4., 9., 16.]) + 1e-5), atol=1e-4), x.grad.data[0]

@demo
def c02_softmax_any_dim():
    for shape, dim in (((3, 4), 0), ((2, 3, 4), 2), ((2, 3, 4), 1), ((2, 3, 4), -1)):
        a = np.random.randn(*shape).astype(np.float32); g = np.random.randn(*shape).astype(np.float32)
        for fn, tfn in ((sg.softmax, torch.softmax), (sg.log_softmax, torch.log_softmax)):
            x = T(a); y = fn(x, dim); y.backward(sg.Tensor(g))
            xt = torch.tensor(a, requires_grad=True); yt = tfn(xt, dim); yt.backward(torch.tensor(g))
            assert np.allclose(y.data, yt.detach().numpy(), atol=1e-5)
            assert np.allclose(x.grad.data, xt.grad.numpy(), atol=1e-5), (shape, dim, fn.__name__)

@demo
def c02_mse_target_grad():
    p = T([1., 2.]); t = T([0., 4.]); l = sg.mse_loss(p, t); l.backward(sg.Tensor(np.ones(2, dtype=np.float32)))
    assert np.allclose(t.grad.data, [-2., 4.]), t.grad.data

@demo
def c02_bce_target_grad():
    p = T([0.3, 0.6]); t = T([0.2, 0.9]); l = sg.binary_cross_entropy(p, t); l.backward(sg.Tensor(np.ones(2, dtype=np.float32)))
    pt = torch.tensor(p.data, requires_grad=True); tt = torch.tensor(t.data, requires_grad=True)
    torch.nn.functional.binary_cross_entropy(pt, tt, reduction='none').backward(torch.ones(2))
    assert np.allclose(t.grad.data, tt.grad.numpy(), atol=1e-5), (t.grad.data, tt.grad)

@demo
def c02_bce_logits_target_grad():
    p = T([0.3, -0.6]); t = T([0.2, 0.9]); l = sg.binary_cross_entropy_with_logits(p, t); l.backward(sg.Tensor(np.ones(2, dtype=np.float32)))
    assert np.allclose(t.grad.data, -p.data, atol=1e-6), t.grad.data

@demo
def c04_stale_nonleaf_grad():
    a = T([1., 2.])
    l1 = (a * 2.0).sum(); l2 = (a * 3.0).sum()
    l1.backward(); a.zero_()
    (l1 + l2).backward()
    assert np.allclose(a.grad.data, [5, 5]), a.grad.data

@demo
def c04_leaf_root_accumulates():
    a = T([1., 2.]); g = sg.Tensor(np.array([1., 1.], dtype=np.float32))
    a.backward(g); a.backward(g)
    assert np.allclose(a.grad.data, [2, 2]), a.grad.data

@demo
def c11_seed_not_aliased():
    a = T([1., 2.]); b = a * 2.0; b.retain_grad()
    g = sg.Tensor(np.array([1., 1.], dtype=np.float32)); g0 = g.data.copy()
    b.backward(g)
    c = (b * 3.0)
    c.backward(sg.Tensor(np.array([1., 1.], dtype=np.float32)))
    assert np.array_equal(g.data, g0), g.data

@demo
def c10_seed_dtype():
    a = T([1., 2.]); b = a * 2.0
    b.backward(sg.Tensor(np.ones(2, dtype=np.float64)))
    assert a.grad.dtype == np.float32 and b._grad is None or b._grad.dtype == np.float32
    a = T([1., 2.]); a.backward(sg.Tensor(np.ones(2, dtype=np.float64)))
    assert a.grad.dtype == np.float32, a.grad.dtype

@demo
def c07_context_managers_nest():
    st = sys.modules["synapgrad.tensor"]
    ng = sg.no_grad()
    with sg.no_grad():
        with ng:
            pass
        assert st.gradient__ is False
    assert st.gradient__ is True
    with ng:
        with ng:
            pass
        assert st.gradient__ is False
    assert st.gradient__ is True
    rg = sg.retain_grads()
    with sg.retain_grads():
        with rg: pass
        assert st.retain_grads__ is True
    assert st.retain_grads__ is False

@demo
def c10_scalar_results_keep_dtype():
    a = sg.Tensor(np.random.rand(2, 3), dtype=np.float64, requires_grad=True)
    assert a.sum().dtype == np.float64, a.sum().dtype
    assert a[0, 0].dtype == np.float64
    assert (sg.Tensor(np.float64(2.), dtype=np.float64) * sg.Tensor(np.float64(3.), dtype=np.float64)).dtype == np.float64
    assert nn.MSELoss()(a, a.detach()).dtype == np.float64

@demo
def c05_squeeze_tuple_dim():
    x = T(np.random.rand(1, 3, 1, 2)); y = x.squeeze((0, 2))
    assert y.shape == (3, 2)
    y.backward(sg.Tensor(np.ones((3, 2), dtype=np.float32))); assert x.grad.shape == (1, 3, 1, 2)
    assert x.squeeze((0, 1)).shape == torch.tensor(x.data).squeeze((0, 1)).shape

@demo
def c05_flatten_negative_dims():
    x = T(np.random.rand(2, 3, 4, 5))
    for s, e in ((0, -2), (-2, -1), (1, 2), (-3, 2), (0, -1), (1, 1), (-1, -1), (0, 3)):
        assert x.flatten(s, e).shape == tuple(torch.tensor(x.data).flatten(s, e).shape), (s, e)
    assert sg.Tensor(np.float32(3.)).flatten().shape == (1,)
    try:
        x.flatten(2, 1); raise AssertionError("should raise")
    except RuntimeError: pass

@demo
def c05_iter_independent_cursors():
    t = sg.Tensor(np.arange(3, dtype=np.float32))
    pairs = [(float(a.data), float(b.data)) for a in t for b in t]
    assert len(pairs) == 9, len(pairs)

@demo
def c06_unfold_int_kernel():
    x = T(np.random.rand(1, 2, 4, 4)); y = sg.unfold(x, 2)
    assert y.shape == (1, 8, 9)
    from synapgrad import conv_tools
    assert np.allclose(conv_tools.im2col(x.data, 2), conv_tools.im2col_v2(x.data, 2))
    assert np.allclose(conv_tools.im2col_fast(x.data, 2), conv_tools.im2col_v2(x.data, 2))

@demo
def c06_loss_reduction_enum():
    p = T([1., 2.]); t = T([0., 4.], rg=False)
    assert nn.MSELoss(reduction='none')(p, t).shape == (2,)
    assert nn.MSELoss(reduction=None)(p, t).shape == (2,)
    try:
        nn.MSELoss(reduction='avg')(p, t); raise AssertionError("should raise")
    except ValueError: pass

@demo
def c08_sgd_momentum_buffer_owned():
    p = T([1., 2.]); opt = optim.SGD([p], lr=0.1, momentum=0.9)
    (p * 2.0).sum().backward(); opt.step()
    assert opt.momentum_buffer[0] is not p._grad
    b0 = np.array(opt.momentum_buffer[0]).copy()
    (p * 2.0).sum().backward()
    assert np.array_equal(opt.momentum_buffer[0], b0)

@demo
def c08_frozen_params_fixed():
    for mk in (lambda ps: optim.SGD(ps, lr=0.1, weight_decay=0.1, momentum=0.9),
               lambda ps: optim.Adam(ps, lr=0.1, weight_decay=0.1), lambda ps: optim.AdamW(ps, lr=0.1, weight_decay=0.1)):
        p = T([1., 2.]); q = T([3., 4.], rg=False); opt = mk([q, p])
        for _ in range(3):
            opt.zero_grad(); (p * q).sum().backward(); opt.step()
        assert np.array_equal(q.data, [3., 4.]), q.data
        assert q._grad is None
        assert not np.array_equal(p.data, [1., 2.])

@demo
def c08_sgd_maximize_weight_decay():
    for kw in (dict(momentum=0.0), dict(momentum=0.9), dict(momentum=0.9, dampening=0.5), dict(momentum=0.9, nesterov=True)):
        p = T([1., 2.]); pt = torch.tensor([1., 2.], requires_grad=True)
        o = optim.SGD([p], lr=0.1, weight_decay=0.5, maximize=True, **kw); ot = torch.optim.SGD([pt], lr=0.1, weight_decay=0.5, maximize=True, **kw)
        for _ in range(3):
            o.zero_grad(); ot.zero_grad(); (p * p).sum().backward(); (pt * pt).sum().backward(); o.step(); ot.step()
        assert np.allclose(p.data, pt.detach().numpy(), atol=1e-5), (kw, p.data, pt)

@demo
def c09_bce_logits_large():
    with np.errstate(all='ignore'):
        for v in (100., -100., 1e4, -1e4):
            p = T([v, v]); t = T([0., 1.], rg=False)
            l = sg.binary_cross_entropy_with_logits(p, t); l.backward(sg.Tensor(np.ones(2, dtype=np.float32)))
            pt = torch.tensor([v, v], requires_grad=True); lt = torch.nn.functional.binary_cross_entropy_with_logits(pt, torch.tensor([0., 1.]), reduction='none'); lt.backward(torch.ones(2))
            assert np.all(np.isfinite(l.data)) and np.allclose(l.data, lt.detach().numpy(), rtol=1e-5), (v, l.data)
            assert np.all(np.isfinite(p.grad.data)) and np.allclose(p.grad.data, pt.grad.numpy(), atol=1e-6), (v, p.grad.data)

@demo
def c09_selu_backward_large():
    with np.errstate(all='ignore'):
        x = T([100., 1e4, -1e4, -100.]); y = sg.selu(x); y.backward(sg.Tensor(np.ones(4, dtype=np.float32)))
        assert np.all(np.isfinite(y.data)) and np.all(np.isfinite(x.grad.data)), x.grad.data

@demo
def c09_cross_entropy_wide_logits():
    with np.errstate(all='ignore'):
        a = np.array([[0., 100., -1000.], [1e4, 0., -1e4]], dtype=np.float32)
        x = T(a); y = sg.Tensor(np.array([0, 2]))
        l = sg.cross_entropy(x, y); l.backward(sg.Tensor(np.ones((2, 1), dtype=np.float32)))
        xt = torch.tensor(a, requires_grad=True); lt = torch.nn.functional.cross_entropy(xt, torch.tensor([0, 2]), reduction='none'); lt.backward(torch.ones(2))
        assert np.allclose(l.data.ravel(), lt.detach().numpy(), rtol=1e-5), (l.data.ravel(), lt)
        assert np.allclose(x.grad.data, xt.grad.numpy(), atol=1e-6)
        x = T(a); y = sg.log_softmax(x, 1); g = np.array([[1., 2., 3.], [4., 5., 6.]], dtype=np.float32); y.backward(sg.Tensor(g))
        xt = torch.tensor(a, requires_grad=True); torch.log_softmax(xt, 1).backward(torch.tensor(g))
        assert np.allclose(x.grad.data, xt.grad.numpy(), atol=1e-5), (x.grad.data, xt.grad)

@demo
def c12_parameters_dedup():
    shared = nn.Linear(2, 2)
    class M(nn.Module):
        def __init__(s):
            super().__init__(); s.a = shared; s.b = shared
    m = M(); assert len(m.parameters()) == 2 and m.num_params() == 6, (len(m.parameters()), m.num_params())

@demo
def c12_setattr_replaces_registration():
    l = nn.Linear(2, 2); l.bias = None
    assert len(l.parameters()) == 1
    class M(nn.Module):
        def __init__(s):
            super().__init__(); s.a = nn.Linear(2, 2)
    m = M(); m.a = nn.Parameter(sg.ones(2, requires_grad=True))
    assert len(m.submodules()) == 0 and len(m.parameters()) == 1
    m.a = nn.Linear(2, 2)
    assert len(m.submodules()) == 1 and len(m.parameters()) == 2

@demo
def c12_empty_sequential_identity():
    x = T([1., 2.]); assert nn.Sequential()(x) is x

@demo
def c15_normal_inits_std():
    np.random.seed(0)
    w = sg.empty(400, 400); nn.init.xavier_normal_(w)
    assert abs(w.data.std() - np.sqrt(2 / 800)) < 0.005, w.data.std()
    nn.init.kaiming_normal_(w, nonlinearity='relu')
    assert abs(w.data.std() - np.sqrt(2 / 400)) < 0.005, w.data.std()

@demo
def c17_deep_chain():
    x = T([1.]); y = x
    for _ in range(5000): y = y + 1.0
    y.backward(sg.Tensor(np.ones(1, dtype=np.float32)))
    assert np.allclose(x.grad.data, 1)

@demo
def c17_no_history_without_grad():
    import weakref, gc
    a = sg.Tensor(np.ones(3)); r = weakref.ref(a)
    b = a * 2.0; del a; gc.collect()
    assert r() is None
    w = T([1.])
    with sg.no_grad():
        v = w * 2.0
    assert len(v._children) == 0

@demo
def c18_dataloader_no_transform():
    from synapgrad.nn.utils.data import DataLoader
    dl = DataLoader(np.arange(10), np.arange(10), 3)
    bs = list(dl); assert len(bs) == 3 and np.array_equal(bs[1][0], [3, 4, 5])

@demo
def c20_trainer_empty_loader():
    from synapgrad.nn.utils.train import Trainer
    from synapgrad.nn.utils.data import DataLoader
    m = nn.Linear(2, 1); tr = Trainer(m, sg); tr.compile(nn.MSELoss(), optim.SGD(m.parameters(), lr=0.1))
    dl = DataLoader(np.zeros((1, 2)), np.zeros(1), 4, transform=lambda d, X, y: (sg.Tensor(X), sg.Tensor(y)))
    tr.fit(dl, 1)

if __name__ == '__main__':
    names = sys.argv[1:] or list(DEMOS)
    bad = 0
    for n in names:
        np.random.seed(0)
        try:
            DEMOS[n](); print("PASS", n)
        except Exception as e:
            bad += 1; print("FAIL", n, type(e).__name__, str(e)[:150].replace("\n", " "))
    sys.exit(1 if bad else 0)
