"""debug aid: print the normalised source the rules see.   show_norm.py <repo root> <module file relative to repo> [function name ...]"""
import sys, ast, os
sys.path.insert(0, os.path.dirname(os.path.dirname(os.path.abspath(__file__))))
from sa import normalize


def main(argv):
    repo, rel = argv[1], argv[2]
    names = set(argv[3:])
    src = open(os.path.join(repo, rel)).read()
    t = ast.parse(src)
    modname = rel[:-3].replace('/', '.')
    normalize.normalize_module(t, modname)
    for n in ast.walk(t):
        if isinstance(n, ast.FunctionDef) and (not names or n.name in names):
            print(ast.unparse(n))
            print()


if __name__ == '__main__':
    main(sys.argv)
