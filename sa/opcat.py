"""Op catalogue: every module-level function of synapgrad/functional.py and synapgrad/nn/functional.py
that builds a `Tensor(..., children=...)` is an instance of one template

    validate -> forward kernel(operand.data ...) -> out = Tensor(data, children=OPERANDS, requires_grad=RG)
    def backward(): g = out.grad ; grads = backward kernel(g.data, saved...) ; if X.requires_grad: X._grad += grads_k
    if out.requires_grad: out.grad_fn = BackwardFunction(backward, ...)

This module extracts the template slots from the syntax tree.  A function that builds a Tensor with
children but does not expose a slot raises Incomplete (reported as ANALYSIS-INCOMPLETE), it is never skipped.
"""
import ast
from .core import Model, AnalysisError, norm, body_walk, dotted, walk_shallow
from .cfg import CFG, facts_at
from .report import Incomplete

OP_MODULES = ('synapgrad.functional', 'synapgrad.nn.functional')
KERNEL_MODULES = ('synapgrad.cpu_ops', 'synapgrad.conv_tools')


class Child:
    def __init__(self, name, cond=None, is_list=False):
        self.name, self.cond, self.is_list = name, cond, is_list   # cond: normalised presence predicate text or None

    def __repr__(self):
        return '%s%s%s' % (self.name, '*' if self.is_list else '', '?[%s]' % self.cond if self.cond else '')


class Acc:
    """one accumulation statement  <target>._grad += <rhs>  in a backward closure"""
    def __init__(self, stmt, target, op, rhs, facts, loop=None):
        self.stmt, self.target, self.op, self.rhs, self.facts, self.loop = stmt, target, op, rhs, facts, loop


class Op:
    def __init__(self, func):
        self.func = func
        self.name = func.name
        self.qual = func.qualname
        self.tensor_calls = []      # ast.Call Tensor(..., children=)
        self.out_name = None
        self.multi_output = False
        self.children = []          # [Child]
        self.children_expr = None
        self.rg_expr = None         # requires_grad expression (resolved through one local assignment)
        self.rg_raw = None
        self.fwd_calls = []         # [(dotted kernel name, ast.Call)] outside closures
        self.closures = []          # [Func] passed to BackwardFunction
        self.bwd_calls = []         # [(dotted kernel name, ast.Call, closure Func)]
        self.grad_reads = []        # [(closure, assigned name, value expr)]
        self.accs = []              # [Acc]
        self.attach = []            # [(stmt, facts, BackwardFunction call)]
        self.cfg = None
        self.closure_cfg = {}


def _tensor_args(model, call):
    """arguments of a Tensor(...) construction bound to the parameter names of Tensor.__init__ (positional or keyword)"""
    init = model.funcs.get('synapgrad.tensor.Tensor.__init__')
    params = init.pos_params[1:] if init is not None else ['data', 'children', 'operation', 'requires_grad', 'dtype', 'name', 'device']
    b = {}
    for i, a in enumerate(call.args):
        if isinstance(a, ast.Starred) or i >= len(params):
            return {}
        b[params[i]] = a
    for k in call.keywords:
        if k.arg is None:
            return {}
        b[k.arg] = k.value
    return b


def _assignments(fnode, name):
    """all statements in fnode (not nested defs) that bind `name`: [(stmt, value expr or None, kind)]"""
    out = []
    for n in body_walk(fnode):
        if isinstance(n, ast.Assign):
            for t in n.targets:
                if isinstance(t, ast.Name) and t.id == name:
                    out.append((n, n.value, 'assign'))
                elif isinstance(t, (ast.Tuple, ast.List)) and any(isinstance(e, ast.Name) and e.id == name for e in ast.walk(t)):
                    out.append((n, n.value, 'unpack'))
        elif isinstance(n, ast.AugAssign) and isinstance(n.target, ast.Name) and n.target.id == name:
            out.append((n, n.value, 'aug'))
        elif isinstance(n, ast.AnnAssign) and isinstance(n.target, ast.Name) and n.target.id == name and n.value is not None:
            out.append((n, n.value, 'assign'))
    return out


def _cond_text(cfg, stmt):
    fs = facts_at(cfg, stmt)
    # drop device dispatch facts (x.device == Device.CPU): irrelevant to operand presence
    fs = [(t, p) for t, p, _ in fs if 'device' not in t and 'isinstance' not in t]
    return ' and '.join(('%s' if p else 'not (%s)') % t for t, p in sorted(set(fs))) or None


def cond_formula(fnode, cfg, stmt):
    """the path condition of stmt as one expression over atoms: facts joined by `and`, single-binding flags replaced by their definitions"""
    from .core import inline_expr
    parts = []
    for t, p, _ in facts_at(cfg, stmt):
        try:
            e = ast.parse(t, mode='eval').body
        except SyntaxError:
            return None
        e = inline_expr(fnode, e)
        parts.append(e if p else ast.UnaryOp(op=ast.Not(), operand=e))
    if not parts:
        return ast.Constant(value=True)
    return ast.BoolOp(op=ast.And(), values=parts) if len(parts) > 1 else parts[0]


def cond_equivalent(e1, e2, assume_true=('device', 'isinstance')):
    """are two path conditions the same boolean function of their atoms?  Atoms mentioning one of `assume_true` (device dispatch, type checks
    that raise otherwise) are taken as satisfied.  Returns (bool, description)"""
    import itertools
    from .rules_engine import canon_atom

    def atoms(e, acc):
        if isinstance(e, ast.BoolOp):
            for v in e.values:
                atoms(v, acc)
        elif isinstance(e, ast.UnaryOp) and isinstance(e.op, ast.Not):
            atoms(e.operand, acc)
        elif isinstance(e, ast.Constant) and isinstance(e.value, bool):
            pass
        else:
            acc.add(canon_atom(norm(e))[0])
        return acc
    names = sorted(atoms(e1, set()) | atoms(e2, set()))
    free = [a for a in names if not any(k in a for k in assume_true)]
    if len(free) > 10:
        return False, 'too many atoms'

    def ev(e, val):
        if isinstance(e, ast.BoolOp):
            vs = [ev(v, val) for v in e.values]
            return all(vs) if isinstance(e.op, ast.And) else any(vs)
        if isinstance(e, ast.UnaryOp) and isinstance(e.op, ast.Not):
            return not ev(e.operand, val)
        if isinstance(e, ast.Constant) and isinstance(e.value, bool):
            return e.value
        c, pol = canon_atom(norm(e))
        v = val.get(c, True)
        return v if pol else not v
    for bits in itertools.product((False, True), repeat=len(free)):
        val = dict(zip(free, bits))
        if ev(e1, val) != ev(e2, val):
            return False, 'differ for %s' % val
    return True, ''


def extract(model: Model, func):
    op = Op(func)
    op.model = model
    fnode = func.node
    op.cfg = CFG(fnode)
    # ---- Tensor(..., children=...) constructions
    for n in body_walk(fnode):
        if isinstance(n, ast.Call) and model.resolve(func.mod, n.func) == 'synapgrad.tensor.Tensor' and 'children' in _tensor_args(model, n):
            op.tensor_calls.append(n)
    if not op.tensor_calls:
        return None
    if len(op.tensor_calls) != 1:
        raise Incomplete('%d Tensor(children=) constructions in one wrapper' % len(op.tensor_calls))
    tcall = op.tensor_calls[0]
    # out name: the Assign whose value contains the call
    out_stmt = None
    for n in body_walk(fnode):
        if isinstance(n, ast.Assign) and any(c is tcall for c in ast.walk(n.value)):
            out_stmt = n
    if out_stmt is None or len(out_stmt.targets) != 1 or not isinstance(out_stmt.targets[0], ast.Name):
        raise Incomplete('result of Tensor(children=) is not bound to a single name')
    op.out_stmt = out_stmt
    op.out_name = out_stmt.targets[0].id
    op.multi_output = out_stmt.value is not tcall
    if op.multi_output:
        # accepted idioms: out = tuple(Tensor(o, ...) for o in <kernel result>)   |   tmp = [Tensor(o, ...) for o in <kernel result>] ; out = tuple(tmp)
        v = out_stmt.value
        if isinstance(v, (ast.ListComp, ast.GeneratorExp)) and v.elt is tcall:
            # the comprehension is bound to a temporary that is wrapped by tuple()/list() and bound to the result name
            tmp = out_stmt.targets[0].id
            wraps = [n for n in body_walk(fnode) if isinstance(n, ast.Assign) and len(n.targets) == 1 and isinstance(n.targets[0], ast.Name) and isinstance(n.value, ast.Call)
                     and dotted(n.value.func) in ('tuple', 'list') and len(n.value.args) == 1 and isinstance(n.value.args[0], ast.Name) and n.value.args[0].id == tmp]
            if len(wraps) == 1:
                op.out_name = wraps[0].targets[0].id
            fake = ast.Call(func=ast.Name(id='tuple', ctx=ast.Load()), args=[v], keywords=[])
            ast.copy_location(fake, v)
            out_stmt = ast.copy_location(ast.Assign(targets=[ast.Name(id=op.out_name, ctx=ast.Store())], value=fake), out_stmt)
            ast.fix_missing_locations(out_stmt)
            op.out_stmt = out_stmt
            v = fake
        if not (isinstance(v, ast.Call) and dotted(v.func) in ('tuple', 'list') and len(v.args) == 1
                and isinstance(v.args[0], (ast.GeneratorExp, ast.ListComp)) and v.args[0].elt is tcall):
            raise Incomplete('unrecognised multi-output construction: %s' % norm(out_stmt))
    kw = _tensor_args(model, tcall)
    op.children_expr = kw['children']
    op.rg_raw = kw.get('requires_grad')
    if op.rg_raw is None:
        raise Incomplete('Tensor(children=...) without requires_grad=')
    op.data_expr = kw.get('data')
    # ---- children
    op.children = _children(op, func, op.children_expr)
    # ---- requires_grad expression, through one level of local assignment
    rg = op.rg_raw
    if isinstance(rg, ast.Name):
        asg = _assignments(fnode, rg.id)
        # (the value itself is decided by evaluation over all requires_grad valuations: rules_flags PROP; the expression is recorded when there is one)
        rg = asg[0][1] if len(asg) == 1 and asg[0][2] == 'assign' else None
    op.rg_expr = rg
    # ---- closures, attach statements
    nested = {f.name: f for f in model.nested(func)}
    for n in body_walk(fnode):
        if isinstance(n, ast.Call) and _is_backward_function(model, func, n):
            first = n.args[0] if n.args else next((k.value for k in n.keywords if k.arg == 'backward'), None)
            if not isinstance(first, ast.Name) or first.id not in nested:
                raise Incomplete('BackwardFunction(...) first argument is not a local closure: %s' % norm(n))
            cl = nested[first.id]
            if cl not in op.closures:
                op.closures.append(cl)
    for n in body_walk(fnode):
        if isinstance(n, ast.Assign) and len(n.targets) == 1 and isinstance(n.targets[0], ast.Attribute) \
                and n.targets[0].attr in ('grad_fn', '_grad_fn'):
            bf = n.value if isinstance(n.value, ast.Call) and _is_backward_function(model, func, n.value) else None
            op.attach.append((n, facts_at(op.cfg, n), bf))
    if not op.closures:
        raise Incomplete('no backward closure passed to BackwardFunction')
    if not op.attach:
        raise Incomplete('no grad_fn attach statement')
    # ---- kernel calls
    for n in body_walk(fnode):
        if isinstance(n, ast.Call):
            d = model.resolve(func.mod, n.func)
            if d and d.rsplit('.', 1)[0] in KERNEL_MODULES:
                op.fwd_calls.append((d, n))
    for cl in op.closures:
        ccfg = CFG(cl.node)
        op.closure_cfg[cl.qualname] = ccfg
        for n in body_walk(cl.node):
            if isinstance(n, ast.Call):
                d = model.resolve(func.mod, n.func)
                if d and d.rsplit('.', 1)[0] in KERNEL_MODULES:
                    op.bwd_calls.append((d, n, cl))
            if isinstance(n, ast.Assign) and len(n.targets) == 1 and isinstance(n.targets[0], ast.Name) \
                    and isinstance(n.value, ast.Attribute) and n.value.attr in ('grad', '_grad'):
                op.grad_reads.append((cl, n.targets[0].id, n.value))
            if isinstance(n, (ast.AugAssign, ast.Assign)):
                tgts = [n.target] if isinstance(n, ast.AugAssign) else n.targets
                for t in tgts:
                    if isinstance(t, ast.Attribute) and t.attr in ('_grad', 'grad'):
                        loops = ccfg.in_loop(n)
                        op.accs.append(Acc(n, t.value, type(n.op).__name__ if isinstance(n, ast.AugAssign) else '=',
                                           n.value, facts_at(ccfg, n), loops[0] if loops else None))
                    elif isinstance(t, ast.Subscript) and isinstance(t.value, ast.Attribute) and t.value.attr in ('_grad', 'grad'):
                        loops = ccfg.in_loop(n)
                        op.accs.append(Acc(n, t.value.value, 'subscript-store', n.value, facts_at(ccfg, n), loops[0] if loops else None))
    if not op.fwd_calls:
        raise Incomplete('no forward kernel call')
    if not op.bwd_calls:
        raise Incomplete('no backward kernel call in the closure')
    return op


def _is_backward_function(model, func, call):
    d = model.resolve(func.mod, call.func)
    return d == 'synapgrad.functional.BackwardFunction'


def _children(op, func, expr):
    fnode = func.node
    cfg = op.cfg
    if isinstance(expr, ast.Tuple) and all(isinstance(e, ast.Name) for e in expr.elts):
        return [Child(e.id) for e in expr.elts]
    if isinstance(expr, ast.Call) and dotted(expr.func) in ('tuple', 'list') and len(expr.args) == 1 and isinstance(expr.args[0], ast.Name):
        return [Child(expr.args[0].id, is_list=True)]
    if isinstance(expr, ast.IfExp) and all(isinstance(b, ast.Tuple) and all(isinstance(e, ast.Name) for e in b.elts) for b in (expr.body, expr.orelse)):
        a, b = [e.id for e in expr.body.elts], [e.id for e in expr.orelse.elts]
        common = [n for n in a if n in b]
        t = norm(expr.test)
        out = [Child(n) for n in common]
        out += [Child(n, cond=t) for n in a if n not in common]
        out += [Child(n, cond='not (%s)' % t) for n in b if n not in common]
        return out
    if isinstance(expr, ast.Name):
        asg = _assignments(fnode, expr.id)
        if not asg:
            raise Incomplete('children name %s is never bound' % expr.id)
        plain = [a for a in asg if a[2] == 'assign']
        augs = [a for a in asg if a[2] == 'aug']
        if any(a[2] == 'unpack' for a in asg):
            raise Incomplete('children name bound by unpacking')
        if len(plain) == 1 and not augs:
            return _children(op, func, plain[0][1])
        if len(plain) > 1 and not augs:
            # alternative bindings under complementary conditions: if c: inputs = (x, w, b) else: inputs = (x, w)
            alts = []
            for stmt, val, _ in plain:
                if not isinstance(val, ast.Tuple) or not all(isinstance(e, ast.Name) for e in val.elts):
                    raise Incomplete('alternative children binding is not a tuple of names: %s' % norm(stmt))
                alts.append((_cond_text(cfg, stmt), [e.id for e in val.elts]))
            common = [n for n in alts[0][1] if all(n in a[1] for a in alts)]
            out = [Child(n) for n in common]
            seen = set(common)
            for cond, names in alts:
                for n in names:
                    if n not in seen:
                        seen.add(n)
                        out.append(Child(n, cond=cond or 'conditional'))
            return out
        if len(plain) == 1 and augs:
            base = _children(op, func, plain[0][1])
            for stmt, val, _ in augs:
                if not isinstance(val, ast.Tuple) or not all(isinstance(e, ast.Name) for e in val.elts):
                    raise Incomplete('children extension is not a tuple of names: %s' % norm(stmt))
                cond = _cond_text(cfg, stmt)
                for e in val.elts:
                    base.append(Child(e.id, cond=cond))
            return base
    # any other spelling: evaluate the wrapper (sa/rules_flags.py) and read the children tuple of the result tensor, per presence scenario
    ev = _children_by_evaluation(op, func)
    if ev is not None:
        return ev
    raise Incomplete('unrecognised children expression: %s' % norm(expr))


def _children_by_evaluation(op, func):
    from . import rules_flags as F
    model = op.model
    if model is None:
        return None
    try:
        r = F.analyse_op(model, func, model.func(F.TENSOR + '.__init__'))
    except Incomplete:
        return None
    if r is None:
        return None
    ops, recs, kuses = r
    seen, out = {}, []
    total = 0
    for rec in recs:
        if not rec.get('tensors'):
            continue
        total += 1
        for t in rec['tensors'][:1]:
            if not isinstance(t.children, tuple):
                return None
            for c in t.children:
                nm = getattr(c, 'name', None)
                if nm is None:
                    return None
                base = nm.split('[')[0]
                seen.setdefault(base, [0, '[' in nm])
                seen[base][0] += 1
    if not seen:
        return None
    listed = {}
    for rec in recs:
        for t in (rec.get('tensors') or [])[:1]:
            present = {getattr(c, 'name', '').split('[')[0] for c in t.children}
            for base in seen:
                listed.setdefault(base, []).append(base in present)
    order = []
    for rec in recs:
        for t in (rec.get('tensors') or [])[:1]:
            for c in t.children:
                b = c.name.split('[')[0]
                if b not in order:
                    order.append(b)
    for base in order:
        always = all(listed[base])
        out.append(Child(base, cond=None if always else '%s is not None' % base, is_list=seen[base][1]))
    return out


_cache = {}


def catalogue(model: Model, report=None, rule='OPCAT'):
    """returns (ops, problems). ops: list of Op for both functional modules."""
    key = id(model)
    if key in _cache:
        return _cache[key]
    ops, problems = [], []
    for modname in OP_MODULES:
        for f in model.module_functions(modname):
            try:
                op = extract(model, f)
            except Incomplete as e:
                problems.append((f.qualname, str(e)))
                continue
            if op is not None:
                ops.append(op)
    _cache[key] = (ops, problems)
    return ops, problems
