"""Statement-level control-flow graph of one function (networkx), with dominance queries and
path conditions.  Statement kinds handled: If/For/While/With/Try/Return/Raise/Break/Continue/
Assert/Match-free simple statements - everything the repository uses.  Expressions are not split
(IfExp / BoolOp short-circuit stay inside their statement).
"""
import ast
import networkx as nx

ENTRY, EXIT, RAISE = 'ENTRY', 'EXIT', 'RAISE'

TERMINATORS = (ast.Return, ast.Raise, ast.Continue, ast.Break)


class CFG:
    def __init__(self, fnode):
        self.fnode = fnode
        self.g = nx.DiGraph()
        self.g.add_nodes_from([ENTRY, EXIT, RAISE])
        self.stmts = {}         # id -> stmt
        self.parent = {}        # id(stmt) -> (parent stmt or None, field, index)
        self.loops = []         # stack while building
        frontier = self._block(fnode.body, [(ENTRY, None)], None, 'body', handlers=None)
        for src, lab in frontier:
            self._edge(src, EXIT, lab)
        self._idom = None
        self._ipdom = None

    # ------------------------------------------------------------ construction
    def _nid(self, stmt):
        self.stmts[id(stmt)] = stmt
        return id(stmt)

    def _edge(self, a, b, label=None):
        if self.g.has_edge(a, b):
            if label is not None:
                self.g[a][b].setdefault('labels', set()).add(label)
        else:
            self.g.add_edge(a, b, labels={label} if label is not None else set())

    def _block(self, stmts, frontier, parent, field, handlers):
        """frontier: list of (node, edge-label) that flow into the first statement; returns the outgoing frontier"""
        for i, s in enumerate(stmts):
            self.parent[id(s)] = (parent, field, i)
            frontier = self._stmt(s, frontier, handlers)
        return frontier

    def _stmt(self, s, frontier, handlers):
        n = self._nid(s)
        self.g.add_node(n)
        for src, lab in frontier:
            self._edge(src, n, lab)
        # any statement inside a try body may raise into the handlers
        if handlers:
            for h in handlers:
                self._edge(n, h, 'exc')
        if isinstance(s, ast.If):
            t = self._block(s.body, [(n, (id(s), True))], s, 'body', handlers)
            f = self._block(s.orelse, [(n, (id(s), False))], s, 'orelse', handlers) if s.orelse else [(n, (id(s), False))]
            return t + f
        if isinstance(s, (ast.For, ast.AsyncFor, ast.While)):
            self.loops.append((n, []))
            body_out = self._block(s.body, [(n, (id(s), True))], s, 'body', handlers)
            for src, lab in body_out:
                self._edge(src, n, lab)
            _, breaks = self.loops.pop()
            out = self._block(s.orelse, [(n, (id(s), False))], s, 'orelse', handlers) if s.orelse else [(n, (id(s), False))]
            return out + [(b, None) for b in breaks]
        if isinstance(s, (ast.With, ast.AsyncWith)):
            return self._block(s.body, [(n, None)], s, 'body', handlers)
        if isinstance(s, ast.Try):
            hnodes = []
            for h in s.handlers:
                hn = self._nid(h)
                self.g.add_node(hn)
                hnodes.append(hn)
                self.parent[id(h)] = (s, 'handlers', 0)
            body_out = self._block(s.body, [(n, None)], s, 'body', (handlers or []) + hnodes if hnodes else handlers)
            if s.orelse:
                body_out = self._block(s.orelse, body_out, s, 'orelse', handlers)
            outs = list(body_out)
            for h, hn in zip(s.handlers, hnodes):
                outs += self._block(h.body, [(hn, None)], h, 'body', handlers)
            if s.finalbody:
                outs = self._block(s.finalbody, outs, s, 'finalbody', handlers)
            return outs
        if isinstance(s, ast.Return):
            self._edge(n, EXIT)
            return []
        if isinstance(s, ast.Raise):
            if not handlers:
                self._edge(n, RAISE)
            return []
        if isinstance(s, ast.Break):
            if self.loops:
                self.loops[-1][1].append(n)
            return []
        if isinstance(s, ast.Continue):
            if self.loops:
                self._edge(n, self.loops[-1][0])
            return []
        if isinstance(s, ast.Assert):
            self._edge(n, RAISE, 'assert')
            return [(n, None)]
        return [(n, None)]

    # ------------------------------------------------------------ queries
    def all_stmts(self):
        return list(self.stmts.values())

    def idom(self):
        if self._idom is None:
            self._idom = nx.immediate_dominators(self.g, ENTRY)
        return self._idom

    def ipdom(self):
        if self._ipdom is None:
            r = self.g.reverse(copy=True)
            r.add_node('SINK')
            r.add_edge('SINK', EXIT)
            r.add_edge('SINK', RAISE)
            self._ipdom = nx.immediate_dominators(r, 'SINK')
        return self._ipdom

    def _key(self, x):
        return x if isinstance(x, str) else id(x)

    def reachable(self, stmt):
        return nx.has_path(self.g, ENTRY, self._key(stmt))

    def dominates(self, a, b):
        """every path ENTRY -> b passes through a"""
        a, b = self._key(a), self._key(b)
        idom = self.idom()
        if b not in idom:
            return False
        n = b
        while True:
            if n == a:
                return True
            p = idom.get(n)
            if p is None or p == n:
                return False
            n = p

    def postdominates(self, a, b, normal_only=False):
        """every path b -> (EXIT|RAISE) passes through a  (normal_only: ignore raising exits)"""
        a, b = self._key(a), self._key(b)
        if normal_only:
            g = self.g.copy()
            g.remove_node(RAISE)
            if b not in g or not nx.has_path(g, b, EXIT):
                return True
            g2 = g.copy()
            if a in g2:
                g2.remove_node(a)
            return b == a or b not in g2 or not nx.has_path(g2, b, EXIT)
        ip = self.ipdom()
        if b not in ip:
            return False
        n = b
        while True:
            if n == a:
                return True
            p = ip.get(n)
            if p is None or p == n:
                return False
            n = p

    def path_exists(self, a, b, avoiding=()):
        g = self.g
        if avoiding:
            g = g.copy()
            g.remove_nodes_from([self._key(x) for x in avoiding if self._key(x) not in (self._key(a), self._key(b))])
        a, b = self._key(a), self._key(b)
        if a not in g or b not in g:
            return False
        if a == b:
            return any(nx.has_path(g, s, a) for s in g.successors(a))
        return nx.has_path(g, a, b)

    def enclosing(self, stmt):
        """chain of enclosing compound statements, innermost first: [(parent_stmt, field), ...]"""
        out = []
        cur = stmt
        while True:
            p = self.parent.get(id(cur))
            if p is None or p[0] is None:
                break
            out.append((p[0], p[1]))
            cur = p[0]
        return out

    def in_loop(self, stmt, outer=None):
        """enclosing loops of stmt (innermost first), stopping at `outer` (exclusive) if given"""
        loops = []
        for p, field in self.enclosing(stmt):
            if p is outer:
                break
            if isinstance(p, (ast.For, ast.While)) and field == 'body':
                loops.append(p)
        return loops

    def conditions(self, stmt):
        """path conditions known to hold when `stmt` executes: [(test_expr, polarity)].

        Sources: enclosing `if` tests (with branch polarity), `while` tests, and earlier sibling
        statements `if c: <block ending in raise/return/continue/break>` without else (gives not c),
        in every enclosing block.  `assert c` earlier in the block gives c.
        """
        conds = []
        cur = stmt
        while True:
            p = self.parent.get(id(cur))
            if p is None:
                break
            parent, field, idx = p
            block = getattr(parent, field) if parent is not None else self.fnode.body
            if isinstance(block, list):
                for prev in block[:idx]:
                    if isinstance(prev, ast.If) and not prev.orelse and prev.body and _terminates(prev.body):
                        conds.append((prev.test, False))
                    elif isinstance(prev, ast.If) and prev.orelse and _terminates(prev.orelse) and not _terminates(prev.body):
                        conds.append((prev.test, True))
                    elif isinstance(prev, ast.If) and prev.orelse and _terminates(prev.body) and not _terminates(prev.orelse):
                        conds.append((prev.test, False))
                    elif isinstance(prev, ast.Assert):
                        conds.append((prev.test, True))
            if parent is None:
                break
            if isinstance(parent, ast.If):
                conds.append((parent.test, field == 'body'))
            elif isinstance(parent, ast.While) and field == 'body':
                conds.append((parent.test, True))
            cur = parent
        return conds


def _terminates(block):
    """the block never falls through"""
    if not block:
        return False
    last = block[-1]
    if isinstance(last, TERMINATORS):
        return True
    if isinstance(last, ast.If) and last.orelse:
        return _terminates(last.body) and _terminates(last.orelse)
    return False


def flatten_and(expr, polarity=True):
    """split a condition into atomic facts [(expr, polarity)] that must all hold.
    (a and b, True) -> a, b ; (a or b, False) -> not a, not b ; (not a, p) -> (a, not p)"""
    if isinstance(expr, ast.UnaryOp) and isinstance(expr.op, ast.Not):
        return flatten_and(expr.operand, not polarity)
    if isinstance(expr, ast.BoolOp):
        if isinstance(expr.op, ast.And) and polarity:
            return [f for v in expr.values for f in flatten_and(v, True)]
        if isinstance(expr.op, ast.Or) and not polarity:
            return [f for v in expr.values for f in flatten_and(v, False)]
    return [(expr, polarity)]


def facts_at(cfg, stmt):
    """atomic facts [(normalised expr text, polarity)] holding at stmt"""
    out = []
    for e, p in cfg.conditions(stmt):
        for a, q in flatten_and(e, p):
            out.append((' '.join(ast.unparse(a).split()), q, a))
    return out
