"""Write /verif/seeded/INDEX.md from the meta.json files (one row per seeded change)."""
import json, os, glob
HERE = os.path.dirname(os.path.abspath(__file__))
root = os.path.join(os.path.dirname(HERE), 'seeded')
rows = []
for mf in sorted(glob.glob(os.path.join(root, '*', 'meta.json'))):
    m = json.load(open(mf))
    det = m['detection']
    by = '; '.join('%s: %s' % (p, ', '.join(r)) for p, r in sorted(det['reported_by'].items()))
    inc = ', '.join(sorted(det.get('analysis_incomplete', {})))
    rows.append((m['id'], m['property'], (m.get('summary') or '').replace('|', '/').replace('\n', ' ')[:230], (m.get('needs') or '').replace('|', '/').replace('\n', ' ')[:200], det['status'] + ('' if m.get('first_evaluation', {}).get('status', 'caught') == 'caught' else ' (first evaluation: %s)' % m['first_evaluation']['status']), by, inc))
with open(os.path.join(root, 'INDEX.md'), 'w') as fh:
    fh.write('# Seeded changes (written by independent sub-agents from the property text only; each confirmed in a scratch worktree)\n\n')
    fh.write('%d changes; caught: %d, analysis-incomplete only (exit 2): %d, missed: %d\n\n' % (len(rows), sum(r[4].startswith('caught') for r in rows), sum(r[4].startswith('incomplete') for r in rows), sum(r[4].startswith('missed') for r in rows)))
    fh.write('| id | property | change | needs | status | reported by (check: rules) | other checks exit 2 |\n|---|---|---|---|---|---|---|\n')
    for r in rows:
        fh.write('| %s |\n' % ' | '.join(r))
print(len(rows), 'rows')
