"""Rules over Tensor.backward and the gradient-buffer discipline (C03, C04, C17, parts of C07/C10/C11)."""
import ast
import itertools
import networkx as nx
from .core import norm, dotted, names_in, body_walk, AnalysisError, inline_expr
from .cfg import CFG, facts_at, flatten_and
from .report import Incomplete

TENSOR = 'synapgrad.tensor.Tensor'


def _loc(f, node):
    return '%s:%d' % (f.mod.relpath, getattr(node, 'lineno', f.node.lineno))


def eval_bool(e, val, depth=0):
    if isinstance(e, ast.BoolOp):
        vs = [eval_bool(v, val, depth) for v in e.values]
        return all(vs) if isinstance(e.op, ast.And) else any(vs)
    if isinstance(e, ast.UnaryOp) and isinstance(e.op, ast.Not):
        return not eval_bool(e.operand, val, depth)
    if isinstance(e, ast.Constant) and isinstance(e.value, bool):
        return e.value
    if isinstance(e, ast.IfExp):
        return eval_bool(e.body, val, depth) if eval_bool(e.test, val, depth) else eval_bool(e.orelse, val, depth)
    try:
        return val(norm(e))
    except Incomplete:
        # a local flag computed from known atoms: inline its single binding
        res = getattr(val, 'resolver', None)
        if isinstance(e, ast.Name) and res is not None and depth < 6:
            b = res(e.id)
            if b is not None:
                return eval_bool(b, val, depth + 1)
        fnode = getattr(val, 'fnode', None)
        if isinstance(e, ast.Name) and fnode is not None and depth < 6:
            from .core import single_bindings
            b = single_bindings(fnode).get(e.id)
            if b is not None:
                return eval_bool(b, val, depth + 1)
        raise


def single_binding_resolver(fnode):
    """name -> value expression for locals of fnode that are bound by exactly one plain assignment (not in a loop header)"""
    binds = {}
    for n in ast.walk(fnode):
        if isinstance(n, ast.Assign) and len(n.targets) == 1 and isinstance(n.targets[0], ast.Name):
            binds.setdefault(n.targets[0].id, []).append(n.value)
        elif isinstance(n, (ast.AugAssign, ast.For, ast.comprehension)):
            t = n.target
            for x in ast.walk(t):
                if isinstance(x, ast.Name):
                    binds.setdefault(x.id, []).extend([None, None])
    return lambda name: binds[name][0] if name in binds and len(binds[name]) == 1 else None


def executes_when(cfg, stmt, val):
    """does stmt execute under the valuation (conjunction of all path conditions)"""
    for e, pol in cfg.conditions(stmt):
        if eval_bool(e, val) != pol:
            return False
    return True


def canon_atom(text):
    """(canonical text, polarity) of a comparison atom: every order comparison becomes `l <= r` or its negation, `!=` / `is not` / `not in`
    become negated `==` / `is` / `in`, operands of `==` are sorted.   a > b -> (a <= b, False) ; a < b -> (b <= a, False) ; a >= b -> (b <= a, True)"""
    try:
        e = ast.parse(text, mode='eval').body
    except SyntaxError:
        return text, True
    if isinstance(e, ast.Compare) and len(e.ops) == 1:
        l, r, op = norm(e.left), norm(e.comparators[0]), e.ops[0]
        if isinstance(op, ast.LtE): return '%s <= %s' % (l, r), True
        if isinstance(op, ast.Gt): return '%s <= %s' % (l, r), False
        if isinstance(op, ast.Lt): return '%s <= %s' % (r, l), False
        if isinstance(op, ast.GtE): return '%s <= %s' % (r, l), True
        if isinstance(op, (ast.Eq, ast.NotEq)):
            a, b = sorted((l, r))
            return '%s == %s' % (a, b), isinstance(op, ast.Eq)
        if isinstance(op, (ast.Is, ast.IsNot)): return '%s is %s' % (l, r), isinstance(op, ast.Is)
        if isinstance(op, (ast.In, ast.NotIn)): return '%s in %s' % (l, r), isinstance(op, ast.In)
    return text, True


def atom_valuation(mapping, assignment, resolver=None, fnode=None):
    """mapping: normalised text -> (atom, polarity); assignment: atom -> bool.  Comparison atoms are matched up to canon_atom(), and - when the function
    node is given - up to the replacement of single-binding temporaries by their definitions (`n = a.shape[d]` ; `size > n`  ==  `size > a.shape[d]`)."""
    def expand(text):
        if fnode is None:
            return None
        try:
            from .core import inline_expr
            return norm(inline_expr(fnode, ast.parse(text, mode='eval').body))
        except (SyntaxError, RecursionError):
            return None
    cmap = {}
    for k, (a, pol) in mapping.items():
        for kk in (k, expand(k)):
            if kk is None:
                continue
            ck, cp = canon_atom(kk)
            cmap.setdefault(ck, (a, pol == cp))

    def val(text):
        if text in mapping:
            a, pol = mapping[text]
            return assignment[a] if pol else not assignment[a]
        for t in (text, expand(text)):
            if t is None:
                continue
            ck, cp = canon_atom(t)
            if ck in cmap:
                a, pol = cmap[ck]
                return assignment[a] if (pol == cp) else not assignment[a]
        raise Incomplete('condition atom `%s` is not understood by this rule' % text)
    val.resolver = resolver
    val.fnode = fnode
    return val


def raise_sites(f, cfg):
    """[(Raise stmt, own conditions, sibling conditions)]: the function raises at that site iff its own conditions (tests of the enclosing ifs, with
    polarity) hold, given that the earlier guards of the enclosing blocks let execution pass (sibling conditions)"""
    from .core import inline_expr
    out = []
    for n in body_walk(f.node):
        if isinstance(n, ast.Raise):
            own_ids = set()
            cur = n
            while True:
                p = cfg.parent.get(id(cur))
                if p is None or p[0] is None:
                    break
                if isinstance(p[0], ast.If):
                    # the else-branch of an if whose body ends in raise / return is "after another guard", like an earlier sibling guard
                    from .cfg import _terminates
                    if not (p[1] == 'orelse' and _terminates(p[0].body)):
                        own_ids.add(id(p[0].test))
                cur = p[0]
            own, sib = [], []
            for e, pol in cfg.conditions(n):
                (own if id(e) in own_ids else sib).append((e, inline_expr(f.node, e), pol))
            out.append((n, own, sib))
    return out


def raises_when(sites, val):
    """does some raise site fire under the valuation?  A site whose OWN conditions mention atoms the valuation does not know is another guard: skipped;
    earlier sibling guards over unknown atoms are assumed to pass.   -> (raises, sites that fire)"""
    def ev(e, e2):
        try:
            return eval_bool(e, val)
        except Incomplete:
            return eval_bool(e2, val)
    fired = []
    for st, own, sib in sites:
        try:
            res = all(ev(e, e2) == pol for e, e2, pol in own)
        except Incomplete:
            continue
        if not res:
            continue
        ok, known = True, len(own)
        for e, e2, pol in sib:
            try:
                if ev(e, e2) != pol:
                    ok = False
                known += 1
            except Incomplete:
                pass
        if ok and known:
            fired.append(st)
    return bool(fired), fired


def guard_table(f, cfg, mapping, spec, effects):
    """the function raises in exactly the cases `spec` says, over all valuations of the atoms of `mapping`, and in those cases no protected effect is
    reached: either a firing raise site precedes (dominates) the effect, or the effect's own path conditions exclude the case.
    Works for merged, split, nested and inverted (`if ok: effect / else: raise`, `if ok: return value` + trailing raise) spellings alike."""
    import itertools as _it
    from .core import inline_expr
    atoms = sorted({a for a, _ in mapping.values()})
    sites = raise_sites(f, cfg)

    def top_of(st):
        top = st
        while True:
            p = cfg.parent.get(id(top))
            if p is None or p[0] is None:
                return top
            top = p[0]
    for vals in _it.product((False, True), repeat=len(atoms)):
        asg = dict(zip(atoms, vals))
        val = atom_valuation(mapping, asg, fnode=f.node)
        got, fired = raises_when(sites, val)
        if got != bool(spec(asg)):
            return False, 'for %s the function %s' % (asg, 'raises' if got else 'does not raise')
        if not got:
            continue
        tops = [top_of(st) for st in fired]
        for e in effects:
            if any(cfg.dominates(t, e) and not any(x is e for x in ast.walk(t)) for t in tops):
                continue
            # not dominated by a firing guard: the effect's own path conditions must exclude this valuation
            excluded = False
            for c, pol in cfg.conditions(e):
                for variant in (c, inline_expr(f.node, c)):
                    try:
                        if eval_bool(variant, val) != pol:
                            excluded = True
                        break
                    except Incomplete:
                        continue
            if not excluded:
                return False, 'for %s the protected effect (%s) is reachable although the call must be rejected' % (asg, norm(e)[:60])
    return True, ''


class BackwardInfo:
    """structure of Tensor.backward extracted once"""
    def __init__(self, model):
        self.model = model
        self.f = model.func(TENSOR + '.backward')
        self.cfg = CFG(self.f.node)
        self.selfname = self.f.pos_params[0]
        fn = self.f.node
        # sweep loop: a For whose body calls <x>.grad_fn() / ._grad_fn()
        self.sweeps = []
        for n in ast.walk(fn):
            if isinstance(n, ast.For):
                calls = [c for s in n.body for c in ast.walk(s) if isinstance(c, ast.Call) and isinstance(c.func, ast.Attribute)
                         and c.func.attr in ('grad_fn', '_grad_fn')]
                if calls:
                    self.sweeps.append((n, calls))
        if len(self.sweeps) != 1:
            raise Incomplete('expected exactly one sweep loop calling grad_fn() in Tensor.backward, found %d' % len(self.sweeps))
        self.sweep, self.fn_calls = self.sweeps[0]
        # the order list: iterated (reversed) by the sweep
        it = self.sweep.iter
        if isinstance(it, ast.Call) and dotted(it.func) == 'enumerate' and it.args:
            it = it.args[0]
        self.sweep_iter = it
        self.reversed_ok = False
        self.order = None
        if isinstance(it, ast.Call) and dotted(it.func) == 'reversed' and len(it.args) == 1 and isinstance(it.args[0], ast.Name):
            self.order, self.reversed_ok = it.args[0].id, True
        elif isinstance(it, ast.Subscript) and isinstance(it.value, ast.Name) and norm(it.slice) == '::-1':
            self.order, self.reversed_ok = it.value.id, True
        elif isinstance(it, ast.Name):
            self.order = it.id
            # order.reverse() dominating the sweep
            for n in body_walk(fn):
                if isinstance(n, ast.Expr) and isinstance(n.value, ast.Call) and norm(n.value) == '%s.reverse()' % it.id and self.cfg.dominates(n, self.sweep):
                    self.reversed_ok = True
        if self.order is None:
            raise Incomplete('sweep does not iterate a named order list: %s' % norm(self.sweep.iter))
        # node variable of the sweep
        t = self.sweep.target
        if isinstance(t, ast.Tuple):
            t = t.elts[-1]
        self.sweep_var = t.id if isinstance(t, ast.Name) else None
        # append sites of the order list (anywhere in backward incl. nested defs)
        self.appends = []
        for n in ast.walk(fn):
            if isinstance(n, ast.Call) and isinstance(n.func, ast.Attribute) and n.func.attr in ('append', 'insert', 'extend', 'appendleft') \
                    and isinstance(n.func.value, ast.Name) and n.func.value.id == self.order:
                self.appends.append(n)


def _containing_def(fn, node):
    """innermost FunctionDef inside fn that contains node (or fn)"""
    best = fn
    for d in ast.walk(fn):
        if isinstance(d, ast.FunctionDef) and d is not fn and any(x is node for x in ast.walk(d)):
            if any(x is d for x in ast.walk(best)):
                best = d
    return best


def _stmt_in(fnode, node):
    for s in ast.walk(fnode):
        if isinstance(s, ast.stmt) and not isinstance(s, (ast.If, ast.For, ast.While, ast.With, ast.Try, ast.FunctionDef)):
            if any(n is node for n in ast.walk(s)):
                return s
    return None


def check_topo(model, R, P, B=None):
    B = B or BackwardInfo(model)
    f = B.f
    R.rule(P + '.TOPO', 'backward sweeps a topological order: post-order DFS (recursive or explicit two-phase stack) over _children with a '
                        'visited test-and-mark, swept in reverse', floor=4)
    R.ob(P + '.TOPO', f.qualname, 'sweep over %s' % norm(B.sweep.iter), B.reversed_ok,
         'the sweep must run over the REVERSED post-order list (consumers before producers)', _loc(f, B.sweep))
    if len(B.appends) != 1:
        R.incomplete_at(P + '.TOPO', f.qualname, 'expected one append site for the order list, found %d' % len(B.appends))
        return B
    ap = B.appends[0]
    R.ob(P + '.TOPO', f.qualname, norm(ap), ap.func.attr == 'append', 'the order list must be built by append (post-order)', _loc(f, ap))
    d = _containing_def(f.node, ap)
    ap_stmt = _stmt_in(d, ap)
    cfg = CFG(d)
    if d is not f.node and any(isinstance(c, ast.Call) and isinstance(c.func, ast.Name) and c.func.id == d.name for c in ast.walk(d)):
        _check_recursive(model, R, P, B, d, cfg, ap, ap_stmt)
    else:
        loops = [l for l in cfg.in_loop(ap_stmt) if isinstance(l, ast.While)]
        if not loops:
            R.incomplete_at(P + '.TOPO', f.qualname, 'order list is neither built by a recursive visitor nor inside a `while <stack>` loop')
            return B
        _check_iterative(model, R, P, B, d, cfg, ap, ap_stmt, loops[-1])
    return B


def _children_loops(d, fnode=None):
    out = []
    # temporaries bound inside the traversal (children = node._children): a name bound once in d to an attribute expression
    tmp = {}
    for n in ast.walk(d):
        if isinstance(n, ast.Assign) and len(n.targets) == 1 and isinstance(n.targets[0], ast.Name):
            tmp.setdefault(n.targets[0].id, []).append(n.value)
    for n in ast.walk(d):
        if isinstance(n, ast.For):
            it = n.iter
            if isinstance(it, ast.Call) and dotted(it.func) in ('reversed', 'list', 'tuple') and it.args:
                it = it.args[0]
            if isinstance(it, ast.Name) and len(tmp.get(it.id, [])) == 1:
                it = tmp[it.id][0]
                if isinstance(it, ast.Call) and dotted(it.func) in ('reversed', 'list', 'tuple') and it.args:
                    it = it.args[0]
            if isinstance(it, ast.Attribute) and it.attr == '_children':
                out.append((n, it.value))
    return out


def _visited_facts(cfg, stmt):
    """[(container name, node expr text)] for facts `X not in V` holding at stmt"""
    out = []
    for t, p, e in facts_at(cfg, stmt):
        if isinstance(e, ast.Compare) and len(e.ops) == 1 and isinstance(e.comparators[0], ast.Name):
            if (isinstance(e.ops[0], ast.NotIn) and p) or (isinstance(e.ops[0], ast.In) and not p):
                out.append((e.comparators[0].id, norm(e.left)))
    return out


def _check_recursive(model, R, P, B, d, cfg, ap, ap_stmt):
    f = B.f
    nodevar = d.args.args[0].arg if d.args.args else None
    loops = _children_loops(d)
    ok_children = len(loops) == 1 and isinstance(loops[0][1], ast.Name) and loops[0][1].id == nodevar
    R.ob(P + '.TOPO', f.qualname, 'recursive visitor over %s._children' % nodevar, ok_children, 'the visitor must recurse over the _children of the node it was called with', _loc(f, d))
    if not ok_children:
        return
    loop = loops[0][0]
    rec = [c for c in ast.walk(loop) if isinstance(c, ast.Call) and isinstance(c.func, ast.Name) and c.func.id == d.name]
    R.ob(P + '.TOPO', f.qualname, 'post-order: %s after the children loop' % norm(ap), bool(rec) and norm(ap.args[0]) == nodevar and cfg.dominates(loop, ap_stmt)
         and not any(x is ap for x in ast.walk(loop)), 'a node must be appended only after all of its children were visited (append after the loop, not before / inside)', _loc(f, ap))
    vf = _visited_facts(cfg, loop)
    marks = [n for n in body_walk(d) if isinstance(n, ast.Expr) and isinstance(n.value, ast.Call) and isinstance(n.value.func, ast.Attribute)
             and n.value.func.attr == 'add' and norm(n.value.args[0]) == nodevar]
    ok = bool(vf) and any(v[1] == nodevar for v in vf) and any(cfg.dominates(m, loop) and isinstance(m.value.func.value, ast.Name) and m.value.func.value.id in [v[0] for v in vf] for m in marks)
    R.ob(P + '.TOPO', f.qualname, 'visited test-and-mark', ok, 'expansion of a node must be guarded by `node not in visited` and marked before recursing', _loc(f, d))
    # same guard protects the append (each node once in the order list)
    R.ob(P + '.TOPO', f.qualname, 'append guarded by the visited test', any(v[1] == nodevar for v in _visited_facts(cfg, ap_stmt)),
         'the order list must hold each node once: append under the same visited test', _loc(f, ap))


def _check_iterative(model, R, P, B, d, cfg, ap, ap_stmt, wl):
    f = B.f
    # stack variable: the while test
    stack = wl.test.id if isinstance(wl.test, ast.Name) else None
    if stack is None:
        # `while len(stack) > 0` / `while len(stack)` / `while stack != []` / `while not not stack`
        stack = next((n.id for n in ast.walk(wl.test) if isinstance(n, ast.Name) and n.id not in ('len', 'bool')), None)
    pops = [n for n in body_walk(wl) if isinstance(n, ast.Assign) and isinstance(n.value, ast.Call) and isinstance(n.value.func, ast.Attribute)
            and n.value.func.attr == 'pop' and norm(n.value.func.value) == stack and isinstance(n.targets[0], ast.Tuple) and len(n.targets[0].elts) == 2]
    if len(pops) != 1:
        R.incomplete_at(P + '.TOPO', f.qualname, 'iterative traversal without a single `node, flag = stack.pop()`')
        return
    nodevar, flag = norm(pops[0].targets[0].elts[0]), norm(pops[0].targets[0].elts[1])
    # append only in the expanded phase
    fs = {(t, p) for t, p, _ in facts_at(cfg, ap_stmt)}
    R.ob(P + '.TOPO', f.qualname, 'post-order: %s only in the expanded phase' % norm(ap), (flag, True) in fs and norm(ap.args[0]) == nodevar,
         'a node must be appended only when it is popped the second time (after its children), i.e. under `if %s`' % flag, _loc(f, ap))
    loops = [(l, v) for l, v in _children_loops(wl) if norm(v) == nodevar]
    R.ob(P + '.TOPO', f.qualname, 'children loop over %s._children' % nodevar, len(loops) == 1, 'the traversal must push the _children of the popped node', _loc(f, wl))
    if len(loops) != 1:
        return
    loop = loops[0][0]
    lf = {(t, p) for t, p, _ in facts_at(cfg, loop)}
    vf = _visited_facts(cfg, loop)
    marks = [n for n in body_walk(wl) if isinstance(n, ast.Expr) and isinstance(n.value, ast.Call) and isinstance(n.value.func, ast.Attribute)
             and n.value.func.attr == 'add' and n.value.args and norm(n.value.args[0]) == nodevar]
    ok = (flag, False) in lf and any(v[1] == nodevar for v in vf) and any(cfg.dominates(m, loop) for m in marks)
    R.ob(P + '.TOPO', f.qualname, 'visited test-and-mark', ok, 'children are pushed only for a node seen for the first time (`%s not in visited`, marked before pushing)' % nodevar, _loc(f, loop))
    # re-push (node, True) BEFORE the children pushes, children pushed with False
    pushes = [n for n in body_walk(wl) if isinstance(n, ast.Expr) and isinstance(n.value, ast.Call) and isinstance(n.value.func, ast.Attribute)
              and n.value.func.attr == 'append' and norm(n.value.func.value) == stack and n.value.args and isinstance(n.value.args[0], ast.Tuple) and len(n.value.args[0].elts) == 2]
    self_push = [p for p in pushes if norm(p.value.args[0].elts[0]) == nodevar and norm(p.value.args[0].elts[1]) == 'True']
    child_var = norm(loop.target)
    child_push = [p for p in pushes if norm(p.value.args[0].elts[0]) == child_var]
    ok = len(self_push) == 1 and cfg.dominates(self_push[0], loop) and not any(x is self_push[0] for x in ast.walk(loop)) \
        and len(child_push) == 1 and norm(child_push[0].value.args[0].elts[1]) == 'False' and any(x is child_push[0] for x in ast.walk(loop)) \
        and not cfg.conditions(child_push[0])[:0] and _unconditional_in(loop, child_push[0])
    R.ob(P + '.TOPO', f.qualname, 'two-phase push: (%s, True) before the children, children with False' % nodevar, ok,
         'LIFO post-order needs the node re-pushed (expanded=True) before all of its children are pushed (expanded=False), every child pushed unconditionally', _loc(f, loop))
    # initial stack content is the root
    init = [n for n in body_walk(d) if isinstance(n, ast.Assign) and isinstance(n.targets[0], ast.Name) and n.targets[0].id == stack]
    ok = len(init) == 1 and norm(init[0].value) in ('[(%s, False)]' % B.selfname,)
    R.ob(P + '.TOPO', f.qualname, 'traversal starts from the root: %s' % (norm(init[0].value) if init else None), ok, 'the stack must start with (self, False)', _loc(f, wl))


def _unconditional_in(loop, stmt):
    return any(s is stmt for s in loop.body)


# ------------------------------------------------------------------------------------------------ ONCE / IDENTITY / INIT / CONSUME
def check_once(model, R, P, B):
    f = B.f
    R.rule(P + '.ONCE', 'grad_fn() is invoked at exactly one call site of the package - directly in the body of the sweep loop - and BackwardFunction.__call__ '
                        'calls the wrapped closure exactly once on every path', floor=2)
    sites = []
    for fn in model.live_funcs():
        if fn.parent is not None:
            continue
        for c in ast.walk(fn.node):
            if isinstance(c, ast.Call) and isinstance(c.func, ast.Attribute) and c.func.attr in ('grad_fn', '_grad_fn'):
                sites.append((fn, c))
    for fn, c in sites:
        ok = fn is f and any(x is c for x in ast.walk(B.sweep))
        R.ob(P + '.ONCE', fn.qualname, norm(c), ok, 'backward functions may only be invoked by the sweep loop of Tensor.backward', _loc(fn, c))
    in_sweep = [c for fn, c in sites if fn is f and any(x is c for x in ast.walk(B.sweep))]
    ok = len(in_sweep) == 1
    if ok:
        st = _stmt_in(f.node, in_sweep[0])
        inner = [l for l in B.cfg.in_loop(st) if l is not B.sweep]
        recv = in_sweep[0].func.value
        ok = not inner and isinstance(recv, ast.Name) and recv.id == B.sweep_var
        # only guard allowed: `<node>.grad_fn is not None`
        conds = [(t, p) for t, p, _ in facts_at(B.cfg, st) if B.sweep_var and B.sweep_var in t]
        ok = ok and all(('grad_fn' in t) for t, p in conds)
    R.ob(P + '.ONCE', f.qualname, 'one grad_fn() call per sweep iteration', ok,
         'each node of the order list gets its backward function called once: one call site, on the loop variable, not in an inner loop', _loc(f, B.sweep))
    bf = model.func('synapgrad.functional.BackwardFunction.__call__')
    # every path through __call__ (stored args / kwargs empty or not) invokes the stored closure exactly once and hands the stored arguments over
    from .peval import PE
    bad = []
    n_paths = 0
    try:
        outs = PE(model, atoms_not_none=True).paths(bf, {}, max_paths=32)
    except Incomplete as u:
        R.incomplete_at(P + '.ONCE', bf.qualname, str(u))
        outs = None
    if outs is not None:
        for o in outs:
            n_paths += 1
            if o.kind == 'raise':
                bad.append('a path raises: %s' % (o.value,))
                continue
            calls = [c for c in o.calls if c[0] in ('self.backward', 'self._backward')]
            if len(calls) != 1:
                bad.append('%d invocations of the closure under %s' % (len(calls), o.conds))
                continue
            node = calls[0][3]
            star = [norm(a.value) for a in node.args if isinstance(a, ast.Starred)]
            dstar = [norm(k.value) for k in node.keywords if k.arg is None]
            has_args = [v for t, v in o.conds if 'args' in t and 'kwargs' not in t]
            has_kw = [v for t, v in o.conds if 'kwargs' in t]
            if (has_args and has_args[-1] and not star) or (has_kw and has_kw[-1] and not dstar):
                bad.append('stored arguments not handed over under %s: %s' % (o.conds, norm(node)))
            if [a for a in node.args if not isinstance(a, ast.Starred)] or [k for k in node.keywords if k.arg is not None]:
                bad.append('extra arguments: %s' % norm(node))
    R.ob(P + '.ONCE', bf.qualname, '%d paths each invoking the stored closure once with the stored args / kwargs' % n_paths, outs is not None and not bad and n_paths > 0,
         'BackwardFunction.__call__ must invoke the closure exactly once whatever the stored args/kwargs: %s' % bad[:2], bf.loc)


def check_identity(model, R, P):
    R.rule(P + '.IDENTITY', 'Tensor and its subclasses are hashed / compared by identity (no __eq__ / __hash__), so the visited set keys nodes by identity', floor=1)
    t = model.cls(TENSOR)
    for c in [t] + model.subclasses(TENSOR):
        bad = [m for m in ('__eq__', '__hash__', '__ne__') if m in c.methods]
        R.ob(P + '.IDENTITY', c.qualname, 'no __eq__/__hash__', not bad, 'defines %s: two distinct tensors with equal data would be merged by the visited set' % bad, c.loc)


def check_init_before_sweep(model, R, P, B):
    f = B.f
    R.rule(P + '.INIT-BEFORE-SWEEP', 'every reachable operand that requires grad gets its buffer inside the traversal, which (like the root seed) dominates the sweep', floor=2)
    zeros = [n for n in ast.walk(f.node) if isinstance(n, ast.Call) and isinstance(n.func, ast.Attribute) and n.func.attr == 'zero_']
    ok = bool(zeros)
    for z in zeros:
        st = _stmt_in(f.node, z)
        top = _top_stmt(f.node, st)
        ok = ok and st is not None and B.cfg.dominates(top, B.sweep) and top is not B.sweep and not any(x is z for x in ast.walk(B.sweep))
    R.ob(P + '.INIT-BEFORE-SWEEP', f.qualname, 'buffer creation (%d zero_ site(s)) precedes the sweep' % len(zeros), ok,
         'gradient buffers of operands must exist before the first grad_fn runs', _loc(f, B.sweep))
    seeds = [n for n in body_walk(f.node) if isinstance(n, (ast.Assign, ast.AugAssign)) and _is_self_grad_store(n, B.selfname)]
    ok = bool(seeds) and all(B.cfg.dominates(_top_stmt(f.node, s), B.sweep) and not any(x is s for x in ast.walk(B.sweep)) for s in seeds)
    R.ob(P + '.INIT-BEFORE-SWEEP', f.qualname, 'root seed (%d statement(s)) precedes the sweep' % len(seeds), ok, 'the root gradient must be installed before the sweep', _loc(f, B.sweep))
    return zeros, seeds


def _is_self_grad_store(n, selfname):
    tgts = [n.target] if isinstance(n, ast.AugAssign) else n.targets
    return any(isinstance(t, ast.Attribute) and t.attr in ('_grad', 'grad') and isinstance(t.value, ast.Name) and t.value.id == selfname for t in tgts)


def _top_stmt(fnode, st):
    """the statement of fnode.body (top level) that contains st"""
    for s in fnode.body:
        if any(x is st for x in ast.walk(s)):
            return s
    return st


def release_stmts(B):
    out = []
    v = B.sweep_var
    for n in ast.walk(B.sweep):
        if isinstance(n, ast.Assign) and any(isinstance(t, ast.Attribute) and t.attr == '_grad' and norm(t.value) == v for t in n.targets) \
                and isinstance(n.value, ast.Constant) and n.value.value is None:
            out.append(n)
        if isinstance(n, ast.Delete) and any(isinstance(t, ast.Attribute) and t.attr == '_grad' and norm(t.value) == v for t in n.targets):
            out.append(n)
    return out


def check_consume_release(model, R, P, B):
    f = B.f
    R.rule(P + '.CONSUME-BEFORE-RELEASE', 'a node\'s gradient buffer is released only after that node\'s grad_fn() ran in the same sweep iteration', floor=1)
    rel = release_stmts(B)
    call_st = _stmt_in(f.node, B.fn_calls[0])
    call_top = next((s for s in B.sweep.body if any(x is call_st for x in ast.walk(s))), None)
    for r in rel:
        r_top = next((s for s in B.sweep.body if any(x is r for x in ast.walk(s))), None)
        ok = call_top is not None and r_top is not None and B.sweep.body.index(call_top) < B.sweep.body.index(r_top)
        R.ob(P + '.CONSUME-BEFORE-RELEASE', f.qualname, norm(r), ok, 'releasing before the backward function consumed the buffer loses the gradient', _loc(f, r))
    if not rel:
        R.note('no release statement in the sweep (intermediate gradients are kept)')
    return rel


def _inside(B, stmt):
    """path conditions of stmt that arise inside the sweep loop (guards before the loop do not vary per node)"""
    out = []
    inner = {id(x) for x in ast.walk(B.sweep)}
    for e, p in B.cfg.conditions(stmt):
        if id(e) in inner:
            out.append((e, p))
    return out


def check_release_predicate(model, R, P, B):
    f = B.f
    R.rule(P + '.RELEASE', 'a buffer is released iff the node is not the root, not a leaf, not marked retain_grad and the global retain flag is off (truth table over 16 valuations)', floor=1)
    rel = release_stmts(B)
    v, s = B.sweep_var, B.selfname
    # leafness is not an atom: Tensor.is_leaf is `not requires_grad or grad_fn is None` (checked below); the nodes of a sweep are constants (R=0, F=1), trainable leaves
    # (R=1, F=1) and results of operations (R=1, F=0) - a tensor that does not require grad cannot carry a grad_fn (C07.GUARDS)
    mapping = {'%s is not %s' % (v, s): ('S', False), '%s is %s' % (v, s): ('S', True), '%s != %s' % (v, s): ('S', False),
               '%s.is_leaf' % v: ('L', True), '%s._retain_grad' % v: ('K', True), 'retain_grads__': ('G', True),
               '%s.requires_grad' % v: ('R', True), '%s._requires_grad' % v: ('R', True),
               '%s.grad_fn is not None' % v: ('F', False), '%s.grad_fn is None' % v: ('F', True), '%s._grad_fn is None' % v: ('F', True), '%s._grad_fn is not None' % v: ('F', False)}
    try:
        from .peval import PE
        lf = model.func(TENSOR + '.is_leaf')
        leaf_ok = True
        for Rv in (False, True):
            for Fv in (False, True):
                def dp(t, Rv=Rv, Fv=Fv):
                    ck, cp = canon_atom(t)
                    if ck in ('self.requires_grad', 'self._requires_grad'):
                        return Rv if cp else not Rv
                    if ck in ('self.grad_fn is None', 'self._grad_fn is None'):
                        return Fv if cp else not Fv
                    return None
                outs = PE(model, default_pred=dp, atoms_not_none=False).paths(lf, {}, max_paths=16)
                if len(outs) != 1 or outs[0].kind != 'return' or outs[0].value is not ((not Rv) or Fv):
                    leaf_ok = False
    except (Incomplete, AnalysisError):
        leaf_ok = False
    R.ob(P + '.RELEASE', TENSOR + '.is_leaf', 'is_leaf = not requires_grad or grad_fn is None', leaf_ok, 'the release predicate and the buffer discipline are stated in terms of this definition of a leaf', f.loc)
    stores = [r for r in rel if isinstance(r, ast.Assign)]
    if not stores:
        R.ob(P + '.RELEASE', f.qualname, 'release statement', False, 'intermediate gradients are never released (node._grad = None missing in the sweep)', _loc(f, B.sweep))
        return
    for r in stores:
        bad = []
        try:
            for S, (Rq, Fn), K, G in itertools.product((False, True), ((False, True), (True, True), (True, False)), (False, True), (False, True)):
                L = (not Rq) or Fn
                val = atom_valuation(mapping, dict(S=S, L=L, K=K, G=G, R=Rq, F=Fn), fnode=f.node)
                got = all(eval_bool(e, val) == p for e, p in _inside(B, r))
                want = (not S) and (not L) and (not K) and (not G)
                if got != want:
                    bad.append(dict(root=S, requires_grad=Rq, has_grad_fn=not Fn, retain_grad=K, retain_grads=G, released=got))
        except Incomplete as e:
            R.incomplete_at(P + '.RELEASE', f.qualname, str(e))
            continue
        R.ob(P + '.RELEASE', f.qualname, norm(r) + ' under ' + ' and '.join(('%s' if p else 'not (%s)') % norm(e) for e, p in _inside(B, r))[:200],
             not bad, 'release predicate differs from `not root and not leaf and not retain_grad and not retain_grads__` for %s' % bad[:3], _loc(f, r))
    # nothing else clears/replaces a buffer during the sweep
    other = []
    for n in ast.walk(B.sweep):
        if isinstance(n, (ast.Assign, ast.AugAssign)):
            tg = [n.target] if isinstance(n, ast.AugAssign) else n.targets
            for t in tg:
                if isinstance(t, ast.Attribute) and t.attr in ('_grad', 'grad') and n not in rel:
                    other.append(n)
        if isinstance(n, ast.Call) and isinstance(n.func, ast.Attribute) and n.func.attr in ('zero_',):
            other.append(n)
    R.ob(P + '.RELEASE', f.qualname, 'no other buffer write in the sweep (%d)' % len(other), not other, 'the sweep may only release buffers: %s' % [norm(o) for o in other], _loc(f, B.sweep))


# ------------------------------------------------------------------------------------------------ C04 buffer discipline
def check_buffer_discipline(model, R, P, B):
    f = B.f
    R.rule(P + '.LEAF-ACCUMULATE', 'leaf buffers are created only when absent and otherwise accumulated into, including when the leaf is the root of the call (truth tables)', floor=2)
    R.rule(P + '.NONLEAF-RESET', 'a non-leaf buffer reached by the traversal is reset on every sweep, whatever an earlier call left there (truth table)', floor=1)
    zeros = [n for n in ast.walk(f.node) if isinstance(n, ast.Call) and isinstance(n.func, ast.Attribute) and n.func.attr == 'zero_'
             and not any(x is n for x in ast.walk(B.sweep))]
    if len(zeros) != 1:
        R.incomplete_at(P + '.LEAF-ACCUMULATE', f.qualname, 'expected one zero_() site in the traversal, found %d' % len(zeros))
        return
    z = zeros[0]
    c = norm(z.func.value)
    d = _containing_def(f.node, z)
    cfg = CFG(d) if d is not f.node else B.cfg
    st = _stmt_in(d, z)
    mapping = {'%s.requires_grad' % c: ('R', True), '%s._grad is None' % c: ('N', True), '%s._grad is not None' % c: ('N', False),
               '%s.is_leaf' % c: ('L', True), '%s.has_grad()' % c: ('N', False), '%s.grad_fn is None' % c: ('L', True), '%s.grad_fn is not None' % c: ('L', False),
               '%s._retain_grad' % c: ('K', True), 'retain_grads__': ('G', True)}
    resolver = single_binding_resolver(d)
    # ignore traversal-structure conditions (visited test, expanded flag, while stack)
    def relevant(e, depth=0):
        if c in names_in(e) or any(c == norm(n) for n in ast.walk(e) if isinstance(n, ast.Attribute)):
            return True
        if depth < 4:
            for n in ast.walk(e):
                if isinstance(n, ast.Name):
                    b = resolver(n.id)
                    if b is not None and relevant(b, depth + 1):
                        return True
        return False
    conds = [(e, p) for e, p in cfg.conditions(st) if relevant(e)]
    bad_leaf, bad_nonleaf = [], []
    try:
        for Rq, N, L, K, G in itertools.product((False, True), repeat=5):
            val = atom_valuation(mapping, dict(R=Rq, N=N, L=L, K=K, G=G), resolver)
            got = all(eval_bool(e, val) == p for e, p in conds)
            want = Rq and (N or not L)
            if got != want:
                (bad_leaf if L else bad_nonleaf).append(dict(requires_grad=Rq, grad_is_None=N, is_leaf=L, retain_grad=K, retain_grads=G, zeroed=got))
    except Incomplete as e:
        R.incomplete_at(P + '.LEAF-ACCUMULATE', f.qualname, str(e))
        return
    guard = ' and '.join(('%s' if p else 'not (%s)') % norm(e) for e, p in conds)
    R.ob(P + '.LEAF-ACCUMULATE', f.qualname, '%s under [%s]' % (norm(z), guard), not bad_leaf,
         'a leaf that requires grad must be zero-initialised iff it has no buffer yet (otherwise earlier contributions are lost / a frozen leaf gets a buffer): %s' % bad_leaf, _loc(f, z))
    R.ob(P + '.NONLEAF-RESET', f.qualname, '%s under [%s]' % (norm(z), guard), not bad_nonleaf,
         'a non-leaf that requires grad must be reset on every sweep (a stale gradient from an earlier call would be propagated again): %s' % bad_nonleaf, _loc(f, z))
    # ---- root seed
    s = B.selfname
    seeds = [n for n in body_walk(f.node) if isinstance(n, (ast.Assign, ast.AugAssign)) and _is_self_grad_store(n, s) and not any(x is n for x in ast.walk(B.sweep))]
    mapping = {'%s.is_leaf' % s: ('L', True), '%s._grad is not None' % s: ('N', False), '%s._grad is None' % s: ('N', True), '%s.has_grad()' % s: ('N', False),
               '%s.grad_fn is None' % s: ('L', True)}
    def rel2(e):
        t = norm(e)
        return t in mapping or any(norm(x) in mapping for x in ast.walk(e) if isinstance(x, (ast.Compare, ast.Attribute, ast.Call)))
    bad = []
    try:
        for L, N in itertools.product((False, True), repeat=2):
            val = atom_valuation(mapping, dict(L=L, N=N), fnode=f.node)
            acc = asg = 0
            from .core import inline_expr as _inl
            for n in seeds:
                # a flag computed from the atoms (`accumulate = self.is_leaf and self._grad is not None`) is read through its definition
                conds = [(e2, p) for e2, p in ((_inl(f.node, e), p) for e, p in B.cfg.conditions(n)) if rel2(e2)]
                if all(eval_bool(e, val) == p for e, p in conds):
                    if isinstance(n, ast.AugAssign) and isinstance(n.op, ast.Add):
                        acc += 1
                    else:
                        asg += 1
            want_acc = L and not N
            if (acc, asg) != ((1, 0) if want_acc else (0, 1)):
                bad.append(dict(root_is_leaf=L, has_buffer=not N, accumulates=acc, assigns=asg))
    except Incomplete as e:
        R.incomplete_at(P + '.LEAF-ACCUMULATE', f.qualname, str(e))
        return
    R.ob(P + '.LEAF-ACCUMULATE', f.qualname, 'root seed: ' + ' | '.join(norm(n) for n in seeds), not bad,
         'the seed must be ADDED to an existing buffer when the root is a leaf and ASSIGNED otherwise: %s' % bad, _loc(f, seeds[0]) if seeds else f.loc)
    return seeds


FRESH_METHODS = {'astype', 'copy'}
FRESH_NP = {'numpy.array', 'numpy.copy', 'numpy.zeros_like', 'numpy.zeros', 'numpy.ones_like', 'numpy.full_like', 'numpy.ascontiguousarray__no'}


def fresh_expr(model, f, e, depth=0):
    """expression certainly yields storage not shared with any argument (copying call at the root of the def-use chain)"""
    if depth > 4:
        return False
    if isinstance(e, ast.Call):
        if isinstance(e.func, ast.Attribute) and e.func.attr in FRESH_METHODS:
            if e.func.attr == 'astype':
                cp = [k for k in e.keywords if k.arg == 'copy']
                return not cp or (isinstance(cp[0].value, ast.Constant) and cp[0].value.value is True)
            return True
        d = model.resolve(f.mod, e.func)
        if d in FRESH_NP:
            cp = [k for k in e.keywords if k.arg == 'copy']
            return not cp or (isinstance(cp[0].value, ast.Constant) and cp[0].value.value is True)
        return False
    if isinstance(e, ast.BinOp) or isinstance(e, ast.UnaryOp):
        return True         # numpy arithmetic allocates
    if isinstance(e, ast.Name):
        binds = [n for n in body_walk(f.node) if isinstance(n, ast.Assign) and any(isinstance(t, ast.Name) and t.id == e.id for t in n.targets)]
        return len(binds) == 1 and fresh_expr(model, f, binds[0].value, depth + 1)
    return False


def check_seed_owned(model, R, P, B):
    f = B.f
    R.rule(P + '.SEED-OWNED', 'the array installed as (or added to) the root buffer is a fresh copy of the caller\'s gradient, cast to the root dtype, after a shape check', floor=2)
    s = B.selfname
    seeds = [n for n in body_walk(f.node) if isinstance(n, (ast.Assign, ast.AugAssign)) and _is_self_grad_store(n, s) and not any(x is n for x in ast.walk(B.sweep))]
    for n in seeds:
        tgt = (n.target if isinstance(n, ast.AugAssign) else n.targets[0])
        if tgt.attr == 'grad':
            # through the property setter: value must be a Tensor built from a fresh array
            v = n.value
            inner = v.args[0] if isinstance(v, ast.Call) and dotted(v.func) == 'Tensor' and v.args else None
            ok = inner is not None and fresh_expr(model, f, inner)
        else:
            ok = isinstance(n, ast.AugAssign) or fresh_expr(model, f, n.value)
        R.ob(P + '.SEED-OWNED', f.qualname, norm(n), ok, 'the root buffer must own its storage: storing the caller\'s array lets a later sweep accumulate into the caller\'s tensor', _loc(f, n))
        # dtype: the seed value's def-use chain contains .astype(<self dtype>)
        src = n.value
        chain = [src]
        if isinstance(src, ast.Name):
            chain += [b.value for b in body_walk(f.node) if isinstance(b, ast.Assign) and any(isinstance(t, ast.Name) and t.id == src.id for t in b.targets)]
        okd = any(isinstance(c, ast.Call) and isinstance(c.func, ast.Attribute) and c.func.attr == 'astype' and c.args and norm(c.args[0]) in ('%s.dtype' % s, '%s.data.dtype' % s)
                  for e in chain for c in ast.walk(e))
        okd = okd or any(isinstance(k, ast.keyword) and k.arg == 'dtype' and norm(k.value) in ('%s.dtype' % s, '%s.data.dtype' % s) for e in chain for k in ast.walk(e))
        R.ob(P + '.SEED-OWNED', f.qualname, 'dtype of ' + norm(n), okd or isinstance(n, ast.AugAssign), 'the seed must be converted to the root tensor\'s dtype (a float64 seed would leave a float64 buffer on a float32 tensor)', _loc(f, n))
    # shape check dominates the seed
    via_setter = any((n.target if isinstance(n, ast.AugAssign) else n.targets[0]).attr == 'grad' for n in seeds)
    gname = f.pos_params[1] if len(f.pos_params) > 1 else 'grad'
    mapping = {}
    for recv in (s,):
        for a_ in (gname, gname + '.data'):
            mapping['%s.matches_shape(%s)' % (recv, a_)] = ('M', True)
    mapping['%s.shape == %s.shape' % (gname, s)] = ('M', True)
    mapping['%s.shape == %s.shape' % (s, gname)] = ('M', True)
    # the same test on whatever local the (validated) gradient is held in: the checked value must be the one the seed is computed from
    seed_sources = set()
    for n in seeds:
        todo, seen_n = [n.value], set()
        while todo:
            e = todo.pop()
            for x in ast.walk(e):
                if isinstance(x, ast.Name) and x.id not in seen_n:
                    seen_n.add(x.id)
                    todo += [b.value for b in body_walk(f.node) if isinstance(b, ast.Assign) and any(isinstance(t, ast.Name) and t.id == x.id for t in b.targets)]
        seed_sources |= seen_n
    for n in body_walk(f.node):
        if isinstance(n, ast.If):
            for c in ast.walk(n.test):
                if isinstance(c, ast.Call) and isinstance(c.func, ast.Attribute) and c.func.attr == 'matches_shape' and norm(c.func.value) == s and len(c.args) == 1:
                    a0 = c.args[0].value if isinstance(c.args[0], ast.Attribute) and c.args[0].attr == 'data' else c.args[0]
                    if isinstance(a0, ast.Name) and a0.id in seed_sources:
                        mapping[norm(c)] = ('M', True)
                if isinstance(c, ast.Compare) and len(c.ops) == 1 and isinstance(c.ops[0], (ast.Eq, ast.NotEq)):
                    sides = [c.left, c.comparators[0]]
                    if all(isinstance(x, ast.Attribute) and x.attr == 'shape' for x in sides):
                        roots = [norm(x.value.value) if isinstance(x.value, ast.Attribute) and x.value.attr == 'data' else norm(x.value) for x in sides]
                        if s in roots and any(r in seed_sources for r in roots if r != s):
                            eq_text = '%s == %s' % (norm(sides[0]), norm(sides[1]))
                            mapping[eq_text] = ('M', True)
    ok_tab, _why = guard_table(f, B.cfg, mapping, lambda a: not a['M'], [_top_stmt(f.node, n) for n in seeds])
    ok = via_setter or ok_tab
    R.ob(P + '.SEED-OWNED', f.qualname, 'shape check before seeding', ok and bool(seeds), 'a seed of a different shape must be rejected (matches_shape -> raise) before it is installed', f.loc)


def check_writers(model, R, P, ops):
    """who may write Tensor._grad / .grad"""
    R.rule(P + '.WRITERS', 'the only writers of Tensor._grad are Tensor.__init__, the grad setter, Tensor.backward, Tensor.zero_ (via the setter) and the += of op closures on their own children', floor=5)
    allowed = {TENSOR + '.__init__', TENSOR + '.grad.setter', TENSOR + '.backward', TENSOR + '.zero_'}
    closures = {cl.qualname for op in ops for cl in op.closures}
    for fn in model.live_funcs():
        for n in body_walk(fn.node):
            tg = []
            if isinstance(n, ast.Assign):
                tg = n.targets
            elif isinstance(n, ast.AugAssign):
                tg = [n.target]
            elif isinstance(n, ast.Delete):
                tg = n.targets
            for t in tg:
                base = t.value if isinstance(t, ast.Subscript) else t
                if isinstance(base, ast.Attribute) and base.attr in ('_grad', 'grad') and not (isinstance(base.value, ast.Name) and base.value.id == 'np'):
                    if fn.mod.modname == 'synapgrad.visual.graph':
                        continue
                    ok = fn.qualname in allowed or fn.qualname in closures
                    R.ob(P + '.WRITERS', fn.qualname, norm(n), ok, 'gradient buffers may only be written by the engine and by op closures', _loc(fn, n))


def check_reset(model, R, P):
    R.rule(P + '.RESET', 'Tensor.zero_ installs fresh zeros shaped like data; Module.zero_grad / Optimizer.zero_grad call zero_ on the parameters they own that require grad and write nothing else', floor=3)
    z = model.func(TENSOR + '.zero_')
    stmts = [n for n in body_walk(z.node) if isinstance(n, ast.stmt) and not (isinstance(n, ast.Expr) and isinstance(n.value, ast.Constant))]
    stores = [n for n in stmts if isinstance(n, ast.Assign) and isinstance(n.targets[0], ast.Attribute) and n.targets[0].attr in ('grad', '_grad')]
    others = [n for n in stmts if n not in stores and not (isinstance(n, ast.Assign) and all(isinstance(t, ast.Name) for t in n.targets))]
    ok = False
    if len(stores) == 1:
        from .core import expand_expression_functions
        v = expand_expression_functions(model, z.mod, inline_expr(z.node, stores[0].value))
        calls = [c for c in ast.walk(v) if isinstance(c, ast.Call) and model.resolve(z.mod, c.func) in ('numpy.zeros_like', 'numpy.zeros')]
        ok = len(calls) == 1 and bool(calls[0].args) and norm(calls[0].args[0]) in ('self.data', 'self.shape', 'self.data.shape') and norm(stores[0].targets[0].value) == 'self'
        if ok and model.resolve(z.mod, calls[0].func) == 'numpy.zeros':
            ok = any(k.arg == 'dtype' and norm(k.value) in ('self.dtype', 'self.data.dtype') for k in calls[0].keywords)
        # the stored value is that fresh array (optionally wrapped in Tensor(...)), not something combined with the old buffer
        inner = v.args[0] if isinstance(v, ast.Call) and dotted(v.func) == 'Tensor' and v.args else v
        ok = ok and inner is calls[0] if ok else False
    R.ob(P + '.RESET', z.qualname, ' ; '.join(norm(n) for n in stmts)[:120], ok and not others, 'zero_ must install np.zeros_like(self.data) and nothing else', z.loc)
    from .rules_modtree import zero_grad_outcome
    for q in ('synapgrad.nn.modules.Module.zero_grad', 'synapgrad.optim.optimizers.Optimizer.zero_grad'):
        fn = model.func(q)
        try:
            ok, how = zero_grad_outcome(model, q)
        except Incomplete as u:
            R.incomplete_at(P + '.RESET', q, str(u))
            continue
        R.ob(P + '.RESET', q, 'evaluated on trainable and frozen parameters: %s' % how, ok,
             'zero_grad must reset exactly the owned parameters that require grad, each once (a frozen parameter must not acquire a buffer) and write nothing else', fn.loc)


# ------------------------------------------------------------------------------------------------ C17
def check_norecurse(model, R, P, B):
    f = B.f
    R.rule(P + '.NORECURSE', 'no function on the call graph of Tensor.backward is recursive (interpreter recursion limit would bound the differentiable depth)', floor=1)
    g = nx.DiGraph()
    tcls = model.cls(TENSOR)
    todo, seen = [f], set()
    while todo:
        fn = todo.pop()
        if fn.qualname in seen:
            continue
        seen.add(fn.qualname)
        g.add_node(fn.qualname)
        local = {x.name: x for x in model.nested(fn)}
        for c in ast.walk(fn.node):
            if isinstance(c, ast.Call):
                tgt = None
                if isinstance(c.func, ast.Name):
                    k = fn
                    while k is not None and tgt is None:
                        tgt = {x.name: x for x in model.nested(k)}.get(c.func.id) or (k if k.name == c.func.id and k.parent is not None else None)
                        k = k.parent
                    if tgt is None:
                        tgt = model.funcs.get(fn.mod.modname + '.' + c.func.id)
                elif isinstance(c.func, ast.Attribute):
                    d = model.resolve(fn.mod, c.func)
                    if d is not None:
                        tgt = model.funcs.get(d)        # module-level function through an import alias
                    elif c.func.attr in tcls.methods and c.func.attr not in ('grad_fn',):
                        tgt = tcls.methods[c.func.attr]
                if tgt is not None:
                    g.add_edge(fn.qualname, tgt.qualname)
                    todo.append(tgt)
    cyc = list(nx.simple_cycles(g))
    R.analysed['backward_call_graph'] = sorted(g.nodes)
    R.ob(P + '.NORECURSE', f.qualname, 'call graph of backward: %d functions' % g.number_of_nodes(), not cyc,
         'recursive cycle %s: graph depth is bounded by CPython\'s recursion limit (~1000)' % cyc[:2], f.loc)


def check_visited_is_set(model, R, P, B):
    f = B.f
    R.rule(P + '.LINEAR', 'the traversal does O(1) work per edge: the visited structure is a set / dict (not a list scan)', floor=1)
    vs = set()
    for n in ast.walk(f.node):
        if isinstance(n, ast.Compare) and len(n.ops) == 1 and isinstance(n.ops[0], (ast.In, ast.NotIn)) and isinstance(n.comparators[0], ast.Name):
            vs.add(n.comparators[0].id)
    ok = bool(vs)
    for v in vs:
        binds = [n for n in ast.walk(f.node) if isinstance(n, ast.Assign) and any(isinstance(t, ast.Name) and t.id == v for t in n.targets)]
        if not binds or not all(norm(b.value) in ('set()', '{}', 'dict()') or isinstance(b.value, (ast.Set, ast.SetComp)) for b in binds):
            ok = False
    R.ob(P + '.LINEAR', f.qualname, 'membership containers %s' % sorted(vs), ok, 'membership tests on a list make the traversal quadratic in the number of nodes', f.loc)


def check_nohistory(model, R, P, ops):
    R.rule(P + '.NOHISTORY', 'a tensor that does not require grad stores no children, and backward closures escape only through the guarded grad_fn attach', floor=len(ops) + 1)
    init = model.func(TENSOR + '.__init__')
    stores = [n for n in body_walk(init.node) if isinstance(n, ast.Assign) and any(isinstance(t, ast.Attribute) and t.attr == '_children' for t in n.targets)]
    flag = None
    for n in body_walk(init.node):
        if isinstance(n, ast.Assign) and any(isinstance(t, ast.Attribute) and t.attr == '_requires_grad' for t in n.targets) and isinstance(n.value, ast.Name):
            flag = n.value.id
    cfg = CFG(init.node)
    ok = len(stores) >= 1
    for s in stores:
        v = s.value
        if isinstance(v, ast.IfExp):
            good = isinstance(v.test, ast.Name) and v.test.id == flag and norm(v.orelse) in ('()', 'tuple()') and norm(v.body) == 'children'
        elif norm(v) in ('()', 'tuple()'):
            good = True
        else:
            fs = {(t, p) for t, p, _ in facts_at(cfg, s)}
            good = norm(v) == 'children' and ((flag, True) in fs or ('self._requires_grad', True) in fs or ('self.requires_grad', True) in fs)
        ok = ok and good
    R.ob(P + '.NOHISTORY', init.qualname, ' ; '.join(norm(s) for s in stores), ok,
         'children must be stored only when the resolved requires_grad flag (%s) is true: otherwise untracked results keep their whole history alive' % flag, init.loc)
    for op in ops:
        fn = op.func
        for cl in op.closures:
            uses = [n for n in body_walk(fn.node) if isinstance(n, ast.Name) and n.id == cl.name and isinstance(n.ctx, ast.Load)]
            attach_nodes = set()
            for stmt, facts, bf in op.attach:
                if bf is not None:
                    attach_nodes |= {id(x) for x in ast.walk(bf)}
            esc = [u for u in uses if id(u) not in attach_nodes]
            guarded = all(any('requires_grad' in t and p for t, p, _ in facts) for stmt, facts, bf in op.attach)
            R.ob(P + '.NOHISTORY', op.qual, 'closure %s used only in the guarded attach' % cl.name, not esc and guarded,
                 'the backward closure captures operands and saved data; it must not be stored anywhere but grad_fn under `if out.requires_grad`', fn.loc)
