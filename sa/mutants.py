"""Mutant catalogue for the checker self-test.  Each entry is a text edit of the current /repo tree:
   expect='fire'   a realistic change that breaks the property (and, by inspection of tests/, keeps the 92 tests green)
   expect='silent' a behaviour-preserving rewrite of the same construct (the checks must not alarm)
`rules` (optional) = rule-name prefixes at least one of which must report the mutant.
"""
F = 'synapgrad/functional.py'
NF = 'synapgrad/nn/functional.py'
K = 'synapgrad/cpu_ops.py'
CT = 'synapgrad/conv_tools.py'
T = 'synapgrad/tensor.py'
M = 'synapgrad/nn/modules.py'
O = 'synapgrad/optim/optimizers.py'
LY = 'synapgrad/nn/layers.py'
IN = 'synapgrad/nn/init.py'
LS = 'synapgrad/nn/losses.py'
DT = 'synapgrad/nn/utils/data.py'
TR = 'synapgrad/nn/utils/train.py'
U = 'synapgrad/utils.py'

MUTANTS = []


def mut(id, props, what, edits, expect='fire', rules=None, count=1, **kw):
    MUTANTS.append(dict(id=id, props=props, what=what, edits=edits, expect=expect, rules=rules, count=count, **kw))


# ------------------------------------------------------------------------------------------------ C01
mut('c01-max-drops-grad', ['C01'], 'max_backward returns the mask (drops g; invisible under an all-ones seed)',
    [(K, "        grad = unsqueeze_forward(grad, axis)\n    \n    return grad * mask\n\n\ndef min_forward", "        grad = unsqueeze_forward(grad, axis)\n    \n    return mask\n\n\ndef min_forward")], rules=['C01.GLIN'])
mut('c01-mul-unbroadcast-wrong-operand', ['C01'], 'mul_backward un-broadcasts grad_a to b.shape',
    [(K, "return unbroadcast(grad_a, a.shape), unbroadcast(grad_b, b.shape)\n\n\ndef matmul_forward", "return unbroadcast(grad_a, b.shape), unbroadcast(grad_b, b.shape)\n\n\ndef matmul_forward")], rules=['C01.UNBROADCAST'])
mut('c01-mul-swapped-saved', ['C01'], 'mul closure passes (x2.data, x1.data) to mul_backward',
    [(F, "cpu_ops.mul_backward(grad_output.data, x1.data, x2.data)", "cpu_ops.mul_backward(grad_output.data, x2.data, x1.data)")], rules=['C01.SAVED'])
mut('c01-add-assign-not-accumulate', ['C01', 'C03'], 'add closure assigns x2._grad instead of accumulating',
    [(F, "        if x2.requires_grad: x2._grad += b_grad\n    \n    if out.requires_grad: out.grad_fn = BackwardFunction(backward, out._operation)\n    \n    return out\n\n\ndef mul(",
      "        if x2.requires_grad: x2._grad = b_grad\n    \n    if out.requires_grad: out.grad_fn = BackwardFunction(backward, out._operation)\n    \n    return out\n\n\ndef mul(")], rules=['C01.ACC', 'C03.SUM'])
mut('c01-matmul-swapped-results', ['C01'], 'matmul closure binds (b_grad, a_grad) to the kernel results',
    [(F, "a_grad, b_grad = cpu_ops.matmul_backward(", "b_grad, a_grad = cpu_ops.matmul_backward(")], rules=['C01.BIND'])
mut('c01-movedim-not-inverse', ['C01'], 'movedim_backward moves source -> destination again',
    [(K, "return np.moveaxis(grad, destination, source)", "return np.moveaxis(grad, source, destination)")], rules=['C01.PERM'])
mut('c01-slice-overwrite', ['C01'], 'slice_backward stores with grad_a[s] = grad (loses repeated indices)',
    [(K, "    np.add.at(grad_a, s, grad)\n", "    grad_a[s] = grad\n")], rules=['C01.SCATTER'])
mut('c01-sum-drops-keepdims-test', ['C01'], 'sum_backward unsqueezes whenever axis is given (ignores keepdims)',
    [(K, "    out_grad = np.zeros(a_shape, dtype=grad.dtype)\n    if not keepdims and axis is not None:\n        grad = unsqueeze_forward(grad, axis)\n\n    out_grad = out_grad + grad\n\n    return out_grad\n",
      "    out_grad = np.zeros(a_shape, dtype=grad.dtype)\n    if axis is not None:\n        grad = unsqueeze_forward(grad, axis)\n\n    out_grad = out_grad + grad\n\n    return out_grad\n")], rules=['C01.REDUCE'])
mut('c01-unbroadcast-no-keepdims', ['C01'], 'unbroadcast sums size-1 dims without keepdims',
    [(K, "grad = grad.sum(axis=i, keepdims=True)", "grad = grad.sum(axis=i)")], rules=['C01.UNBROADCAST'])
mut('c01-exp-uses-input', ['C01'], 'exp closure passes x.data where the forward output is expected',
    [(F, "cpu_ops.exp_backward(grad_output.data, out.data)", "cpu_ops.exp_backward(grad_output.data, x.data)")], rules=['C01.SAVED'])
mut('c01-pow-affine', ['C01'], 'pow_backward adds a g-independent term',
    [(K, "return n * (a ** (n - 1)) * grad", "return n * (a ** (n - 1)) * grad + (a == 0)")], rules=['C01.GLIN'])
mut('c01-unfold-dim-overwrite', ['C01'], 'unfold_dim_backward overwrites overlapping windows',
    [(K, "a_grad[s1] += np.moveaxis(", "a_grad[s1] = np.moveaxis(")], rules=['C01.SCATTER'])
mut('c01-transpose-backward-wrong-pair', ['C01'], 'transpose closure passes (dim0, dim0) to the backward kernel',
    [(F, "cpu_ops.transpose_backward(grad_output.data, dim0, dim1)", "cpu_ops.transpose_backward(grad_output.data, dim0, dim0)")], rules=['C01.SAVED', 'C01.PERM'])
mut('c01-unbind-reads-first-output-grad', ['C01'], 'unbind closure always reads the gradient of output 0',
    [(F, "grad_output = out[out_index].grad", "grad_output = out[0].grad")], rules=['C01.WRAP'], accept_incomplete=True)
mut('c01-stack-skips-first', ['C01', 'C03'], 'stack closure zips inputs[1:] with the slices',
    [(F, "for inp, grad in zip(inputs, slices_grad):", "for inp, grad in zip(inputs[1:], slices_grad):")], rules=['C01.BIND', 'C01.ACC', 'C03'], accept_incomplete=True)
# twins
mut('c01-twin-commute', ['C01'], 'mul_backward written as b * grad / a * grad', [(K, "    grad_a = grad * b\n    grad_b = grad * a\n", "    grad_a = b * grad\n    grad_b = a * grad\n")], expect='silent')
mut('c01-twin-temp', ['C01'], 'neg_backward through a temporary', [(K, "    return -grad\n", "    out = -grad\n    return out\n")], expect='silent')
mut('c01-twin-explicit-or', ['C01', 'C07'], 'add uses an explicit disjunction for requires_grad',
    [(F, "    inputs = (x1, x2)\n    req_grad = any(inp.requires_grad for inp in inputs)\n    out = Tensor(out_data, device=x1.device, children=inputs, requires_grad=req_grad, operation=\"Add\")",
      "    inputs = (x1, x2)\n    req_grad = x1.requires_grad or x2.requires_grad\n    out = Tensor(out_data, device=x1.device, children=inputs, requires_grad=req_grad, operation=\"Add\")")], expect='silent')
mut('c01-twin-sum-keyword-order', ['C01'], 'unbroadcast sum with keyword order swapped', [(K, "grad.sum(axis=i, keepdims=True)", "grad.sum(keepdims=True, axis=i)")], expect='silent')

# ------------------------------------------------------------------------------------------------ C02
mut('c02-bn-eval-no-scale', ['C02'], 'batch-norm eval backward drops the 1/sqrt(var+eps) factor',
    [(K, "        dL_dxi = dL_dxi_hat / np.sqrt(variance + eps)\n", "        dL_dxi = dL_dxi_hat\n")], rules=['C02.DEP'])
mut('c02-conv2d-swapped-targets', ['C02'], 'conv2d closure accumulates weight_grad into x and x_grad into weight',
    [(NF, "        if x.requires_grad:\n            x._grad += x_grad\n        if weight.requires_grad:\n            weight._grad += weight_grad    \n        if bias and bias.requires_grad:\n            bias._grad += bias_grad\n            \n    if out.requires_grad: out.grad_fn = BackwardFunction(backward, out._operation)\n    \n    return out\n\n# ****",
      "        if x.requires_grad:\n            x._grad += weight_grad\n        if weight.requires_grad:\n            weight._grad += x_grad    \n        if bias and bias.requires_grad:\n            bias._grad += bias_grad\n            \n    if out.requires_grad: out.grad_fn = BackwardFunction(backward, out._operation)\n    \n    return out\n\n# ****")], rules=['C02.BIND'])
mut('c02-avgpool-stride-as-dilation', ['C02'], 'avg_pool1d closure passes dilation where stride is expected',
    [(NF, "cpu_ops.avg_pool1d_backward(grad_output.data, kernel_size, stride, padding, dilation, *bw_data)", "cpu_ops.avg_pool1d_backward(grad_output.data, kernel_size, dilation, padding, stride, *bw_data)")], rules=['C02.SAVED'])
mut('c02-bias-unguarded', ['C02'], 'conv1d accumulates into bias without the requires_grad guard',
    [(NF, "        if bias and bias.requires_grad:\n            bias._grad += bias_grad\n            \n    if out.requires_grad: out.grad_fn = BackwardFunction(backward, out._operation)\n\n    return out",
      "        if bias:\n            bias._grad += bias_grad\n            \n    if out.requires_grad: out.grad_fn = BackwardFunction(backward, out._operation)\n\n    return out")], rules=['C02.COVER'])
mut('c02-mse-target-dropped', ['C02'], 'mse_loss no longer back-propagates into the target',
    [(NF, "        if y_true.requires_grad: y_true._grad += -loss_grad_data\n", "")], rules=['C02.COVER'])
mut('c02-mse-target-same-sign', ['C02'], 'mse_loss gives the target the un-negated gradient',
    [(NF, "y_true._grad += -loss_grad_data", "y_true._grad += loss_grad_data")], rules=['C02.BIND'])
mut('c02-relu-backward-on-output-grad-squared', ['C02'], 'relu_backward multiplies by grad twice', [(K, "return grad * (a > 0)", "return grad * grad * (a > 0)")], rules=['C02.GLIN'])
mut('c02-maxpool-wrong-inverse-perm', ['C02'], 'max_pool2d_backward transposes the gradient with the forward permutation',
    [(K, "def max_pool2d_backward(grad, kernel_size, stride, padding, dilation, a_shape, windows):\n    grad = grad.transpose(2, 3, 0, 1)", "def max_pool2d_backward(grad, kernel_size, stride, padding, dilation, a_shape, windows):\n    grad = grad.transpose(3, 2, 0, 1)")], rules=['C02.POOLPERM'])
mut('c02-linear-weight-not-transposed-back', ['C02'], 'linear accumulates weight_grad without transposing back',
    [(NF, "weight._grad += weight_grad.T", "weight._grad += weight_grad")], rules=['C02.BIND'])
mut('c02-softmax-rowwise', ['C02'], 'softmax_backward hard-codes axis=1',
    [(K, "a_grad = softmax_a * (grad - (grad * softmax_a).sum(axis=axis, keepdims=True))", "a_grad = softmax_a * (grad - (grad * softmax_a).sum(axis=1, keepdims=True))")], rules=['C02.AXISGEN'])
mut('c02-twin-bias-presence', ['C02'], 'conv2d tests `bias is not None` instead of truthiness in the closure',
    [(NF, "        if bias and bias.requires_grad:\n            bias._grad += bias_grad\n            \n    if out.requires_grad: out.grad_fn = BackwardFunction(backward, out._operation)\n    \n    return out\n\n# ****",
      "        if bias is not None and bias.requires_grad:\n            bias._grad += bias_grad\n            \n    if out.requires_grad: out.grad_fn = BackwardFunction(backward, out._operation)\n    \n    return out\n\n# ****")], expect='silent')

# ------------------------------------------------------------------------------------------------ C07 (template part)
mut('c07-add-prop-first-only', ['C07'], 'add result requires grad only if x1 does',
    [(F, "    inputs = (x1, x2)\n    req_grad = any(inp.requires_grad for inp in inputs)\n    out = Tensor(out_data, device=x1.device, children=inputs, requires_grad=req_grad, operation=\"Add\")",
      "    inputs = (x1, x2)\n    req_grad = x1.requires_grad\n    out = Tensor(out_data, device=x1.device, children=inputs, requires_grad=req_grad, operation=\"Add\")")], rules=['C07.PROP'])
mut('c07-attach-unguarded', ['C07', 'C17'], 'exp attaches grad_fn unconditionally',
    [(F, "    if out.requires_grad: out.grad_fn = BackwardFunction(backward, out._operation)\n    \n    return out\n\n\ndef log(", "    out._grad_fn = BackwardFunction(backward, out._operation)\n    \n    return out\n\n\ndef log(")], rules=['C07.ATTACH', 'C17'])
mut('c07-concat-all', ['C07'], 'concat result requires grad only if ALL inputs do',
    [(F, "    req_grad = any([t.requires_grad for t in x])\n    out = Tensor(out_data, device=x[0].device, children=inputs, requires_grad=req_grad, operation=\"Concat\")",
      "    req_grad = all([t.requires_grad for t in x])\n    out = Tensor(out_data, device=x[0].device, children=inputs, requires_grad=req_grad, operation=\"Concat\")")], rules=['C07.PROP'])

# ------------------------------------------------------------------------------------------------ C03 / C04 / C17 (Tensor.backward)
TRAV = """            if expanded:
                ordered_nodes.append(node)
            elif node not in visited_nodes:
                visited_nodes.add(node)
                stack.append((node, True))
"""
mut('c03-preorder-append', ['C03', 'C17'], 'node appended when first seen (pre-order): a node reachable by two paths of different length is swept too early',
    [(T, TRAV, """            if expanded:
                pass
            elif node not in visited_nodes:
                visited_nodes.add(node)
                ordered_nodes.append(node)
                stack.append((node, True))
""")], rules=['C03.TOPO', 'C17.TOPO'])
mut('c03-forward-sweep', ['C03'], 'sweep runs over the order list un-reversed', [(T, "enumerate(reversed(ordered_nodes))", "enumerate(ordered_nodes)")], rules=['C03.TOPO'])
mut('c03-no-visited-mark', ['C03', 'C17'], 'visited mark dropped: shared sub-graphs are expanded (and swept) once per path',
    [(T, "                visited_nodes.add(node)\n                stack.append((node, True))", "                stack.append((node, True))")], rules=['C03.TOPO', 'C17.TOPO'])
mut('c03-expanded-pushed-last', ['C03'], '(node, True) pushed after the children: popped first, i.e. appended before its children',
    [(T, """                stack.append((node, True))
                for child in reversed(node._children):
                    # leaves accumulate across calls; a non-leaf buffer only holds the gradient
                    # propagating in the current sweep, so it always starts from zero
                    if child.requires_grad and (child._grad is None or not child.is_leaf):
                        child.zero_()
                    stack.append((child, False))
""", """                for child in reversed(node._children):
                    # leaves accumulate across calls; a non-leaf buffer only holds the gradient
                    # propagating in the current sweep, so it always starts from zero
                    if child.requires_grad and (child._grad is None or not child.is_leaf):
                        child.zero_()
                    stack.append((child, False))
                stack.append((node, True))
""")], rules=['C03.TOPO'])
mut('c03-grad-fn-also-in-traversal', ['C03', 'C17'], 'grad_fn() additionally invoked while traversing',
    [(T, "            if expanded:\n                ordered_nodes.append(node)\n", "            if expanded:\n                ordered_nodes.append(node)\n                if node.grad_fn is not None and node._retain_grad: node.grad_fn()\n")], rules=['C03.ONCE', 'C17.ONCE'], accept_incomplete=True)
mut('c03-release-before-use', ['C03', 'C04'], 'buffer released before the node\'s grad_fn consumed it',
    [(T, """            if node.grad_fn is not None:
                #print(node.grad_fn)
                node.grad_fn()
            if node is not self and not node.is_leaf and not node._retain_grad and not retain_grads__:
                del node._grad
                node._grad = None
""", """            if node is not self and not node.is_leaf and not node._retain_grad and not retain_grads__:
                del node._grad
                node._grad = None
            if node.grad_fn is not None:
                #print(node.grad_fn)
                node.grad_fn()
""")], rules=['C03.CONSUME', 'C04.CONSUME'])
mut('c04-release-leaves', ['C04', 'C07', 'C17'], 'release predicate forgets the leaf test: leaves lose their accumulated gradient',
    [(T, "if node is not self and not node.is_leaf and not node._retain_grad and not retain_grads__:", "if node is not self and not node._retain_grad and not retain_grads__:")], rules=['C04.RELEASE', 'C07.RELEASE', 'C17.RELEASE'])
mut('c04-release-ignores-retain-flag', ['C04', 'C07'], 'release ignores the global retain_grads flag',
    [(T, "if node is not self and not node.is_leaf and not node._retain_grad and not retain_grads__:", "if node is not self and not node.is_leaf and not node._retain_grad:")], rules=['C04.RELEASE', 'C07.RELEASE'])
mut('c03-tensor-eq', ['C03'], 'Tensor gains a value-based __eq__', [(T, "    def __len__(self) -> int:\n        return len(self.data)\n", "    def __len__(self) -> int:\n        return len(self.data)\n\n    def __eq__(self, other):\n        return isinstance(other, Tensor) and np.array_equal(self.data, other.data)\n\n    def __hash__(self):\n        return hash(self.data.tobytes())\n")], rules=['C03.IDENTITY'])
ZG = "if child.requires_grad and (child._grad is None or not child.is_leaf):"
mut('c04-stale-nonleaf (revert of fix)', ['C04'], 'buffers created only when absent: a gradient left on a non-leaf by an earlier call is propagated again',
    [(T, ZG, "if child.requires_grad and child._grad is None:")], rules=['C04.NONLEAF-RESET'])
mut('c04-always-zero', ['C04'], 'every reachable tensor that requires grad is zeroed: leaves no longer accumulate across backward calls',
    [(T, ZG, "if child.requires_grad:")], rules=['C04.LEAF-ACCUMULATE'])
mut('c04-zero-frozen', ['C04', 'C07'], 'buffers created for operands that do not require grad', [(T, ZG, "if child._grad is None or not child.is_leaf:")], rules=['C04.LEAF-ACCUMULATE', 'C07'])
SEED = """        if self.is_leaf and self._grad is not None:
            self._grad += seed
        else:
            self._grad = seed
"""
mut('c04-root-overwrite', ['C04'], 'root seed always assigned: a leaf root called twice keeps g, not 2g', [(T, SEED, "        self._grad = seed\n")], rules=['C04.LEAF-ACCUMULATE'])
mut('c04-seed-aliased', ['C04', 'C11'], 'seed is the caller\'s array itself (no copy)', [(T, "seed = grad.data.astype(self.dtype) # owned copy, never the caller's array", "seed = grad.data")], rules=['C04.SEED-OWNED', 'C11.GRAD-OWNED'])
mut('c04-seed-astype-nocopy', ['C04', 'C11'], 'seed converted with copy=False (aliases the caller when dtypes agree)', [(T, "seed = grad.data.astype(self.dtype) # owned", "seed = grad.data.astype(self.dtype, copy=False) # owned")], rules=['C04.SEED-OWNED', 'C11.GRAD-OWNED'])
mut('c04-seed-setter (revert of fix)', ['C04', 'C10', 'C11'], 'root seeded through the grad setter with the caller\'s tensor',
    [(T, """        seed = grad.data.astype(self.dtype) # owned copy, never the caller's array
""" + SEED, "        self.grad = grad\n")], rules=['C04.SEED-OWNED', 'C04.LEAF', 'C10', 'C11'])
mut('c04-optimizer-zero-frozen (revert)', ['C04', 'C07', 'C08'], 'Optimizer.zero_grad gives frozen parameters a buffer',
    [(O, "        for p in self.parameters:\n            if p.requires_grad: p.zero_()", "        for p in self.parameters:\n            p.zero_()")], rules=['C04.RESET', 'C07', 'C08.FROZEN'])
mut('c04-foreign-writer', ['C04'], 'a module method clears gradients by writing _grad directly', [(M, "            if p.requires_grad: p.zero_()", "            if p.requires_grad: p._grad = None")], rules=['C04.WRITERS', 'C04.RESET'])
mut('c17-recursive-traversal (revert of fix)', ['C17'], 'recursive depth-first traversal: RecursionError at depth ~1000',
    [(T, """        stack = [(self, False)]
        while stack:
            node, expanded = stack.pop()
            if expanded:
                ordered_nodes.append(node)
            elif node not in visited_nodes:
                visited_nodes.add(node)
                stack.append((node, True))
                for child in reversed(node._children):
                    # leaves accumulate across calls; a non-leaf buffer only holds the gradient
                    # propagating in the current sweep, so it always starts from zero
                    if child.requires_grad and (child._grad is None or not child.is_leaf):
                        child.zero_()
                    stack.append((child, False))
""", """        def visit_node(node):
            if node not in visited_nodes:
                visited_nodes.add(node)
                for child in node._children:
                    if child.requires_grad and (child._grad is None or not child.is_leaf):
                        child.zero_()
                    visit_node(child)
                ordered_nodes.append(node)
        visit_node(self)
""")], rules=['C17.NORECURSE'])
mut('c03-twin-recursive-is-topological', ['C03'], 'the recursive post-order idiom is a correct topological order (C03 must accept it)',
    MUTANTS[-1]['edits'], expect='silent')
mut('c17-children-always (revert of fix)', ['C17'], 'children stored on every result', [(T, "self._children = children if req_grad else ()", "self._children = children")], rules=['C17.NOHISTORY'])
mut('c17-visited-list', ['C17'], 'visited structure is a list (quadratic traversal)', [(T, "visited_nodes = set()", "visited_nodes = []"), (T, "visited_nodes.add(node)", "visited_nodes.append(node)")], rules=['C17.LINEAR', 'C17.TOPO'])
mut('c03-twin-slice-reverse', ['C03', 'C17', 'C04'], 'sweep written as ordered_nodes[::-1]', [(T, "enumerate(reversed(ordered_nodes))", "enumerate(ordered_nodes[::-1])")], expect='silent')
mut('c04-twin-release-demorgan', ['C04', 'C17', 'C07'], 'release predicate rewritten with De Morgan',
    [(T, "if node is not self and not node.is_leaf and not node._retain_grad and not retain_grads__:", "if not (node is self or node.is_leaf or node._retain_grad or retain_grads__):")], expect='silent')
mut('c04-twin-zero-guard-nested', ['C04', 'C03'], 'zero guard written as nested ifs',
    [(T, "                    if child.requires_grad and (child._grad is None or not child.is_leaf):\n                        child.zero_()", "                    if child.requires_grad:\n                        if not child.is_leaf or child._grad is None:\n                            child.zero_()")], expect='silent')

# ------------------------------------------------------------------------------------------------ C07 (contexts, ctor, guards)
NG_ENTER = """    def __enter__(self):
        global gradient__
        self.prev.append(gradient__)
        gradient__ = False
        
    def __exit__(self, exc_type, exc_val, exc_tb):
        global gradient__
        gradient__ = self.prev.pop()
"""
mut('c07-ctx-save-in-init (revert of fix)', ['C07'], 'no_grad saves the previous mode in __init__',
    [(T, "    def __init__(self) -> None:\n        self.prev = []\n    \n" + NG_ENTER, "    def __init__(self) -> None:\n        self.prev = gradient__\n    \n    def __enter__(self):\n        global gradient__\n        gradient__ = False\n        \n    def __exit__(self, exc_type, exc_val, exc_tb):\n        global gradient__\n        gradient__ = self.prev\n")], rules=['C07.CTX'])
mut('c07-ctx-single-slot', ['C07'], 'no_grad saves on enter but into a single attribute (re-entering the same object loses the outer mode)',
    [(T, NG_ENTER, "    def __enter__(self):\n        global gradient__\n        self.prev = gradient__\n        gradient__ = False\n        \n    def __exit__(self, exc_type, exc_val, exc_tb):\n        global gradient__\n        gradient__ = self.prev\n")], rules=['C07.CTX'])
mut('c07-ctx-restore-only-on-success', ['C07'], 'no_grad restores the mode only when the block did not raise',
    [(T, "        global gradient__\n        gradient__ = self.prev.pop()\n", "        global gradient__\n        if exc_type is None:\n            gradient__ = self.prev.pop()\n")], rules=['C07.CTX'])
mut('c07-ctx-swallow', ['C07'], 'retain_grads.__exit__ returns True (swallows exceptions)',
    [(T, "        global retain_grads__\n        retain_grads__ = self.prev.pop()\n", "        global retain_grads__\n        retain_grads__ = self.prev.pop()\n        return True\n")], rules=['C07.CTX'])
mut('c07-ctx-missing-global', ['C07'], 'retain_grads.__exit__ assigns a local instead of the module flag',
    [(T, "    def __exit__(self, exc_type, exc_val, exc_tb):\n        global retain_grads__\n        retain_grads__ = self.prev.pop()", "    def __exit__(self, exc_type, exc_val, exc_tb):\n        retain_grads__ = self.prev.pop()")], rules=['C07.CTX'])
mut('c07-ctor-ignores-mode', ['C07'], 'Tensor.__init__ ignores the global gradient mode', [(T, "req_grad = requires_grad and gradient__", "req_grad = requires_grad")], rules=['C07.CTOR'])
mut('c07-ctor-float-check-after', ['C07'], 'integer tensors can be created with requires_grad=True (check uses the requested flag only under mode)',
    [(T, "        if req_grad and not self.is_floating_point:\n            raise RuntimeError(\"Only floating point Tensors can require gradients\")\n        self._requires_grad = req_grad",
      "        self._requires_grad = req_grad\n        if requires_grad and gradient__ and dtype is not None and not self.is_floating_point:\n            raise RuntimeError(\"Only floating point Tensors can require gradients\")")], rules=['C07.CTOR'])
mut('c07-setter-no-float-check', ['C07'], 'requires_grad setter accepts integer tensors',
    [(T, "        if value and not self.is_floating_point:\n            raise RuntimeError(\"Only floating point Tensors can require gradients\")\n        \n        self._requires_grad = value", "        self._requires_grad = value")], rules=['C07.GUARDS'])
mut('c07-retain-grad-unguarded', ['C07'], 'retain_grad() allowed on tensors that do not require grad',
    [(T, "        if not self.requires_grad:\n            raise RuntimeError(\"Cannot retain_grad() on a Tensor that doesn't require grad\")\n", "")], rules=['C07.GUARDS'])
mut('c07-twin-ctx-attr-name', ['C07'], 'stack attribute renamed', [(T, "self.prev", "self._saved")], expect='silent', count=6)

# ------------------------------------------------------------------------------------------------ C10
mut('c10-scalar-default (revert of fix)', ['C10'], 'NumPy scalar results are converted with the default float32',
    [(T, "data = np.array(data, dtype=data.dtype if isinstance(data, np.generic) else default_type__)", "data = np.array(data, dtype=default_type__)")], rules=['C10.SCALAR'])
mut('c10-conv-bias-float64', ['C10'], 'conv1d_forward accumulates into a dtype-less zeros buffer (float64 result for float32 operands)',
    [(K, "    conv_out = np.tensordot(weight, windows, axes=[(1,2), (2,3)])\n    if bias is not None: conv_out += bias.reshape(-1, 1, 1)", "    conv_out = np.tensordot(weight, windows, axes=[(1,2), (2,3)])\n    if bias is not None: conv_out = conv_out + np.ones(conv_out.shape) * bias.reshape(-1, 1, 1)")], rules=['C10.FWD'])
mut('c10-leaky-mask-float64', ['C10'], 'leaky_relu_forward built from boolean masks times Python floats (float64 result)',
    [(K, "return np.maximum(neg_slope * a, a)", "return a * ((a > 0) + neg_slope * (a <= 0))")], rules=['C10.FWD'])
mut('c10-place-windows-dtype', ['C10'], 'place_windows allocates its output without the windows dtype',
    [(CT, "output = np.zeros((N, C, W_with_pad), dtype=windows.dtype)", "output = np.zeros((N, C, W_with_pad))")], rules=['C10.FWD'])
mut('c10-acc-assign', ['C10'], 'relu closure assigns the kernel result as the buffer', [(NF, "        if x.requires_grad: x._grad += a_grad \n    \n    if out.requires_grad: out.grad_fn = BackwardFunction(backward, out._operation)\n        \n    return out\n\n\ndef leaky_relu",
      "        if x.requires_grad: x._grad = x._grad + a_grad \n    \n    if out.requires_grad: out.grad_fn = BackwardFunction(backward, out._operation)\n        \n    return out\n\n\ndef leaky_relu")], rules=['C10.BUFFER'])
mut('c10-matches-shape-rank-only', ['C10'], 'matches_shape compares ranks only', [(T, "            if n1 != n2: return False\n", "            if n1 != n2 and n1 != 1: return False\n")], rules=['C10.SEEDSHAPE'], accept_incomplete=True)
mut('c10-twin-getattr', ['C10'], 'scalar dtype kept through getattr(data, "dtype", default)',
    [(T, "dtype=data.dtype if isinstance(data, np.generic) else default_type__)", "dtype=getattr(data, 'dtype', default_type__))")], expect='silent')

# ------------------------------------------------------------------------------------------------ C11
mut('c11-add-inplace', ['C11'], 'add_forward adds in place into its first operand', [(K, "def add_forward(a:np.ndarray, b:np.ndarray):\n    return a + b", "def add_forward(a:np.ndarray, b:np.ndarray):\n    a += b\n    return a")], rules=['C11.KERNEL-PURE'])
mut('c11-relu-out-param', ['C11'], 'relu_forward writes its result into the operand via out=', [(K, "return np.maximum(0, a)\n\ndef relu_backward", "return np.maximum(0, a, out=a)\n\ndef relu_backward")], rules=['C11.KERNEL-PURE'])
mut('c11-ce-backward-mutates-view', ['C11'], 'cross_entropy_loss_backward subtracts the one-hot in place from a reshaped view of y_pred',
    [(K, "    dlogits = softmax_forward(y_pred, 1)\n    n = y_pred.shape[0]", "    dlogits = y_pred.reshape(y_pred.shape)\n    n = y_pred.shape[0]")], rules=['C11.KERNEL-PURE'])
mut('c11-bn-normalises-in-place', ['C11'], 'batch_norm_forward centres x in place', [(K, "    x_norm = (x - mean.reshape(keepdims_shape)) / std.reshape(keepdims_shape)", "    x -= mean.reshape(keepdims_shape)\n    x_norm = x / std.reshape(keepdims_shape)")], rules=['C11.KERNEL-PURE'])
mut('c11-detach-no-copy', ['C11'], 'detach shares storage with its source', [(T, "return Tensor(self.data.copy(), requires_grad=False, name=self.name, device=self.device)", "return Tensor(self.data, requires_grad=False, name=self.name, device=self.device)")], rules=['C11.COPY'])
mut('c11-clone-view', ['C11'], 'clone_forward returns a view', [(K, "def clone_forward(a:np.ndarray):\n    return a.copy()", "def clone_forward(a:np.ndarray):\n    return a.view()")], rules=['C11.COPY'])
mut('c11-wrapper-writes-data', ['C11'], 'relu wrapper clamps the operand storage itself', [(NF, "        out_data = cpu_ops.relu_forward(x.data)\n", "        out_data = cpu_ops.relu_forward(x.data)\n        x.data = out_data\n")], rules=['C11.WRITERS', 'C11.WRAPPER-PURE'])
mut('c11-mse-writes-target', ['C11'], 'mse_loss_backward reuses the target array for the difference',
    [(K, "    return grad * 2 * (y_pred - y_true)", "    np.subtract(y_pred, y_true, out=y_true)\n    return grad * 2 * y_true")], rules=['C11.KERNEL-PURE'])
mut('c11-dropout-in-op', ['C11'], 'relu kernel adds random jitter', [(K, "return np.maximum(0, a)\n\ndef relu_backward", "return np.maximum(0, a + 0 * np.random.rand())\n\ndef relu_backward")], rules=['C11.DET'])
mut('c11-twin-copy-then-inplace', ['C11'], 'add_forward copies then adds in place', [(K, "def add_forward(a:np.ndarray, b:np.ndarray):\n    return a + b", "def add_forward(a:np.ndarray, b:np.ndarray):\n    out = a.copy()\n    out += b\n    return out")], expect='silent')

# ------------------------------------------------------------------------------------------------ C08
mut('c08-sgd-buffer-alias (revert of fix)', ['C08'], 'first momentum buffer is the gradient array itself', [(O, "self.momentum_buffer[i] = np.array(grad)", "self.momentum_buffer[i] = grad")], rules=['C08.OWN'])
mut('c08-sgd-buffer-asarray', ['C08'], 'first momentum buffer stored with np.asarray (no copy)', [(O, "self.momentum_buffer[i] = np.array(grad)", "self.momentum_buffer[i] = np.asarray(grad)")], rules=['C08.OWN'])
mut('c08-sgd-maximize-late (revert of fix)', ['C08'], 'maximize flips the sign of the final update (after weight decay)',
    [(O, "                grad = -p._grad if self.maximize else p._grad\n                \n                # Weight decay\n                if self.weight_decay != 0:\n                    grad = grad + self.weight_decay*p.data\n                \n                # Momentum",
      "                grad = p._grad\n                \n                # Weight decay\n                if self.weight_decay != 0:\n                    grad = grad + self.weight_decay*p.data\n                \n                # Momentum"),
     (O, "                p.data -= self.lr*grad\n        \n    \nclass Adam", "                if self.maximize:\n                    p.data += self.lr*grad\n                else:\n                    p.data -= self.lr*grad\n        \n    \nclass Adam")], rules=['C08.FORMULA'])
mut('c08-frozen-unguarded (revert of fix)', ['C08'], 'SGD.step updates parameters that do not require grad', [(O, "                if not p.requires_grad or p._grad is None: continue\n                grad = -p._grad if self.maximize else p._grad\n                \n                # Weight decay\n                if self.weight_decay != 0:\n                    grad = grad + self.weight_decay*p.data\n                \n                # Momentum",
      "                if p._grad is None: continue\n                grad = -p._grad if self.maximize else p._grad\n                \n                # Weight decay\n                if self.weight_decay != 0:\n                    grad = grad + self.weight_decay*p.data\n                \n                # Momentum")], rules=['C08.FROZEN'])
mut('c08-rebinding-update', ['C08'], 'Adam rebinds p.data instead of updating in place', [(O, "                p.data -= (self.lr * m1_corrected) / (np.sqrt(m2_corrected) + self.epsilon)\n                \n                \nclass AdamW", "                p.data = p.data - (self.lr * m1_corrected) / (np.sqrt(m2_corrected) + self.epsilon)\n                \n                \nclass AdamW")], rules=['C08.INPLACE'])
mut('c08-missing-super-step', ['C08'], 'AdamW.step never advances the step counter', [(O, "        self.m2 = [0 for _ in range(len(parameters))]\n        \n    def step(self):\n        super().step()\n", "        self.m2 = [0 for _ in range(len(parameters))]\n        \n    def step(self):\n")], rules=['C08.COUNTER'])
mut('c08-nesterov-dampened', ['C08'], 'Nesterov look-ahead scaled by (1 - dampening)', [(O, "grad = grad + self.momentum*self.momentum_buffer[i]", "grad = (1.0 - self.dampening)*grad + self.momentum*self.momentum_buffer[i]")], rules=['C08.FORMULA'])
mut('c08-first-step-dampened', ['C08'], 'first momentum step applies dampening (PyTorch sets buf = g)', [(O, "self.momentum_buffer[i] = np.array(grad)", "self.momentum_buffer[i] = (1.0 - self.dampening)*grad")], rules=['C08.FORMULA'])
mut('c08-bias-correction-t-minus-1', ['C08'], 'Adam second-moment bias correction uses t-1', [(O, "                m2_corrected = self.m2[i] / (1.0 - self.beta2**self.t)\n\n                # Update the parameters using the Adam formula\n                p.data -= (self.lr * m1_corrected) / (np.sqrt(m2_corrected) + self.epsilon)\n                \n                \nclass AdamW",
      "                m2_corrected = self.m2[i] / (1.0 - self.beta2**(self.t - 1) + 1e-30)\n\n                # Update the parameters using the Adam formula\n                p.data -= (self.lr * m1_corrected) / (np.sqrt(m2_corrected) + self.epsilon)\n                \n                \nclass AdamW")], rules=['C08.FORMULA'])
mut('c08-adam-eps-inside-sqrt', ['C08'], 'Adam adds epsilon inside the square root', [(O, "                p.data -= (self.lr * m1_corrected) / (np.sqrt(m2_corrected) + self.epsilon)\n                \n                \nclass AdamW", "                p.data -= (self.lr * m1_corrected) / np.sqrt(m2_corrected + self.epsilon)\n                \n                \nclass AdamW")], rules=['C08.FORMULA'])
mut('c08-adamw-coupled-decay', ['C08'], 'AdamW adds weight decay to the gradient (L2, not decoupled)', [(O, "                # Weight decay\n                p.data -= self.lr*self.weight_decay*p.data\n", "                # Weight decay\n                grad = grad + self.weight_decay*p.data\n")], rules=['C08.FORMULA'])
mut('c08-adamw-decay-unscaled', ['C08'], 'AdamW decay not scaled by lr', [(O, "p.data -= self.lr*self.weight_decay*p.data", "p.data -= self.weight_decay*p.data")], rules=['C08.FORMULA'])
mut('c08-step-outside-no-grad', ['C08'], 'Adam.step updates outside no_grad', [(O, "    def step(self):\n        super().step()\n        with synapgrad.no_grad():\n            for i, p in enumerate(self.parameters):\n                if not p.requires_grad or p._grad is None: continue\n                grad = -p._grad if self.maximize else p._grad   \n                    \n                # Weight decay\n                if self.weight_decay != 0:",
      "    def step(self):\n        super().step()\n        if True:\n            for i, p in enumerate(self.parameters):\n                if not p.requires_grad or p._grad is None: continue\n                grad = -p._grad if self.maximize else p._grad   \n                    \n                # Weight decay\n                if self.weight_decay != 0:")], rules=['C08.NOGRAD'], accept_incomplete=True)
mut('c08-twin-reassociated', ['C08'], 'Adam update re-associated: lr * (m_hat / (sqrt(v_hat) + eps))', [(O, "                p.data -= (self.lr * m1_corrected) / (np.sqrt(m2_corrected) + self.epsilon)\n                \n                \nclass AdamW", "                p.data -= self.lr * (m1_corrected / (m2_corrected**0.5 + self.epsilon))\n                \n                \nclass AdamW")], expect='silent')
mut('c08-twin-sgd-temp', ['C08'], 'SGD momentum update through a temporary and commuted products', [(O, "self.momentum_buffer[i] = self.momentum*self.momentum_buffer[i] + (1.0 - self.dampening)*grad", "buf = self.momentum_buffer[i]*self.momentum\n                        self.momentum_buffer[i] = buf + grad*(1.0 - self.dampening)")], expect='silent')

# ------------------------------------------------------------------------------------------------ C12
mut('c12-no-dedup (revert of fix)', ['C12'], 'parameters() reports shared parameters once per path',
    [(M, """        # a parameter (or submodule) shared between several parents is reported once
        unique_params = []; seen = set()
        for p in params:
            if id(p) not in seen:
                seen.add(id(p))
                unique_params.append(p)
        return unique_params""", "        return params")], rules=['C12.ONCE'], accept_incomplete=True)
mut('c12-twin-dedup-by-membership', ['C12'], 'parameters() de-duplicates with `p not in list`: Tensor / Parameter define no __eq__, so list membership IS the identity test (behaviour preserving; '
    'the evaluated rule treats it as value comparison only when the class overrides __eq__)',
    [(M, "            if id(p) not in seen:\n                seen.add(id(p))\n                unique_params.append(p)", "            if p not in unique_params:\n                unique_params.append(p)")], expect='silent')
mut('c12-dedup-by-equality', ['C12'], 'Tensor gains an elementwise __eq__ and parameters() de-duplicates with `p not in list` (value comparison: equal-valued parameters collapse)',
    [(M, "            if id(p) not in seen:\n                seen.add(id(p))\n                unique_params.append(p)", "            if p not in unique_params:\n                unique_params.append(p)"),
     (T, "    def __len__(self)", "    def __eq__(self, other):\n        return bool(np.all(self.data == getattr(other, 'data', other)))\n\n    __hash__ = object.__hash__\n\n    def __len__(self)")], rules=['C12.ONCE'], accept_incomplete=True)
mut('c12-setattr-stale (revert of fix)', ['C12'], 'plain assignment leaves the old registration', [(M, """            for registry in ('_parameters', '_submodules'):
                if registry in self.__dict__: self.__dict__[registry].pop(__name, None)
""", "")], rules=['C12.REG-EXCLUSIVE'])
mut('c12-register-module-keeps-param', ['C12'], 'register_module does not remove a same-named parameter', [(M, "        self._parameters.pop(name, None)\n        self._submodules[name] = module", "        self._submodules[name] = module")], rules=['C12.REG-EXCLUSIVE'])
mut('c12-eval-no-recursion', ['C12', 'C13'], 'eval() does not recurse into submodules', [(M, "        self.training = False\n        for m in self.submodules():\n            m.eval()\n        return self", "        self.training = False\n        return self")], rules=['C12.MODE', 'C13.MODE'])
mut('c12-train-recurses-eval', ['C12'], 'train() calls eval() on submodules', [(M, "        self.training = True\n        for m in self.submodules():\n            m.train()", "        self.training = True\n        for m in self.submodules():\n            m.eval()")], rules=['C12.MODE'])
mut('c12-eval-skips-first', ['C12'], 'eval() skips the first submodule', [(M, "        self.training = False\n        for m in self.submodules():", "        self.training = False\n        for m in self.submodules()[1:]:")], rules=['C12.MODE'])
mut('c12-unfreeze-own-only', ['C12'], 'unfreeze only touches the module\'s own parameters', [(M, "    def unfreeze(self):\n        for p in self.parameters():", "    def unfreeze(self):\n        for p in self._parameters.values():")], rules=['C12.MODE'])
mut('c12-num-params-else-dropped', ['C12'], 'num_params counts frozen elements also as trainable', [(M, "            if p.requires_grad: num_trainable += p.size\n            else: num_non_trainable += p.size", "            num_trainable += p.size\n            if not p.requires_grad: num_non_trainable += p.size")], rules=['C12.ONCE'])
mut('c12-sequential-unbound (revert of fix)', ['C12'], 'Sequential.forward binds its result only inside the loop', [(M, "        out = x\n        for module in self.submodules():\n            out = module(out)\n        return out", "        inp = x\n        for module in self.submodules():\n            out = module(inp)\n            inp = out\n        return out")], rules=['C12.SEQ'])
mut('c12-sequential-reversed', ['C12', 'C14'], 'Sequential applies its submodules in reverse order', [(M, "        for module in self.submodules():\n            out = module(out)", "        for module in reversed(self.submodules()):\n            out = module(out)")], rules=['C12.SEQ', 'C14'])
mut('c12-sequential-same-name', ['C12'], 'positional submodules all registered under the same name', [(M, "self.register_module(str(idx), module)", "self.register_module(str(0), module)")], rules=['C12.SEQ'])
mut('c12-submodules-set', ['C12', 'C19'], 'submodules() returned through a set (order lost)', [(M, "return [m for m in self._submodules.values()]", "return list(set(self._submodules.values()))")], rules=['C12.ORDER', 'C19.ORDER'])
mut('c12-layer-assign-before-super', ['C12'], 'Dropout assigns an attribute before super().__init__()', [(LY, "        super().__init__()\n        self.p = p", "        self.p = p\n        super().__init__()")], rules=['C12.SUBCLASS'])
mut('c12-twin-parameters-any-is', ['C12'], 'de-duplication with any(p is q ...)', [(M, "            if id(p) not in seen:\n                seen.add(id(p))\n                unique_params.append(p)", "            if not any(p is q for q in unique_params):\n                unique_params.append(p)")], expect='silent')
mut('c12-twin-setattr-direct-pop', ['C12'], 'plain branch pops from both registries explicitly', [(M, """            for registry in ('_parameters', '_submodules'):
                if registry in self.__dict__: self.__dict__[registry].pop(__name, None)
""", """            if '_parameters' in self.__dict__:
                self._parameters.pop(__name, None)
                self._submodules.pop(__name, None)
""")], expect='silent')

# ------------------------------------------------------------------------------------------------ C15
mut('c15-variance-as-std (revert of fix)', ['C15'], 'xavier_normal_ hands std**2 to normal_', [(IN, "    std = gain * math.sqrt(2.0 / float(fan_in + fan_out))\n    return normal_(tensor, 0, std)", "    std = gain * math.sqrt(2.0 / float(fan_in + fan_out))\n    return normal_(tensor, 0, std**2)")], rules=['C15.SCALE'])
mut('c15-kaiming-sqrt6', ['C15'], 'kaiming_uniform_ bound uses sqrt(6/fan)', [(IN, "std = gain * math.sqrt(3.0 / float(fan[mode]))", "std = gain * math.sqrt(6.0 / float(fan[mode]))")], rules=['C15.SCALE'])
mut('c15-xavier-fan-in-only', ['C15'], 'xavier_uniform_ uses 2*fan_in instead of fan_in+fan_out', [(IN, "a = gain * math.sqrt(6.0 / float(fan_in + fan_out))", "a = gain * math.sqrt(6.0 / float(fan_in + fan_in))")], rules=['C15.SCALE'])
mut('c15-asymmetric-bounds', ['C15'], 'xavier_uniform_ samples from U(0, a)', [(IN, "return uniform_(tensor, -a, a)", "return uniform_(tensor, 0, a)")], rules=['C15.SCALE'])
mut('c15-normal-roles-swapped', ['C15'], 'normal_ passes (std, mean) to np.random.normal', [(IN, "np.random.normal(mean, std, tensor.shape)", "np.random.normal(std, mean, tensor.shape)")], rules=['C15.SAMPLER'])
mut('c15-fan-swapped', ['C15'], 'fan_in computed from shape[0]', [(IN, "    num_input_fmaps = tensor.shape[1]\n    num_output_fmaps = tensor.shape[0]", "    num_input_fmaps = tensor.shape[0]\n    num_output_fmaps = tensor.shape[1]")], rules=['C15.FAN'])
mut('c15-fan-no-receptive-field', ['C15'], 'receptive field of conv kernels ignored in fan_out', [(IN, "fan_out = num_output_fmaps * receptive_field_size", "fan_out = num_output_fmaps")], rules=['C15.FAN'])
mut('c15-gain-tanh', ['C15'], 'tanh gain 5/4', [(IN, "return 5.0 / 3", "return 5.0 / 4")], rules=['C15.GAIN'])
mut('c15-gain-leaky-no-square', ['C15'], 'leaky_relu gain without squaring the slope', [(IN, "math.sqrt(2.0 / (1 + negative_slope ** 2))", "math.sqrt(2.0 / (1 + negative_slope))")], rules=['C15.GAIN'])
mut('c15-kaiming-mode-swapped', ['C15'], 'kaiming_normal_ maps fan_in to index 1', [(IN, "    fans_str = ['fan_in', 'fan_out']\n    if mode in fans_str:\n        mode = fans_str.index(mode)\n    else:\n        raise ValueError(f\"invalid {mode=} for kaiming normal\")", "    fans_str = ['fan_out', 'fan_in']\n    if mode in fans_str:\n        mode = fans_str.index(mode)\n    else:\n        raise ValueError(f\"invalid {mode=} for kaiming normal\")")], rules=['C15.GAIN', 'C15.SCALE'])
mut('c15-filler-drops-dtype', ['C15'], 'zeros_ replaces data by a float64 array', [(IN, "tensor.data = np.zeros(tensor.shape).astype(tensor.dtype)", "tensor.data = np.zeros(tensor.shape)")], rules=['C15.OBJECT'])
mut('c15-filler-new-tensor', ['C15'], 'constant_ returns a new Tensor instead of filling its argument', [(IN, "    tensor.data = np.full(tensor.shape, val).astype(tensor.dtype)\n    return tensor", "    return Tensor(np.full(tensor.shape, val).astype(tensor.dtype))")], rules=['C15.OBJECT'])
mut('c15-filler-clears-flag', ['C15'], 'uniform_ also resets requires_grad', [(IN, "    tensor.data = np.random.uniform(a, b, tensor.shape).astype(tensor.dtype)\n    return tensor\n    return np", "    tensor.data = np.random.uniform(a, b, tensor.shape).astype(tensor.dtype)\n    tensor._requires_grad = False\n    return tensor\n    return np")], rules=['C15.OBJECT'])
mut('c15-linear-bias-bound', ['C15'], 'Linear bias initialised from U(-1/fan_in, 1/fan_in)', [(LY, "            init.uniform_(self.bias, -std, std)", "            init.uniform_(self.bias, -std*std, std*std)")], rules=['C15.SCALE'])
mut('c15-twin-sqrt-split', ['C15'], 'xavier_uniform_ bound written as gain*sqrt(6)/sqrt(fan_in+fan_out)', [(IN, "a = gain * math.sqrt(6.0 / float(fan_in + fan_out))", "a = gain * math.sqrt(6.0) / math.sqrt(fan_in + fan_out)")], expect='silent')
mut('c15-twin-kaiming-pow', ['C15'], 'kaiming_normal_ std written as gain * fan**-0.5', [(IN, "std = gain * (1 / math.sqrt(float(fan[mode])))", "std = gain * float(fan[mode]) ** -0.5")], expect='silent')

# ------------------------------------------------------------------------------------------------ C18
mut('c18-transform-unguarded (revert of fix)', ['C18'], 'DataLoader calls transform=None', [(DT, "        if self.transform is None:\n            return X_batch, y_batch\n        \n", "")], rules=['C18.OPTIONAL-CALL'])
mut('c18-split-off-by-one', ['C18'], 'train/val part starts at split+1 (one sample lost)', [(DT, "train_val_indices, test_indices = indices[split:], indices[:split]", "train_val_indices, test_indices = indices[split+1:], indices[:split]")], rules=['C18.PARTITION'])
mut('c18-split-ceil', ['C18'], 'test size rounded up', [(DT, "split = int(np.floor(test_split * data_size))", "split = int(np.ceil(test_split * data_size))")], rules=['C18.PARTITION'], accept_incomplete=True)
mut('c18-val-from-total', ['C18'], 'validation size computed from the whole dataset', [(DT, "val_split = int(np.floor(val_split * len(train_val_indices)))", "val_split = int(np.floor(val_split * data_size))")], rules=['C18.PARTITION'])
mut('c18-shuffle-after-slice', ['C18'], 'indices shuffled after the test part was cut (and always)', [(DT, "        if shuffle:\n            np.random.shuffle(indices)\n        train_val_indices, test_indices = indices[split:], indices[:split]", "        train_val_indices, test_indices = indices[split:], indices[:split]\n        np.random.shuffle(train_val_indices)")], rules=['C18.PARTITION'])
mut('c18-labels-from-other-part', ['C18'], 'y_test gathered through the train indices', [(DT, "y_test = np.array([ y[ind] for ind in test_indices ], dtype=np.float32)", "y_test = np.array([ y[ind] for ind in train_indices[:len(test_indices)] ], dtype=np.float32)")], rules=['C18.PAIRING'])
mut('c18-batch-misaligned', ['C18'], 'label batch starts one sample later', [(DT, "y_batch = self.y[start:end]", "y_batch = self.y[start+1:end+1]")], rules=['C18.BATCH'])
mut('c18-batch-end', ['C18'], 'batch end computed as (idx+1)*batch_size - 1', [(DT, "end = (idx*self.batach_size) + self.batach_size", "end = (idx*self.batach_size) + self.batach_size - 1")], rules=['C18.BATCH'])
mut('c18-len-ceil', ['C18'], '__len__ counts the incomplete last batch', [(DT, "return len(self.y) // self.batach_size", "return (len(self.y) + self.batach_size - 1) // self.batach_size")], rules=['C18.BATCH'])
mut('c18-iter-no-reset', ['C18'], '__iter__ does not restart', [(DT, "    def __iter__(self):\n        self.step = 0\n        return self", "    def __iter__(self):\n        return self")], rules=['C18.BATCH'])
mut('c18-next-le', ['C18'], '__next__ yields one batch past the end', [(DT, "if self.step < self.__len__():", "if self.step <= self.__len__():")], rules=['C18.BATCH'])
mut('c18-onehot-unsorted', ['C18'], 'label order taken from first occurrence', [(DT, "uniques = list(np.unique(y))", "uniques = list(dict.fromkeys(list(y)))")], rules=['C18.ONEHOT'])
mut('c18-twin-end-from-start', ['C18'], 'end written as start + batch_size', [(DT, "end = (idx*self.batach_size) + self.batach_size", "end = start + self.batach_size")], expect='silent')

# ------------------------------------------------------------------------------------------------ C19
mut('c19-dropout-default-rng', ['C19', 'C13'], 'Dropout draws its mask from an unseeded Generator', [(LY, "random_data = np.random.rand(*x.shape)", "random_data = np.random.default_rng().random(x.shape)")], rules=['C19.SOURCE', 'C13'])
mut('c19-uniform-randomstate', ['C19', 'C15'], 'uniform_ uses a private RandomState', [(IN, "tensor.data = np.random.uniform(a, b, tensor.shape).astype(tensor.dtype)", "tensor.data = np.random.RandomState().uniform(a, b, tensor.shape).astype(tensor.dtype)")], rules=['C19.SOURCE', 'C15'])
mut('c19-seed-numpy-only', ['C19'], 'manual_seed no longer seeds Python\'s random', [(U, "    np.random.seed(seed)\n    random.seed(seed)", "    np.random.seed(seed)")], rules=['C19.SEED'])
mut('c19-seed-constant', ['C19'], 'manual_seed seeds NumPy with a constant', [(U, "np.random.seed(seed)", "np.random.seed(0)")], rules=['C19.SEED'])
mut('c19-sweep-over-visited-set', ['C19', 'C03'], 'backward sweeps the visited set instead of the order list', [(T, "enumerate(reversed(ordered_nodes))", "enumerate(visited_nodes)")], rules=['C19.ORDER', 'C03.TOPO'], accept_incomplete=True)
mut('c19-split-python-time-seed', ['C19'], 'split shuffle reseeds from the clock', [(DT, "            np.random.shuffle(indices)", "            import time; np.random.seed(int(time.time())); np.random.shuffle(indices)")], rules=['C19.SOURCE', 'C18'])
mut('c19-id-ordering', ['C19'], 'parameters() sorted by object address', [(M, "        return unique_params", "        return sorted(unique_params, key=lambda p: id(p))")], rules=['C19.NOADDR'])
mut('c19-parameters-via-set', ['C19', 'C12'], 'parameters() de-duplicated through a set of tensors', [(M, "        return unique_params", "        return list(set(unique_params))")], rules=['C19.ORDER', 'C12'], accept_incomplete=True)

mut('c02-bn-dvar-unscaled', ['C02'], 'batch_norm_backward: the variance term is built from the raw upstream gradient instead of the gamma-scaled one (wrong whenever gamma != 1)',
    [(K, "dL_dvar = (-0.5 * dL_dxi_hat * (x - mean))", "dL_dvar = (-0.5 * grad * (x - mean))")], rules=['C02.HOMOG'])
mut('c01-matmul-grad-a-wrong-operand', ['C01', 'C02'], 'matmul_backward: grad_a is computed with a instead of b (shape-compatible for square operands)',
    [(K, "grad_a = grad @ np.swapaxes(b, -2, -1)", "grad_a = grad @ np.swapaxes(a, -2, -1)")], rules=['C01.HOMOG', 'C02.HOMOG', 'C01.DEP', 'C02.DEP', 'C01', 'C02'])
# ------------------------------------------------------------------------------------------------ C20
mut('c20-step-before-backward', ['C20'], 'optimizer.step() before backward()', [(TR, "            train_loss.backward()\n            self.optimizer.step()", "            self.optimizer.step()\n            train_loss.backward()")], rules=['C20.STEP'])
mut('c20-zero-grad-after-backward', ['C20'], 'zero_grad() after backward() (every step uses zero gradients)', [(TR, "            self.optimizer.zero_grad()\n            train_loss.backward()", "            train_loss.backward()\n            self.optimizer.zero_grad()")], rules=['C20.STEP'])
mut('c20-step-every-other-batch', ['C20'], 'step only on even batches', [(TR, "            self.optimizer.step()\n", "            if i % 2 == 0: self.optimizer.step()\n")], rules=['C20.STEP'])
mut('c20-validation-outside-no-grad', ['C20'], 'validation loop outside no_grad', [(TR, "        with self.engine.no_grad():\n            for i, data in enumerate(validation_loader):", "        if True:\n            for i, data in enumerate(validation_loader):")], rules=['C20.EVAL'])
mut('c20-validate-no-eval', ['C20'], '__validate does not switch to eval mode', [(TR, "        \"\"\" Validate model with validation data \"\"\"\n        self.model.eval()\n", "        \"\"\" Validate model with validation data \"\"\"\n")], rules=['C20.EVAL'])
mut('c20-train-mode-missing', ['C20'], 'no model.train() before the batch loop (second epoch trains in eval mode)', [(TR, "        \"\"\" Train model for one epoch \"\"\"\n        self.model.train()\n", "        \"\"\" Train model for one epoch \"\"\"\n"), (TR, "            ############ TRAIN ############\n            self.model.train()\n", "            ############ TRAIN ############\n")], rules=['C20.TRAINMODE'])
mut('c20-val-prefix-missing', ['C20'], 'validation metrics recorded without the val_ prefix', [(TR, "self.evaluator.compute(prefix='val')", "self.evaluator.compute()")], rules=['C20.HISTORY'])
mut('c20-loss-sum-not-mean', ['C20'], 'epoch loss is the sum of batch losses', [(TR, "        train_loss = epoch_train_loss / (i + 1)", "        train_loss = epoch_train_loss / 1")], rules=['C20.HISTORY'])
mut('c20-history-only-last-epoch', ['C20'], 'history re-created every epoch', [(TR, "            ############ TRAIN ############\n", "            ############ TRAIN ############\n            self.history = {}\n")], rules=['C20.HISTORY'], accept_incomplete=True)
mut('c20-evaluator-default-mode', ['C20'], 'unknown evaluator mode treated as categorical', [(TR, "        elif self.mode == self.CATEGORICAL:\n            y_pred = np.argmax(outputs_numpy, axis=1)\n            y_true = np.argmax(labels_numpy, axis=1)\n        else:\n            raise RuntimeError(f\"Evaluator: mode '{self.mode}' is not valid\")", "        else:\n            y_pred = np.argmax(outputs_numpy, axis=1)\n            y_true = np.argmax(labels_numpy, axis=1)")], rules=['C20.EVALUATOR'])
mut('c20-train-twice-per-epoch', ['C20'], 'warm-up: first epoch trains twice', [(TR, "            train_metrics = self.__train(train_loader, kbar)\n", "            if epoch == 0: self.__train(train_loader, kbar)\n            train_metrics = self.__train(train_loader, kbar)\n")], rules=['C20.STEP'])

# ------------------------------------------------------------------------------------------------ C13
mut('c13-dropout-scale-1-over-p', ['C13'], 'Dropout scales survivors by 1/p', [(LY, "random_data = random_data / (1-self.p) # scale data", "random_data = random_data / self.p # scale data")], rules=['C13.DROP-TRAIN'], accept_incomplete=True)
mut('c13-dropout-keep-prob-p', ['C13'], 'Dropout keeps elements with probability p (mask inverted)', [(LY, "np.where(random_data <= self.p, 0, 1)", "np.where(random_data <= self.p, 1, 0)")], rules=['C13.DROP-TRAIN'])
mut('c13-dropout-eval-draws', ['C13'], 'Dropout draws (and consumes RNG state) before the eval check', [(LY, "        if not self.training: return x\n        random_data = np.random.rand(*x.shape)", "        random_data = np.random.rand(*x.shape)\n        if not self.training: return x")], rules=['C13.DROP-EVAL'])
mut('c13-dropout-eval-scaled', ['C13'], 'Dropout scales the input in eval mode', [(LY, "        if not self.training: return x\n", "        if not self.training: return x * (1 - self.p)\n")], rules=['C13.DROP-EVAL'])
mut('c13-dropout-two-draws', ['C13'], 'Dropout mixes two independent draws', [(LY, "random_data = np.random.rand(*x.shape)\n", "random_data = np.random.rand(*x.shape) * np.random.rand(*x.shape)\n")], rules=['C13.DROP-TRAIN'])
mut('c13-bn-counter-in-eval', ['C13'], 'num_batches_tracked advances in eval mode too', [(LY, "        if self.training and self.track_running_stats:\n            if self.num_batches_tracked is not None:", "        if self.track_running_stats:\n            if self.num_batches_tracked is not None:")], rules=['C13.BN-ONCE'])
mut('c13-bn-update-in-eval', ['C13'], 'kernel updates the running mean whenever the buffer exists (also in eval)', [(K, "    if running_mean is not None and training:\n        running_mean = mean * momentum", "    if running_mean is not None:\n        running_mean = mean * momentum")], rules=['C13.BN-CHOICE', 'C13.BN-UPDATE'])
mut('c13-bn-eval-uses-batch-stats', ['C13'], 'layer passes bn_training=True whenever tracking is on', [(LY, "            bn_training = (self.running_mean is None) and (self.running_var is None)", "            bn_training = self.track_running_stats")], rules=['C13.BN-CHOICE'])
mut('c13-bn-biased-running-var', ['C13'], 'running variance updated with the biased variance', [(K, "unbiased_var = var * (n / (n - 1))", "unbiased_var = var")], rules=['C13.BN-UPDATE'])
mut('c13-bn-momentum-swapped', ['C13'], 'moving average weights swapped', [(K, "running_mean = mean * momentum + running_mean * (1 - momentum)", "running_mean = mean * (1 - momentum) + running_mean * momentum")], rules=['C13.BN-UPDATE'])
mut('c13-bn-cma-before-increment', ['C13'], 'cumulative average factor read before the counter is incremented (first batch weighted 1, second 1, third 1/2 ...)',
    [(LY, """                self.num_batches_tracked += 1
                if self.momentum is None:  # use cumulative moving average
                    exponential_average_factor = 1.0 / float(self.num_batches_tracked)
                else:  # use exponential moving average
                    exponential_average_factor = self.momentum
""", """                if self.momentum is None:  # use cumulative moving average
                    exponential_average_factor = 1.0 / float(max(self.num_batches_tracked, 1))
                else:  # use exponential moving average
                    exponential_average_factor = self.momentum
                self.num_batches_tracked += 1
""")], rules=['C13.BN-UPDATE'])
mut('c13-bn-writeback-swapped', ['C13'], 'wrapper writes the new running variance into running_mean', [(NF, "    if new_running_mean is not None: running_mean.data = new_running_mean\n    if new_running_var is not None: running_var.data = new_running_var", "    if new_running_mean is not None: running_mean.data = new_running_var\n    if new_running_var is not None: running_var.data = new_running_mean")], rules=['C13.BN-UPDATE'])
mut('c13-twin-dropout-gt', ['C13'], 'mask written as np.where(draw > p, 1, 0)', [(LY, "np.where(random_data <= self.p, 0, 1)", "np.where(random_data > self.p, 1, 0)")], expect='silent')
mut('c13-twin-bn-update-reassoc', ['C13'], 'running mean update re-associated', [(K, "running_mean = mean * momentum + running_mean * (1 - momentum)", "running_mean = running_mean + momentum * (mean - running_mean)")], expect='silent')

# ------------------------------------------------------------------------------------------------ AXIS typestate (C01 / C05)
mut('c01-mean-tuple-axes (revert of fix)', ['C01'], 'mean_backward tests `i in axis` on raw tuple dims',
    [(K, "    if isinstance(axis, int): axis = [axis]\n    axis = [ax + len(a_shape) if ax < 0 else ax for ax in axis]\n", "    if isinstance(axis, int): \n        if axis < 0: axis = len(a_shape) + axis\n        axis = [axis]\n")], rules=['C01.AXIS'])
mut('c01-unbind-no-normalise', ['C01'], 'unbind_backward compares positions with a raw negative axis', [(K, "    if axis < 0: axis = len(a_shape) + axis\n    axes = tuple(", "    axes = tuple(")], rules=['C01.AXIS'])
mut('c05-flatten-raw-dims (revert of fix)', ['C05'], 'flatten special-cases -1 and order-compares raw dims',
    [(F, "    start = start_dim + ndim if start_dim < 0 else start_dim\n    end = end_dim + ndim if end_dim < 0 else end_dim\n", "    start = start_dim if start_dim != -1 else len(shape)\n    end = end_dim if end_dim != -1 else len(shape)\n")], rules=['C05.AXIS'])
mut('c05-squeeze-tuple-subscript (revert of fix)', ['C05'], 'squeeze_forward subscripts the shape with a tuple dim',
    [(K, "    if isinstance(axis, (tuple, list)):\n        axis = tuple(ax for ax in axis if a.shape[ax] == 1)\n    can_apply = len(a.shape) > 0 and (axis is None or isinstance(axis, tuple) or a.shape[axis] == 1)", "    can_apply = len(a.shape) > 0 and (axis is None or a.shape[axis] == 1)")], rules=['C05.AXIS'])
mut('c01-unfold-dim-wrapper-no-normalise', ['C01'], 'unfold_dim wrapper no longer normalises a negative dimension (kernel builds [slice]*(dimension+1))',
    [(F, "    if dimension < 0:\n        dimension += x.ndim\n", "")], rules=['C01.AXIS'])
mut('c01-twin-axis-modulo', ['C01'], 'unbind_backward normalises with %', [(K, "    if axis < 0: axis = len(a_shape) + axis\n", "    axis = axis % len(a_shape)\n")], expect='silent')

# ------------------------------------------------------------------------------------------------ C09
mut('c09-bce-logits-shift-sign (revert of fix)', ['C09'], 'BCE-with-logits shifts by -relu(x): exp(relu(x)) overflows', [(K, "    tn = relu_forward(-y_pred)\n    loss = ", "    tn = -relu_forward(y_pred)\n    loss = ")], rules=['C09.HAZARD'])
mut('c09-selu-backward-exp (revert of fix)', ['C09'], 'selu_backward evaluates exp(a) on the positive branch (inf * 0)', [(K, "alpha * np.exp(np.minimum(a, 0)) * (a <= 0)", "alpha * np.exp(a) * (a <= 0)")], rules=['C09.HAZARD'])
mut('c09-ce-eps-log (revert of fix)', ['C09'], 'cross entropy = nll(log(softmax + epsilon))', [(K, "    log_softmax = log_softmax_forward(y_pred, 1)\n    log_likelihood = nll_loss_forward(log_softmax, y_true)", "    log_softmax = np.log(softmax_forward(y_pred, 1) + epsilon)\n    log_likelihood = nll_loss_forward(log_softmax, y_true)")], rules=['C09.EPSCLIP'])
mut('c09-log-softmax-backward-eps', ['C09'], 'log_softmax_backward divides by (softmax + epsilon)', [(K, "    a_grad = grad - softmax * grad.sum(axis=axis, keepdims=True)\n", "    a_grad = (grad / (softmax + epsilon) - grad.sum(axis=axis, keepdims=True)) * softmax\n")], rules=['C09.EPSCLIP'])
mut('c09-softmax-no-shift', ['C09'], 'softmax_forward without the max shift', [(K, "    shiftx = a - a.max(axis=axis, keepdims=True) \n", "    shiftx = a\n")], rules=['C09.HAZARD'])
mut('c09-softmax-global-max', ['C09'], 'softmax_forward shifts by the global maximum (rows far below it underflow to 0/0)', [(K, "shiftx = a - a.max(axis=axis, keepdims=True)", "shiftx = a - a.max()")], rules=['C09.HAZARD'])
mut('c09-log-softmax-unshifted-lse', ['C09'], 'log_softmax computes log(sum(exp(a))) without the shift', [(K, "    exp = np.exp(substract)\n", "    exp = np.exp(a)\n")], rules=['C09.HAZARD'])
mut('c09-sigmoid-exp-ratio', ['C09'], 'sigmoid written as exp(a) / (1 + exp(a)) (inf / inf)', [(K, "return 1/(1 + np.exp(-a))", "return np.exp(a)/(1 + np.exp(a))")], rules=['C09.HAZARD'])
mut('c09-selu-forward-unclamped', ['C09'], 'selu_forward without the minimum clamp on the exp branch', [(K, "np.minimum(0, alpha * (np.exp(a) - 1))", "(a <= 0) * alpha * (np.exp(a) - 1)")], rules=['C09.HAZARD'])
mut('c09-tanh-via-exp', ['C09'], 'tanh computed from exp(2a)', [(K, "return np.tanh(a)", "return (np.exp(2*a) - 1) / (np.exp(2*a) + 1)")], rules=['C09.HAZARD'])
mut('c09-twin-softmax-temp', ['C09'], 'softmax shift through a temporary', [(K, "    shiftx = a - a.max(axis=axis, keepdims=True) \n", "    m = a.max(axis=axis, keepdims=True)\n    shiftx = a - m\n")], expect='silent')
mut('c09-twin-bce-logits-maximum', ['C09'], 'BCE-with-logits shift written with np.maximum', [(K, "    tn = relu_forward(-y_pred)\n    loss = ", "    tn = np.maximum(-y_pred, 0)\n    loss = ")], expect='silent')

# ------------------------------------------------------------------------------------------------ C05
mut('c05-iter-returns-self (revert of fix)', ['C05'], 'Tensor.__iter__ returns self with a cursor on the instance', [(T, "    def __iter__(self):\n        for idx in range(len(self)):\n            yield self[idx]\n", "    def __iter__(self):\n        self._current_idx = 0\n        return self\n")], rules=['C05.ITER'])
mut('c05-rsub-wrong-order', ['C05', 'C14'], '__rsub__ computes self - other', [(T, "        return other + (-self)", "        return self + (-other)")], rules=['C05.OPERATORS', 'C14'])
mut('c05-rtruediv-wrong-order', ['C05', 'C14'], '__rtruediv__ computes self / other', [(T, "        return other * self**-1", "        return self * other**-1")], rules=['C05.OPERATORS', 'C14'])
mut('c05-rmatmul-wrong-order', ['C05'], '__rmatmul__ multiplies in the wrong order', [(T, "        return F.matmul(tensor, self)", "        return F.matmul(self, tensor)")], rules=['C05.OPERATORS'])
mut('c05-movedim-forward-swapped', ['C05'], 'movedim_forward hands (destination, source) to np.moveaxis', [(K, "def movedim_forward(a:np.ndarray, source:int, destination:int):\n    return np.moveaxis(a, source, destination)", "def movedim_forward(a:np.ndarray, source:int, destination:int):\n    return np.moveaxis(a, destination, source)")], rules=['C05.DELEGATE'])
mut('c05-tensor-movedim-swapped', ['C05'], 'Tensor.movedim forwards (destination, source)', [(T, "    def movedim(self, source, destination) -> 'Tensor':\n        return F.movedim(self, source, destination)", "    def movedim(self, source, destination) -> 'Tensor':\n        return F.movedim(self, destination, source)")], rules=['C05.DELEGATE'])
mut('c05-sum-ignores-keepdims', ['C05'], 'sum_forward ignores keepdims', [(K, "    return np.sum(a, axis=axis, keepdims=keepdims)", "    return np.sum(a, axis=axis)")], rules=['C05.DELEGATE'])
mut('c05-unfold-check-after-call', ['C05'], 'unfold_dim validates size/step after the kernel call', [(F, "    # check that the size and step are positive integers\n    if not isinstance(size, int) or size <= 0:\n        raise ValueError(f\"Invalid size: {size}\")\n    if not isinstance(step, int) or step <= 0:\n        raise ValueError(f\"Invalid step: {step}\")\n    \n    if x.device == Device.CPU:\n        out_data = cpu_ops.unfold_dim_forward(x.data, dimension, size, step)\n    else:\n        raise RuntimeError(f\"{x.device} not supported\")\n",
      "    if x.device == Device.CPU:\n        out_data = cpu_ops.unfold_dim_forward(x.data, dimension, size, step)\n    else:\n        raise RuntimeError(f\"{x.device} not supported\")\n    # check that the size and step are positive integers\n    if not isinstance(size, int) or size <= 0:\n        raise ValueError(f\"Invalid size: {size}\")\n    if not isinstance(step, int) or step <= 0:\n        raise ValueError(f\"Invalid step: {step}\")\n")], rules=['C05.REJECT'])
mut('c05-matmul-1d-accepted', ['C05'], 'matmul accepts 1-D operands (guard weakened to `and`)', [(F, "if x1.ndim < 2 or x2.ndim < 2:", "if x1.ndim < 2 and x2.ndim < 2:")], rules=['C05.REJECT'])
mut('c05-flatten-fallback', ['C05'], 'flatten returns the input for start > end instead of raising', [(F, "    if start > end:\n        raise RuntimeError(\"flatten() has invalid args: start_dim cannot come after end_dim\")", "    if start > end:\n        return x")], rules=['C05.REJECT'])
mut('c05-zeros-drops-dtype', ['C05'], 'zeros() ignores dtype', [(T, "    return Tensor(np.zeros(shape, dtype=default_type__), dtype=dtype, requires_grad=requires_grad, name=name, device=device)", "    return Tensor(np.zeros(shape, dtype=default_type__), requires_grad=requires_grad, name=name, device=device)")], rules=['C05.CTOR'])
mut('c05-ones-like-loses-dtype', ['C05'], 'ones_like builds its data from the shape only', [(T, "    return Tensor(np.ones_like(tensor.data), dtype=dtype,", "    return Tensor(np.ones(tensor.shape), dtype=dtype,")], rules=['C05.CTOR'])
mut('c05-twin-neg-via-F', ['C05'], '__neg__ through F.neg', [(T, "        return self * -1.0", "        return F.neg(self)")], expect='silent')
mut('c05-twin-sub-mul', ['C05'], '__sub__ written as self + other * -1.0', [(T, "        return self + (-other)", "        return self + other * -1.0")], expect='silent')

# ------------------------------------------------------------------------------------------------ C06 / C16
mut('c06-im2col-int-kernel (revert of fix)', ['C06', 'C16'], 'im2col_fast subscripts an int kernel_size', [(CT, "    N, C, H, W = a.shape\n    kernel_size = np.broadcast_to(kernel_size, 2)\n    \n    windows = extract_windows(", "    N, C, H, W = a.shape\n    \n    windows = extract_windows(")], rules=['C06.GEOM', 'C16.GEOM'])
mut('c06-outsize-dilation-k', ['C06', 'C16'], 'get_conv2d_output_size uses dilation*k instead of dilation*(k-1)', [(CT, "lH = int(np.floor((H_with_pad - dilation[0] * (kernel_size[0] - 1) - 1) / stride[0] + 1))\n    lW = int(np.floor((W_with_pad - dilation[1] * (kernel_size[1] - 1) - 1) / stride[1] + 1))\n    \n    return lH, lW", "lH = int(np.floor((H_with_pad - dilation[0] * kernel_size[0] - 1) / stride[0] + 1))\n    lW = int(np.floor((W_with_pad - dilation[1] * (kernel_size[1] - 1) - 1) / stride[1] + 1))\n    \n    return lH, lW")], rules=['C06.OUTSIZE', 'C16.OUTSIZE'])
mut('c06-outsize-ceil', ['C06', 'C16'], 'conv1d output size rounds up', [(CT, "num_windows = int(np.floor((length_padded - dilation * (kernel_size - 1) - 1) / stride + 1).item())", "num_windows = int(np.ceil((length_padded - dilation * (kernel_size - 1) - 1) / stride + 1).item())")], rules=['C06.OUTSIZE', 'C16.OUTSIZE'], accept_incomplete=True)
mut('c06-outsize-single-pad', ['C06', 'C16'], 'padding counted once in the 1d output size', [(CT, "length_padded = input_length + 2 * padding", "length_padded = input_length + padding")], rules=['C06.OUTSIZE', 'C16.OUTSIZE'])
mut('c06-extract-windows-size', ['C06', 'C16'], 'extract_windows counts windows with ceil-like arithmetic', [(CT, "out_shape = tuple((in_shape - ((kernel_size - 1) * dilation + 1)) // step + 1)", "out_shape = tuple((in_shape - ((kernel_size - 1) * dilation + 1) + step - 1) // step + 1)")], rules=['C06.OUTSIZE', 'C16.OUTSIZE'])
mut('c06-maxpool-zero-pad', ['C06'], 'max pooling pads with 0 (padding can win for negative inputs)', [(K, "def max_pool2d_forward(a, kernel_size, stride, padding, dilation):\n    windows = extract_windows(a, kernel_size, stride, padding, dilation, pad_value=-np.inf)", "def max_pool2d_forward(a, kernel_size, stride, padding, dilation):\n    windows = extract_windows(a, kernel_size, stride, padding, dilation, pad_value=0)")], rules=['C06.PAD'])
mut('c06-avgpool-stride-dilation-swapped', ['C06'], 'avg_pool1d_forward passes (dilation, padding, stride) to extract_windows', [(K, "def avg_pool1d_forward(a, kernel_size, stride, padding, dilation):\n    windows = extract_windows(a, kernel_size, stride, padding, dilation, pad_value=0)", "def avg_pool1d_forward(a, kernel_size, stride, padding, dilation):\n    windows = extract_windows(a, kernel_size, dilation, padding, stride, pad_value=0)")], rules=['C06.PAD', 'C02'])
mut('c06-bn-eps-outside', ['C06'], 'batch norm adds eps outside the square root', [(K, "    std = np.sqrt(var + eps)\n    \n    x_norm", "    std = np.sqrt(var) + eps\n    \n    x_norm")], rules=['C06.BN'])
mut('c06-reduction-silent (revert of fix)', ['C06'], 'unknown reduction silently returns the unreduced loss', [(LS, "        elif self.reduction is None or self.reduction == 'none':\n            reduction = loss \n        else:\n            raise ValueError(f\"'{self.reduction}' is not a valid value for reduction ('mean', 'sum', 'none')\")", "        else:\n            reduction = loss ")], rules=['C06.ENUM'])
mut('c06-reduction-mean-is-sum', ['C06'], 'mean reduction sums', [(LS, "            reduction = loss.mean()", "            reduction = loss.sum()")], rules=['C06.ENUM'])
mut('c06-conv2d-layer-swaps-padding-dilation', ['C06'], 'Conv2d.forward passes dilation as padding', [(LY, "return F.conv2d(x, self.weight, self.bias, self.stride, self.padding, self.dilation)", "return F.conv2d(x, self.weight, self.bias, self.stride, self.dilation, self.padding)")], rules=['C06.LAYER-PLUMB'])
mut('c06-fold-layer-positional', ['C06'], 'Fold.forward passes stride/dilation positionally in the wrong slots', [(LY, "        return F.fold(x, output_size=self.output_size, kernel_size=self.kernel_size, stride=self.stride,\n                      padding=self.padding, dilation=self.dilation)", "        return F.fold(x, self.output_size, self.kernel_size, self.stride, self.dilation, self.padding)")], rules=['C06.LAYER-PLUMB'])
mut('c06-maxpool2d-stride-default', ['C06'], 'MaxPool2d default stride is 1', [(LY, "        kernel_size = np.broadcast_to(kernel_size, 2)\n        if stride is None: stride = kernel_size\n        else: stride = np.broadcast_to(stride, 2)\n        padding = np.broadcast_to(padding, 2)\n        dilation = np.broadcast_to(dilation, 2)\n        \n        self.kernel_size = kernel_size\n        self.stride = stride\n        self.padding = padding\n        self.dilation = dilation\n        \n    def forward(self, x: Tensor) -> Tensor: \n        return F.max_pool2d(", "        kernel_size = np.broadcast_to(kernel_size, 2)\n        if stride is None: stride = np.broadcast_to(1, 2)\n        else: stride = np.broadcast_to(stride, 2)\n        padding = np.broadcast_to(padding, 2)\n        dilation = np.broadcast_to(dilation, 2)\n        \n        self.kernel_size = kernel_size\n        self.stride = stride\n        self.padding = padding\n        self.dilation = dilation\n        \n    def forward(self, x: Tensor) -> Tensor: \n        return F.max_pool2d(")], rules=['C06.LAYER-GEOM'])
mut('c16-col2im-overwrite', ['C16'], 'col2im_v2 overwrites overlapping windows', [(CT, "output[:, :, h_start:h_end:h_step, w_start:w_end:w_step] = o + window", "output[:, :, h_start:h_end:h_step, w_start:w_end:w_step] = window")], rules=['C16.ACCUMULATE'])
mut('c16-col2im-index-stride-dilation', ['C16'], 'col2im computes its indices with stride and dilation swapped', [(CT, "col_indices = get_im2col_indices((N, C, H, W), kernel_size=kernel_size, dilation=dilation, padding=padding, stride=stride)", "col_indices = get_im2col_indices((N, C, H, W), kernel_size=kernel_size, dilation=stride, padding=padding, stride=dilation)")], rules=['C16.PAIR-INDEX'])
# a window end of start + k*d selects the same k rows as start + (k-1)*d + 1 (Python slicing): the old text rule alarmed on it, the evaluated rule must not
mut('c16-twin-v2-window-end-kd', ['C16'], 'col2im_v2 window end written as start + k*d (same k rows selected)', [(CT, "            h_end = i * stride[0] + kernel_size[0] + (dilation[0] - 1) * (kernel_size[0] - 1)\n            h_step = dilation[0]\n            w_start = j * stride[1]", "            h_end = i * stride[0] + kernel_size[0] + (dilation[0] - 1) * kernel_size[0]\n            h_step = dilation[0]\n            w_start = j * stride[1]")], expect='silent')
mut('c16-v2-window-end', ['C16'], 'col2im_v2 window end one dilation step short (last kernel row dropped)', [(CT, "            h_end = i * stride[0] + kernel_size[0] + (dilation[0] - 1) * (kernel_size[0] - 1)\n            h_step = dilation[0]\n            w_start = j * stride[1]", "            h_end = i * stride[0] + kernel_size[0] + (dilation[0] - 1) * (kernel_size[0] - 1) - dilation[0]\n            h_step = dilation[0]\n            w_start = j * stride[1]")], rules=['C16.PAIR-SLICE'])
mut('c16-v2-column-index', ['C16'], 'im2col_v2 writes window (i, j) into column j*lH + i', [(CT, "output[:, :, i*lW + j] = window.ravel().reshape(output[:, :, i*lW + j].shape)", "output[:, :, j*lH + i] = window.ravel().reshape(output[:, :, j*lH + i].shape)")], rules=['C16.PAIR-SLICE'])
mut('c16-fast-stride-as-dilation', ['C16'], 'col2im_fast hands (dilation, padding, stride) to place_windows', [(CT, "output = place_windows(windows, output_shape, kernel_size, stride, padding, dilation)", "output = place_windows(windows, output_shape, kernel_size, dilation, padding, stride)")], rules=['C16.PAIR-FAST'])
mut('c16-crop-asymmetric', ['C16'], 'col2im crops p+1 on the left', [(CT, "        output = output[:, :, padding[0]:H_with_pad-padding[0], padding[1]:W_with_pad-padding[1]]\n\n    out = output if not return_indices", "        output = output[:, :, padding[0]+1:H_with_pad-padding[0]+1, padding[1]:W_with_pad-padding[1]]\n\n    out = output if not return_indices")], rules=['C16.PADCROP'])
mut('c16-im2col-pad-value-dropped', ['C16'], 'im2col ignores pad_value', [(CT, "        a, ((0, 0), (0, 0)) + tuple((padding[d], padding[d]) for d in range(2)),\n        mode='constant', constant_values=pad_value)\n    \n    if col_indices is None:", "        a, ((0, 0), (0, 0)) + tuple((padding[d], padding[d]) for d in range(2)),\n        mode='constant', constant_values=0)\n    \n    if col_indices is None:")], rules=['C16.PADCROP'])
mut('c16-layout-wrong-perm', ['C16'], 'im2col_v2 2-D layout uses transpose(1, 0, 2)', [(CT, "        output = output.transpose(1, 2, 0).reshape(kernel_size[0] * kernel_size[1] * C, -1)\n            \n    return output", "        output = output.transpose(1, 0, 2).reshape(kernel_size[0] * kernel_size[1] * C, -1)\n            \n    return output")], rules=['C16.LAYOUT2D'])
mut('c16-empty-guard-dropped', ['C16', 'C06'], 'im2col_v2 no longer rejects an empty output', [(CT, "    if L <= 0:\n        raise RuntimeError('Cannot unfold a tensor", "    if L < -10**9:\n        raise RuntimeError('Cannot unfold a tensor")], rules=['C16.EMPTY', 'C06.EMPTY'])
mut('c16-twin-outsize-floordiv', ['C16', 'C06'], 'conv2d output size written with //', [(CT, "lW = int(np.floor((W_with_pad - dilation[1] * (kernel_size[1] - 1) - 1) / stride[1] + 1))\n    \n    return lH, lW", "lW = (W + 2 * padding[1] - dilation[1] * (kernel_size[1] - 1) - 1) // stride[1] + 1\n    \n    return lH, lW")], expect='silent')

# ------------------------------------------------------------------------------------------------ C14
mut('c14-ce-eps (revert of fix)', ['C14'], 'cross entropy composes NLL with log(softmax + eps), not log_softmax', [(K, "    log_softmax = log_softmax_forward(y_pred, 1)\n    log_likelihood = nll_loss_forward(log_softmax, y_true)", "    log_softmax = np.log(softmax_forward(y_pred, 1) + epsilon)\n    log_likelihood = nll_loss_forward(log_softmax, y_true)")], rules=['C14.EXPLOG'])
mut('c14-addmm-order', ['C14'], 'addmm_forward computes a + c @ b', [(K, "    return a + (b @ c)", "    return a + (c @ b)")], rules=['C14.TREE'])
mut('c14-neuron-two-outputs', ['C14'], 'Neuron builds a Linear with 2 outputs', [(LY, "super().__init__(in_features, 1, bias=bias)", "super().__init__(in_features, 2, bias=bias)")], rules=['C14.TREE'])
mut('c14-mean-backward-no-division', ['C14', 'C01'], 'mean_backward forgets to divide by the count', [(K, "    return out_grad / n_samples", "    return out_grad")], rules=['C14.TREE', 'C01.REDUCE'])
mut('c14-avgpool-uses-max-backward', ['C14', 'C02'], 'avg_pool2d_backward routes the gradient through max_backward', [(K, "    windows_grad = mean_backward(grad, windows.reshape(*windows.shape[:-2], -1).shape, -1, False)\n    windows_grad = windows_grad.reshape(windows.shape)", "    windows_grad = max_backward(grad, windows.reshape(*windows.shape[:-2], -1), -1, False)\n    windows_grad = windows_grad.reshape(windows.shape)")], rules=['C14.TREE', 'C02.POOLPAIR'])
mut('c14-stack-backward-other-axis', ['C14'], 'stack_backward unbinds along axis 0', [(K, "    return unbind_forward(grad, axis)", "    return unbind_forward(grad, 0)")], rules=['C14.TREE'])
mut('c14-linear-untransposed', ['C14', 'C02'], 'linear multiplies by W instead of W.T in the bias branch', [(NF, "out_data = cpu_ops.addmm_forward(bias.data, x.data, weight.data.T)", "out_data = cpu_ops.addmm_forward(bias.data, x.data, weight.data)")], rules=['C14.TREE', 'C02.SAVED'])

# ------------------------------------------------------------------------------------------------ DERIV (C01 / C02)
mut('c01-sqrt-missing-half', ['C01'], 'sqrt_backward returns grad / sqrt(a) (factor 1/2 lost; linear, right shape)', [(K, "return grad / (2 * sqrt_a)", "return grad / sqrt_a")], rules=['C01.DERIV'])
mut('c01-pow-exponent', ['C01'], 'pow_backward uses a**n instead of a**(n-1)', [(K, "return n * (a ** (n - 1)) * grad", "return n * (a ** n) * grad")], rules=['C01.DERIV'])
mut('c01-log-no-epsilon', ['C01'], 'log_backward differentiates log(a) while the forward computes log(a + epsilon)', [(K, "return grad / (a + epsilon)", "return grad / a")], rules=['C01.DERIV'])
mut('c01-rpow-missing-log', ['C01'], 'rpow_backward omits log(n)', [(K, "return (exp_n_a * np.log(n)) * grad", "return exp_n_a * grad")], rules=['C01.DERIV', 'C01.DEP'])
mut('c01-mul-same-operand', ['C01'], 'mul_backward multiplies both slots by b', [(K, "    grad_b = grad * a\n    return unbroadcast(grad_a, a.shape), unbroadcast(grad_b, b.shape)\n\n\ndef matmul_forward", "    grad_b = grad * b\n    return unbroadcast(grad_a, a.shape), unbroadcast(grad_b, b.shape)\n\n\ndef matmul_forward")], rules=['C01.DERIV', 'C01.DEP'])
mut('c02-tanh-not-squared', ['C02'], 'tanh_backward uses 1 - tanh(a)', [(K, "return grad * (1 - tanh_a**2)", "return grad * (1 - tanh_a)")], rules=['C02.DERIV'])
mut('c02-sigmoid-missing-factor', ['C02'], 'sigmoid_backward drops (1 - s)', [(K, "return grad * sigmoid_a * (1 - sigmoid_a)", "return grad * sigmoid_a")], rules=['C02.DERIV'])
mut('c02-mse-no-factor-2', ['C02'], 'mse_loss_backward drops the factor 2', [(K, "return grad * 2 * (y_pred - y_true)", "return grad * (y_pred - y_true)")], rules=['C02.DERIV'])
mut('c01-twin-sqrt-half', ['C01'], 'sqrt_backward written as 0.5 * grad / sqrt_a', [(K, "return grad / (2 * sqrt_a)", "return 0.5 * grad / sqrt_a")], expect='silent')
mut('c02-twin-sigmoid-expanded', ['C02'], 'sigmoid_backward written as grad * (s - s**2)', [(K, "return grad * sigmoid_a * (1 - sigmoid_a)", "return grad * (sigmoid_a - sigmoid_a**2)")], expect='silent')
mut('c02-twin-sigmoid-forward-form', ['C02'], 'sigmoid_forward written as exp(a)/(1+exp(a))-free form 1/(1+exp(-a)) with a temporary', [(K, "    return 1/(1 + np.exp(-a))", "    e = np.exp(-a)\n    return 1/(1 + e)")], expect='silent')

# ------------------------------------------------------------------------------------------------ DEFN / EXPLOG (exp-log term identities)
mut('defn-softmax-unshifted-sum', ['C06', 'C09'], 'softmax divides the shifted exponentials by the UNshifted sum', [(K, "    exp_sums = exps.sum(axis=axis, keepdims=True)\n    return exps / exp_sums", "    exp_sums = np.exp(a).sum(axis=axis, keepdims=True)\n    return exps / exp_sums")], rules=['C06.DEFN', 'C09.DEFN', 'C14.EXPLOG'])
mut('defn-logsoftmax-max-not-restored', ['C06', 'C09', 'C14'], 'log_softmax forgets to add the subtracted maximum back to the log-sum-exp', [(K, "    lse = max_val + np.log(exp.sum(axis=axis, keepdims=True))", "    lse = np.log(exp.sum(axis=axis, keepdims=True))")], rules=['C06.DEFN', 'C09.DEFN', 'C14.EXPLOG'])
mut('defn-bce-logits-target-swapped', ['C06', 'C14'], 'BCE-with-logits weights the logit by y instead of (1 - y)', [(K, "    loss = (1-y_true) * y_pred + tn + np.log(np.exp(-tn) + np.exp((-y_pred-tn)))", "    loss = y_true * y_pred + tn + np.log(np.exp(-tn) + np.exp((-y_pred-tn)))")], rules=['C06.DEFN', 'C09.DEFN', 'C14.EXPLOG'])
mut('defn-bce-logits-shift-one-sided', ['C06', 'C09', 'C14'], 'BCE-with-logits shifts only one of the two exponentials', [(K, "    loss = (1-y_true) * y_pred + tn + np.log(np.exp(-tn) + np.exp((-y_pred-tn)))", "    loss = (1-y_true) * y_pred + tn + np.log(np.exp(-tn) + np.exp((-y_pred)))")], rules=['C06.DEFN', 'C09.DEFN', 'C14.EXPLOG'])
mut('defn-sigmoid-sign', ['C06', 'C09'], 'sigmoid written with exp(+a)', [(K, "    return 1/(1 + np.exp(-a))", "    return 1/(1 + np.exp(a))")], rules=['C06.DEFN', 'C09.DEFN', 'C14.EXPLOG'])
mut('defn-selu-alpha-outside', ['C06'], 'selu applies alpha outside the min', [(K, "    return scale * (np.maximum(0, a) + np.minimum(0, alpha * (np.exp(a) - 1)))", "    return scale * (np.maximum(0, a) + alpha * np.minimum(0, (np.exp(a) - 1)))")], rules=['C06.DEFN', 'C09.DEFN', 'C14.EXPLOG'])
mut('defn-mse-abs', ['C06'], 'mse computes |p - t| * (p - t) ... written as (p - t) * (p + t)', [(K, "    loss = (y_pred - y_true)**2\n    return loss", "    loss = (y_pred - y_true) * (y_pred + y_true)\n    return loss")], rules=['C06.DEFN', 'C09.DEFN', 'C14.EXPLOG'])
mut('defn-twin-softmax-respelled', ['C06', 'C09', 'C14'], 'softmax with the shift inlined and the quotient written as a product with the reciprocal', [(K, "    shiftx = a - a.max(axis=axis, keepdims=True) \n    exps = np.exp(shiftx)\n    exp_sums = exps.sum(axis=axis, keepdims=True)\n    return exps / exp_sums", "    m = np.max(a, axis=axis, keepdims=True)\n    exps = np.exp(a - m)\n    return exps * (1 / np.sum(exps, axis=axis, keepdims=True))")], expect='silent')
mut('defn-twin-logsoftmax-direct', ['C06', 'C09', 'C14'], 'log_softmax written as shifted input minus log of the shifted sum', [(K, "    lse = max_val + np.log(exp.sum(axis=axis, keepdims=True))\n    log_softmax = a - lse", "    log_softmax = substract - np.log(exp.sum(axis=axis, keepdims=True))")], expect='silent')
mut('defn-twin-bce-logits-softplus-form', ['C06', 'C14'], 'BCE-with-logits with the log-sum-exp factored the other way round', [(K, "    loss = (1-y_true) * y_pred + tn + np.log(np.exp(-tn) + np.exp((-y_pred-tn)))", "    loss = y_pred - y_true * y_pred + (tn + np.log(np.exp(-y_pred - tn) + np.exp(-tn)))")], expect='silent')
# dtn cancels algebraically: dtn + (-dtn*e1 + (-1-dtn)*e2)/(e1+e2) = -e2/(e1+e2) for every dtn, so changing it preserves behaviour (the term rule sees that)
mut('derivx-twin-bce-logits-dtn-irrelevant', ['C02'], 'BCE-with-logits backward with another value of the (cancelling) shift derivative', [(K, "    dtn = np.where(tn == 0, 0, -1)", "    dtn = np.where(tn == 0, 0, 1)")], expect='silent')
mut('derivx-bce-logits-missing-target', ['C02'], 'BCE-with-logits backward drops the (1 - y) term', [(K, "    loss_grad = (1 - y_true) + dtn + (div1/(div2 + epsilon))", "    loss_grad = 1 + dtn + (div1/(div2 + epsilon))")], rules=['C02.DERIV-X', 'C02.'])
mut('derivx-bce-terms-swapped', ['C02'], 'BCE backward pairs y with 1/(1-p)', [(K, "    term_0 = -(1 - y_true + epsilon) / ((1 - y_pred) + epsilon)\n    term_1 = (y_true + epsilon) / (y_pred + epsilon)", "    term_0 = -(y_true + epsilon) / ((1 - y_pred) + epsilon)\n    term_1 = (1 - y_true + epsilon) / (y_pred + epsilon)")], rules=['C02.DERIV-X', 'C02.'])
mut('derivx-twin-bce-logits-sigmoid-form', ['C02'], 'BCE-with-logits backward: quotient written with the sum first', [(K, "    div2 = np.exp(-tn) + np.exp((-y_pred-tn))", "    div2 = np.exp((-y_pred-tn)) + np.exp(-tn)")], expect='silent')
mut('c01-max-mark-through-ravel', ['C01'], 'max_backward (axis=None) marks the arg-max through mask.ravel(), a copy for non-contiguous operands', [(K, "        unr_indices = np.unravel_index(max_indices, a.shape)\n        mask[unr_indices] = 1\n    else:\n        np.put_along_axis(mask, max_indices, 1, axis=axis)", "        mask.ravel()[max_indices] = 1\n    else:\n        np.put_along_axis(mask, max_indices, 1, axis=axis)")], rules=['C01.VIEWSTORE'])
mut('c13-bn1d-super-args-swapped', ['C13', 'C12', 'C06'], 'BatchNorm1d forwards affine / track_running_stats to the base class in swapped positions', [(LY, "        super().__init__(num_features, eps, momentum, affine, track_running_stats, dtype)", "        super().__init__(num_features, eps, momentum, track_running_stats, affine, dtype)")], rules=['C13.SUPER-ROLES', 'C12.SUPER-ROLES', 'C06.SUPER-ROLES'], count=2)
mut('c08-sgd-nesterov-inplace-on-grad', ['C08'], 'SGD applies the Nesterov correction in place on a name that may still be the parameter gradient buffer', [(O, "                        grad = grad + self.momentum*self.momentum_buffer[i]", "                        grad += self.momentum*self.momentum_buffer[i]")], rules=['C08.GRAD-CONST'])
mut('c14-tensor-bool-value-dependent', ['C14', 'C02'], 'Tensor gains a value-dependent __bool__ while linear / conv test `if bias:`', [(T, "    def __len__(self) -> int:", "    def __bool__(self) -> bool:\n        return bool(self.data.any())\n\n    def __len__(self) -> int:")], rules=['C14.PRESENCE', 'C02.PRESENCE'])
mut('c19-linear-bias-not-reset', ['C19'], 'Linear.reset_parameters no longer fills the bias allocated with empty()', [(LY, "        init.uniform_(self.weight, -std, std)\n        if self.bias is not None:\n            init.uniform_(self.bias, -std, std)", "        init.uniform_(self.weight, -std, std)")], rules=['C19.UNINIT'])
mut('c19-bn-affine-reset-skipped', ['C19'], 'BatchNorm calls reset_parameters only when track_running_stats is set (gamma / beta stay uninitialised otherwise)', [(LY, "            # Initialize parameters\n            self.reset_parameters()", "            # Initialize parameters\n            if self.track_running_stats: self.reset_parameters()")], rules=['C19.UNINIT'])
mut('c05-squeeze-all-or-nothing', ['C05'], 'squeeze with a tuple of dims squeezes only if ALL listed dims have size 1', [(K, "        axis = tuple(ax for ax in axis if a.shape[ax] == 1)", "        axis = tuple(axis) if all(a.shape[ax] == 1 for ax in axis) else ()")], rules=['C05.SQUEEZE'])
mut('c05-twin-squeeze-loop', ['C05'], 'squeeze filters the dims with an explicit loop', [(K, "        axis = tuple(ax for ax in axis if a.shape[ax] == 1)", "        kept = []\n        for ax in axis:\n            if a.shape[ax] == 1:\n                kept.append(ax)\n        axis = tuple(kept)")], expect='silent')
mut('c12-parameters-cached', ['C12'], 'parameters() caches its result on the module (stale after a nested child changes)', [(M, "        return unique_params\n", "        self.__dict__['_param_cache'] = unique_params\n        return unique_params\n")], rules=['C12.ONCE'])
