"""OVERFLOW domain for the stability-critical kernels (C09).  Inputs are finite float32 of magnitude up to 1e4, i.e. far beyond
the float32 exp threshold (~88).  Every value is abstracted by

  sign   'neg' (<= 0) | 'pos' (>= 0) | 'any'
  mag    'b01' (|x| <= 1) | 'fin' (finite, polynomially bounded in the inputs) | 'inf' (may overflow to inf)
  zero   may be (or underflow to) 0
  ge1    provably >= 1                       (denominators / log arguments that are safe)
  lb     bounded below by a constant          (exp(x) - 1 >= -1)
  prob   a probability that can underflow (exp of an unbounded-below argument, softmax output)
  epsg   prob + epsilon                       (an epsilon-guarded probability)
plus two relational facts needed for the log-sum-exp idioms:
  shift  ('max', text, axis) for  t.max(axis=axis, keepdims=True)  /  ('relu', text) for relu(t) = max(t, 0)
  attained (axis | 'lse0', ...) the value is exp(u - max u): along `axis` (or across the {0, s} pair) one entry is exactly 1.

Hazards are recorded as events kind='hazard' (see OverflowDomain.hazard): exp overflow reaching a product with a possibly-zero
value, a difference/quotient of two unbounded values, a log or the result; division by / log of a value that may be 0; and
epsilon-clipping of an underflowing probability.
"""
import ast
from ..absint import Domain, Tup, Const, FuncRef
from ..core import norm
from ..report import Incomplete


class V:
    __slots__ = ('sign', 'mag', 'zero', 'ge1', 'lb', 'prob', 'epsg', 'shift', 'attained', 'text', 'scalar')

    def __init__(self, sign='any', mag='fin', zero=True, ge1=False, lb=False, prob=False, epsg=False, shift=None, attained=None, text=None, scalar=False):
        self.sign, self.mag, self.zero, self.ge1, self.lb, self.prob, self.epsg = sign, mag, zero, ge1, lb, prob, epsg
        self.shift, self.attained, self.text, self.scalar = shift, attained, text, scalar

    def copy(self, **kw):
        v = V(self.sign, self.mag, self.zero, self.ge1, self.lb, self.prob, self.epsg, self.shift, self.attained, self.text, self.scalar)
        for k, x in kw.items():
            setattr(v, k, x)
        return v

    def key(self):
        return (self.sign, self.mag, self.zero, self.ge1, self.lb, self.prob, self.epsg)

    def __eq__(self, o):
        return isinstance(o, V) and self.key() == o.key()

    def __hash__(self):
        return hash(self.key())

    def __repr__(self):
        fl = ''.join(c for c, b in (('z', self.zero), ('1', self.ge1), ('b', self.lb), ('p', self.prob), ('e', self.epsg)) if b)
        return 'V(%s,%s,%s)' % (self.sign, self.mag, fl)


FIN = lambda **k: V('any', 'fin', True, **k)
MAGS = ['b01', 'fin', 'inf']


def _maxmag(a, b):
    return MAGS[max(MAGS.index(a), MAGS.index(b))]


class OverflowDomain(Domain):
    name = 'overflow'

    def __init__(self, roles=None, eps_names=('epsilon',)):
        self.roles = roles or {}
        self.eps_names = set(eps_names)

    def hazard(self, I, node, what):
        I.event('hazard', node, why=what)

    def top(self):
        return FIN()

    def c(self, v):
        if isinstance(v, V):
            return v
        if isinstance(v, Const):
            x = v.v
            if isinstance(x, bool) or x is None or isinstance(x, str):
                return V('pos', 'b01', True, scalar=True)
            if isinstance(x, (int, float)):
                return V('pos' if x >= 0 else 'neg', 'b01' if abs(x) <= 1 else 'fin', x == 0, ge1=x >= 1, lb=True, scalar=True, text=repr(x))
            return FIN(scalar=True)
        if isinstance(v, Tup):
            r = None
            for x in v.items:
                r = self.c(x) if r is None else self.join(r, self.c(x))
            return r or FIN(scalar=True)
        if isinstance(v, tuple) and v and v[0] == '*':
            return self.c(v[1])
        return FIN(scalar=True)

    def join(self, a, b):
        a, b = self.c(a), self.c(b)
        return V(a.sign if a.sign == b.sign else 'any', _maxmag(a.mag, b.mag), a.zero or b.zero, a.ge1 and b.ge1, a.lb and b.lb, a.prob or b.prob, a.epsg or b.epsg, scalar=a.scalar and b.scalar)

    def param(self, I, func, name, index):
        r = self.roles.get(name)
        if r is not None:
            return r.copy(text=name)
        return FIN(text=name)

    def global_name(self, I, name):
        if name in self.eps_names:
            return V('pos', 'b01', False, lb=True, scalar=True, text='epsilon')
        return FIN(scalar=True)

    def attribute(self, I, base, attr, node):
        if attr in ('shape', 'ndim', 'size', 'dtype'):
            return FIN(scalar=True)
        if attr == 'inf':
            return V('pos', 'inf', False, scalar=True)
        return self.c(base).copy(text=None)

    def subscript(self, I, base, index, node):
        b = self.c(base)
        return b.copy(text=None, shift=None, attained=None)

    # ---------------------------------------------------------------- arithmetic
    def binop(self, I, op, l, r, node):
        if isinstance(l, Tup) and isinstance(r, Tup):
            return Tup(l.items + r.items, l.kind)
        lt = norm(node.left) if isinstance(node, ast.BinOp) else None
        a, b = self.c(l), self.c(r)
        if isinstance(op, ast.Sub):
            # u - max(u) / u - relu(u): <= 0, and 0 is attained
            if b.shift is not None and lt is not None:
                kind = b.shift[0]
                if b.shift[1] == lt:
                    att = ('axis', b.shift[2]) if kind == 'max' else ('lse0', id(b.shift), 's', b.shift[1])
                    return V('neg', 'fin', True, attained=att)
            # (0 - relu(u)) handled by unary minus; (-u - relu(-u)) -> left text equals shift text
            nb = V({'pos': 'neg', 'neg': 'pos', 'any': 'any'}[b.sign], b.mag, b.zero, lb=False, shift=None)
            if a.mag == 'inf' and b.mag == 'inf' and a.sign == b.sign != 'any':
                self.hazard(I, node, 'difference of two values that may both overflow to inf (inf - inf = nan)')
            return self._add(I, a, nb, node, sub=True, borig=b)
        if isinstance(op, ast.Add):
            return self._add(I, a, b, node)
        if isinstance(op, (ast.Mult, ast.MatMult)):
            if (a.mag == 'inf' and b.zero) or (b.mag == 'inf' and a.zero):
                self.hazard(I, node, 'product of a value that may overflow to inf with a value that may be 0 (inf * 0 = nan): %s' % norm(node)[:80])
            sign = 'any' if 'any' in (a.sign, b.sign) else ('pos' if a.sign == b.sign else 'neg')
            mag = 'inf' if 'inf' in (a.mag, b.mag) else ('b01' if a.mag == b.mag == 'b01' else 'fin')
            lb = (sign == 'pos') or (a.lb and b.scalar and b.sign == 'pos' and b.mag != 'inf') or (b.lb and a.scalar and a.sign == 'pos' and a.mag != 'inf')
            return V(sign, mag, a.zero or b.zero, ge1=a.ge1 and b.ge1, lb=lb, prob=(a.prob or b.prob) and mag == 'b01')
        if isinstance(op, ast.Div):
            if b.epsg:
                self.hazard(I, node, 'division by (probability + epsilon): once the probability underflows the quotient is clipped at 1/epsilon instead of its true value')
            elif b.zero and not b.ge1:
                self.hazard(I, node, 'division by a value that may be (or underflow to) 0: %s' % norm(node)[:80])
            if a.mag == 'inf' and b.mag == 'inf':
                self.hazard(I, node, 'quotient of two values that may both overflow to inf (inf / inf = nan)')
            sign = 'any' if 'any' in (a.sign, b.sign) else ('pos' if a.sign == b.sign else 'neg')
            if b.mag == 'inf':
                # x / (something that may be inf): bounded, may underflow to 0
                mag = 'b01' if (a.mag == 'b01' and b.ge1) else ('fin' if a.mag != 'inf' else 'inf')
                return V(sign, mag, True, lb=sign == 'pos')
            if b.ge1:
                return V(sign, a.mag, a.zero, lb=a.lb or sign == 'pos', prob=a.prob)
            return V(sign, 'fin' if a.mag != 'inf' else 'inf', a.zero, lb=sign == 'pos')
        if isinstance(op, ast.Pow):
            if a.mag == 'inf':
                return V('any', 'inf', True)
            if a.mag == 'b01':
                return V('pos' if a.sign == 'pos' else 'any', 'b01', True, lb=True)
            return V('any', 'fin', True)
        return FIN(scalar=a.scalar and b.scalar)

    def _add(self, I, a, b, node, sub=False, borig=None):
        mag = 'inf' if 'inf' in (a.mag, b.mag) else 'fin'
        if a.mag == 'b01' and b.mag == 'b01':
            mag = 'fin'
        sign = a.sign if a.sign == b.sign else 'any'
        zero = True
        ge1 = False
        if a.sign == 'pos' and b.sign == 'pos':
            zero = a.zero and b.zero
            ge1 = a.ge1 or b.ge1
            # exp(0 - m) + exp(s - m) with m = max(s, 0): one of the two terms is exactly 1
            if not sub and a.attained and b.attained and a.attained[0] == b.attained[0] == 'lse0' and a.attained[1] == b.attained[1] and {a.attained[2], b.attained[2]} == {'zero', 's'}:
                ge1, zero = True, False
        lb = (a.lb and b.lb) or (a.lb and b.scalar) or (b.lb and a.scalar) if not sub else (a.lb and (borig.scalar if borig is not None else False))
        epsg = False
        if not sub and ((a.prob and b.text == 'epsilon') or (b.prob and a.text == 'epsilon')):
            epsg = True
            zero = False
        if not sub and (a.text == 'epsilon' or b.text == 'epsilon') and sign == 'pos':
            zero = False
        # 1 - p  for a probability p
        if sub and a.scalar and a.mag == 'b01' and borig is not None and borig.mag == 'b01' and borig.sign == 'pos':
            return V('pos', 'b01', True, lb=True, prob=borig.prob)
        return V(sign, mag, zero, ge1=ge1, lb=lb, epsg=epsg)

    def unary(self, I, op, v, node):
        a = self.c(v)
        if isinstance(op, ast.USub):
            r = V({'pos': 'neg', 'neg': 'pos', 'any': 'any'}[a.sign], a.mag, a.zero, lb=False, scalar=a.scalar)
            if a.shift is not None and a.shift[0] == 'relu':
                # -relu(u) = 0 - max(u, 0): the '0' member of the {0, u} pair shifted by their maximum
                r.attained = ('lse0', id(a.shift), 'zero', a.shift[1])
                r.sign = 'neg'
            return r
        return a.copy(text=None)

    def compare(self, I, node, vals):
        return V('pos', 'b01', True, lb=True)        # boolean mask: 0 / 1

    boolop = compare

    def ifexp(self, I, test, a, b, node):
        return self.join(a, b)

    def iterate(self, I, val, node):
        return self.c(val).copy(text=None)

    def fstring(self, I, node):
        return FIN(scalar=True)

    def store_subscript(self, I, base, index, val, node, aug=None):
        b, v = self.c(base), self.c(val)
        if aug is not None:
            fake = ast.BinOp(left=ast.Name(id='_'), op=aug, right=ast.Name(id='_'))
            return self.binop(I, aug, b, v, node)
        return self.join(b, v)

    def aug_name(self, I, op, old, new, node):
        if isinstance(old, Tup) and isinstance(new, Tup):
            return Tup(old.items + new.items, old.kind)
        return self.binop(I, op, old, new, node)

    # ---------------------------------------------------------------- calls
    def _exp(self, I, a, node):
        if a.sign == 'neg':
            att = a.attained
            return V('pos', 'b01', True, lb=True, prob=True, attained=att)
        return V('pos', 'inf', True, lb=True)

    def _log(self, I, a, node):
        if a.mag == 'inf':
            self.hazard(I, node, 'log of a value that may have overflowed to inf')
        if a.epsg:
            self.hazard(I, node, 'log(probability + epsilon): once the probability underflows below epsilon the true value (e.g. -1000) is replaced by log(epsilon) = -27.6')
        elif a.zero and not a.ge1:
            self.hazard(I, node, 'log of a value that may be (or underflow to) 0')
        return V('pos' if a.ge1 else 'any', 'fin', True)

    def call(self, I, callee, args, kwargs, node):
        cargs = [self.c(a) for a in args]
        if callee is None:
            return FIN()
        if callee in I.model.funcs:
            f = I.model.funcs[callee]
            if f.name == 'relu_forward' and len(args) == 1:
                t = norm(node.args[0])
                return V('pos', cargs[0].mag if cargs[0].mag != 'b01' else 'fin', True, lb=True, shift=('relu', t))
            ret, sub = I.summarize(callee, [self.c(a) for a in args], {k: self.c(v) for k, v in kwargs.items()})
            return ret if ret is not None else FIN()
        if callee.startswith('builtins.'):
            n = callee[9:]
            if n in ('range', 'len', 'int', 'float', 'tuple', 'list', 'isinstance', 'slice'):
                return FIN(scalar=True)
            if n == '<comprehension>':
                return cargs[0]
            return FIN(scalar=True)
        if callee.startswith('numpy.'):
            n = callee[6:]
            a = cargs[0] if cargs else FIN()
            if n == 'exp':
                return self._exp(I, a, node)
            if n == 'log':
                return self._log(I, a, node)
            if n == 'log1p':
                if a.mag == 'inf':
                    self.hazard(I, node, 'log1p of a value that may have overflowed to inf')
                return V('pos' if a.sign == 'pos' else 'any', 'fin', True, lb=a.sign == 'pos')
            if n == 'tanh':
                return V(a.sign, 'b01', True, lb=True)
            if n in ('abs', 'absolute'):
                return V('pos', a.mag, a.zero, lb=True)
            if n == 'sqrt':
                return V('pos', a.mag, a.zero, lb=True)
            if n == 'maximum' and len(cargs) == 2:
                x, y = cargs
                # maximum(0, u) = relu(u)
                for c0, other, onode in ((x, y, node.args[1]), (y, x, node.args[0])):
                    if c0.scalar and c0.text in ('0', '0.0'):
                        return V('pos', other.mag if other.mag != 'b01' else 'fin', True, lb=True, shift=('relu', norm(onode)))
                sign = 'pos' if 'pos' in (x.sign, y.sign) else 'any'
                return V(sign, _maxmag(x.mag, y.mag), x.zero or y.zero, lb=x.lb or y.lb)
            if n == 'minimum' and len(cargs) == 2:
                x, y = cargs
                zero_const = any(c0.scalar and c0.text in ('0', '0.0') for c0 in (x, y))
                sign = 'neg' if ('neg' in (x.sign, y.sign) or zero_const) else 'any'
                # minimum(finite, v): bounded above by the finite one; bounded below if v is
                if x.mag != 'inf' and (y.mag != 'inf' or y.lb):
                    mag = 'fin'
                elif y.mag != 'inf' and (x.mag != 'inf' or x.lb):
                    mag = 'fin'
                else:
                    mag = 'inf'
                return V(sign, mag, True, lb=x.lb and y.lb)
            if n == 'where' and len(cargs) == 3:
                return self.join(cargs[1], cargs[2])
            if n in ('sum', 'mean', 'max', 'amax', 'min', 'amin'):
                return self._reduce(I, n, a, kwargs, node, node.args[0] if node.args else None)
            if n in ('zeros', 'zeros_like'):
                return V('pos', 'b01', True, lb=True)
            if n in ('ones', 'ones_like'):
                return V('pos', 'b01', False, ge1=True, lb=True)
            if n in ('expand_dims', 'squeeze', 'reshape', 'transpose', 'swapaxes', 'moveaxis', 'stack', 'concatenate', 'copy', 'array', 'asarray', 'diag', 'outer'):
                return a.copy(text=None, shift=None)
            if n in ('isnan', 'isinf', 'isfinite'):
                return V('pos', 'b01', True)
            return FIN()
        return FIN()

    def _reduce(self, I, n, a, kwargs, node, recv_node):
        ax = kwargs.get('axis')
        axt = None
        for k in node.keywords:
            if k.arg == 'axis':
                axt = norm(k.value)
        kd = any(k.arg == 'keepdims' and isinstance(k.value, ast.Constant) and k.value.value is True for k in node.keywords)
        if n in ('max', 'amax'):
            r = a.copy(text=None, attained=None)
            r.shift = ('max', norm(recv_node), axt) if recv_node is not None and kd else None
            return r
        if n == 'sum':
            if a.sign == 'pos':
                ge1 = a.attained is not None and a.attained[0] == 'axis' and a.attained[1] == axt and axt is not None
                return V('pos', 'fin' if a.mag != 'inf' else 'inf', not ge1, ge1=ge1, lb=True)
            return V(a.sign, 'fin' if a.mag != 'inf' else 'inf', True)
        return a.copy(text=None, attained=None, shift=None)

    def method(self, I, recv, name, args, kwargs, node):
        a = self.c(recv)
        if name in ('sum', 'max', 'min', 'mean'):
            return self._reduce(I, name, a, kwargs, node, node.func.value)
        if name in ('reshape', 'transpose', 'squeeze', 'copy', 'astype', 'swapaxes', 'ravel', 'flatten'):
            return a.copy(text=None, shift=None)
        return a.copy(text=None, shift=None, attained=None)
