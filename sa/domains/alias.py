"""ALIAS / freshness domain: which function parameters' storage a value MAY share.

value = frozenset of parameter names (empty = certainly fresh storage); join = union (may-alias).
In-place effects (augmented assignment on a name, subscript stores, ufunc.at, put_along_axis, copyto, out=, .fill/.sort/...)
on a value with a non-empty alias set are recorded as events kind='mutation'.
"""
import ast
from ..absint import Domain, Tup, Const, FuncRef
from ..report import Incomplete
from ..core import norm

FRESH = frozenset()

# numpy functions whose result may share storage with their first argument
NP_VIEW = {'reshape', 'transpose', 'swapaxes', 'moveaxis', 'rollaxis', 'squeeze', 'expand_dims', 'broadcast_to', 'ascontiguousarray', 'asarray',
           'ravel', 'split', 'array_split', 'atleast_1d', 'atleast_2d', 'atleast_3d', 'diagonal', 'real', 'imag', 'asanyarray', 'flip', 'vsplit', 'hsplit',
           'lib.stride_tricks.as_strided', 'lib.stride_tricks.sliding_window_view', 'broadcast_arrays', 'diag', 'triu_no', 'nan_to_num_no', 'require'}
M_VIEW = {'reshape', 'transpose', 'swapaxes', 'squeeze', 'view', 'ravel', 'diagonal', 'newbyteorder', '__getitem__', 'flatten_no'}
M_INPLACE = {'fill', 'sort', 'resize', 'itemset', 'put', 'partition', 'setfield', 'setflags', 'byteswap_no', 'clip_no', '__setitem__', '__iadd__', '__isub__', '__imul__', '__itruediv__'}
NP_INPLACE_ARG0 = {'put_along_axis', 'copyto', 'put', 'place', 'putmask', 'fill_diagonal', 'random.shuffle'}
VIEW_ATTRS = {'T', 'real', 'imag', 'flat', 'data', 'base'}

SCALAR_PARAMS = {'axis', 'dim', 'dimension', 'size', 'step', 'n', 'keepdims', 'kernel_size', 'stride', 'padding', 'dilation', 'eps', 'momentum', 'training',
                 'alpha', 'scale', 'neg_slope', 'index', 'shape', 'source', 'destination', 'axis0', 'axis1', 'pad_value', 'output_shape', 'out_shape',
                 'track_running_stats', 'as_unfold', 'return_indices', 'input_length', 's', 'a_shape', 'b_shape', 'sections', 'max_indices_no'}


def is_scalar_param(arg):
    if arg.arg in SCALAR_PARAMS or arg.arg.endswith('_shape'):
        return True
    if arg.annotation is not None:
        a = norm(arg.annotation)
        if a in ('int', 'float', 'bool', 'str', 'tuple') or a.startswith("'int") or a.startswith("'None") or a.startswith("'float"):
            return True
    return False


def _int_annotated(fnode, name):
    for a in fnode.args.args + fnode.args.kwonlyargs:
        if a.arg == name and a.annotation is not None:
            t = norm(a.annotation).strip("'\"")
            return t in ('int', 'float', 'bool')
    return False


def _int_expr(fnode, e):
    """an expression made of constants, len(..) / int(..) calls, .ndim reads and int-annotated parameters"""
    if isinstance(e, ast.Constant):
        return isinstance(e.value, (int, float)) 
    if isinstance(e, ast.Call):
        return isinstance(e.func, ast.Name) and e.func.id in ('len', 'int') and len(e.args) == 1 and not e.keywords
    if isinstance(e, ast.Attribute):
        return e.attr == 'ndim'
    if isinstance(e, ast.Name):
        return _int_annotated(fnode, e.id)
    if isinstance(e, ast.BinOp):
        return _int_expr(fnode, e.left) and _int_expr(fnode, e.right)
    if isinstance(e, ast.UnaryOp):
        return _int_expr(fnode, e.operand)
    return False


def _used_as_array(fnode, name):
    """the parameter is written through (p[...] = v, p += v, out=p) or annotated as an array: whatever its name says, it is storage the caller can see"""
    for a in fnode.args.args + fnode.args.kwonlyargs:
        if a.arg == name and a.annotation is not None and 'ndarray' in norm(a.annotation):
            return True
    for n in ast.walk(fnode):
        if isinstance(n, ast.Subscript) and isinstance(n.ctx, (ast.Store, ast.Del)) and isinstance(n.value, ast.Name) and n.value.id == name:
            return True
        if isinstance(n, ast.AugAssign) and isinstance(n.target, ast.Name) and n.target.id == name:
            if _int_annotated(fnode, name) and _int_expr(fnode, n.value):
                continue        # `axis += len(shape)` on a parameter declared int: integers are immutable, the name is re-bound
            return True
        if isinstance(n, ast.keyword) and n.arg == 'out' and isinstance(n.value, ast.Name) and n.value.id == name:
            return True
    return False


class Alias(Domain):
    name = 'alias'

    def __init__(self):
        pass

    def top(self):
        return FRESH

    def c(self, v):
        if isinstance(v, Tup):
            r = FRESH
            for x in v.items:
                r = r | self.c(x)
            return r
        if isinstance(v, (Const, FuncRef)) or v is None:
            return FRESH
        if isinstance(v, tuple) and v and v[0] == '*':
            return self.c(v[1])
        return v

    def join(self, a, b):
        return self.c(a) | self.c(b)

    def param(self, I, func, name, index):
        for a in func.node.args.args + func.node.args.kwonlyargs:
            if a.arg == name:
                if is_scalar_param(a) and not _used_as_array(func.node, name):
                    return FRESH
                return frozenset([name])
        return frozenset([name])

    def global_name(self, I, name):
        return FRESH

    def attribute(self, I, base, attr, node):
        b = self.c(base)
        if attr in VIEW_ATTRS:
            return b
        return FRESH            # .shape / .dtype / .ndim ... are fresh python values

    def subscript(self, I, base, index, node):
        return self.c(base)     # basic slicing is a view; fancy indexing copies (may-alias is the safe answer)

    def binop(self, I, op, l, r, node):
        if isinstance(l, Tup) and isinstance(r, Tup) and isinstance(op, ast.Add):
            return Tup(l.items + r.items, l.kind)
        if isinstance(l, Tup) and isinstance(op, ast.Mult):
            return self.c(l)
        return FRESH

    def unary(self, I, op, v, node):
        return FRESH

    def compare(self, I, node, vals):
        return FRESH

    boolop = compare

    def ifexp(self, I, test, a, b, node):
        return self.join_any(a, b)

    def iterate(self, I, val, node):
        return self.c(val)

    def fstring(self, I, node):
        return FRESH

    def mutation(self, I, target_val, node, how):
        s = self.c(target_val)
        if s:
            I.event('mutation', node, params=sorted(s), how=how)

    def store_subscript(self, I, base, index, val, node, aug=None):
        self.mutation(I, base, node, 'subscript store')
        # storing an aliased value into a container makes the container alias it too
        return self.c(base) | (self.c(val) if isinstance(val, Tup) else FRESH)

    def store_attr(self, I, base, attr, val, node, aug=None):
        s = self.c(base)
        if s:
            I.event('mutation', node, params=sorted(s), how='attribute store .%s' % attr)
        return None

    def aug_name(self, I, op, old, new, node):
        if isinstance(old, Tup) and isinstance(new, Tup) and isinstance(op, ast.Add):
            return Tup(old.items + new.items, old.kind)
        if isinstance(old, Const):
            return FRESH
        self.mutation(I, old, node, 'augmented assignment (in-place on arrays)')
        return self.c(old)

    def delete(self, I, target, node):
        pass

    def call(self, I, callee, args, kwargs, node):
        if 'out' in kwargs:
            self.mutation(I, kwargs['out'], node, 'out= argument')
        if callee is None:
            return FRESH
        if callee in I.model.funcs:
            ret, sub = I.summarize(callee, args, kwargs)
            return ret if ret is not None else FRESH
        if callee == 'builtins.zip':
            return Tup([I.iter_elem(a, node) for a in args], 'zip')
        if callee == 'builtins.enumerate':
            return Tup([FRESH, I.iter_elem(args[0], node)], 'zip')
        if callee in ('builtins.tuple', 'builtins.list', 'builtins.reversed', 'builtins.iter', 'builtins.<comprehension>'):
            if len(args) == 1 and isinstance(args[0], Tup):
                return Tup(args[0].items, 'tuple')
            return self.c(args[0]) if args else FRESH
        if callee.startswith('numpy.'):
            name = callee[6:]
            if name.endswith('.at') and args:
                self.mutation(I, args[0], node, 'np.%s' % name)
                return FRESH
            if name in NP_INPLACE_ARG0 and args:
                self.mutation(I, args[0], node, 'np.%s' % name)
                return FRESH
            if name == 'nan_to_num' and args:
                cp = kwargs.get('copy')
                if cp is not None and not (isinstance(cp, Const) and cp.v is True):
                    self.mutation(I, args[0], node, 'np.nan_to_num(copy=False)')        # rewrites the non-finite entries of its argument in place
                    return self.c(args[0])
                return FRESH
            if name in NP_VIEW and args:
                return self.c(args[0])
            if name in ('array',):
                cp = kwargs.get('copy')
                if cp is not None and not (isinstance(cp, Const) and cp.v is True):
                    return self.c(args[0])
                return FRESH
            return FRESH
        return FRESH

    def method(self, I, recv, name, args, kwargs, node):
        r = self.c(recv)
        if 'out' in kwargs:
            self.mutation(I, kwargs['out'], node, 'out= argument')
        if name in M_INPLACE:
            self.mutation(I, recv, node, '.%s()' % name)
            return FRESH
        if isinstance(recv, Tup) or name in ('append', 'extend', 'insert', 'pop', 'remove', 'clear', 'reverse', 'update', 'add'):
            # list/dict/set mutation of a parameter container
            if name in ('append', 'extend', 'insert', 'pop', 'remove', 'clear', 'reverse', 'update') and r:
                I.event('mutation', node, params=sorted(r), how='container .%s()' % name)
            return FRESH
        if name == 'astype':
            cp = kwargs.get('copy')
            if cp is not None and not (isinstance(cp, Const) and cp.v is True):
                return r
            return FRESH
        if name in M_VIEW:
            return r
        return FRESH
