"""DTYPE provenance domain (NumPy 2 / NEP 50 promotion) for forward kernels.

  OPER   dtype follows the array operands of the kernel
  WEAK   Python scalar (adapts to the other operand)
  BOOL   boolean array / comparison result
  S64    strongly typed 64-bit value independent of the operands: np.zeros/ones/full/empty/arange/eye/linspace without an
         operand-derived dtype, NumPy scalars (np.prod / np.log of Python numbers), integer index arrays (argmax, where(c, 0, -1))
  D32    the module default float type
An arithmetic combination of OPER with S64 (or D32) no longer follows the operand dtype -> event 'widen'.
"""
import ast
from ..absint import Domain, Tup, Const, FuncRef
from ..core import norm

OPER, WEAK, BOOL, S64, D32, NONE = 'OPER', 'WEAK', 'BOOL', 'S64', 'D32', 'NONE'
ALLOC = {'zeros', 'ones', 'full', 'empty', 'arange', 'eye', 'linspace', 'identity', 'indices', 'tri'}
LIKE = {'zeros_like', 'ones_like', 'empty_like', 'full_like'}
SAME = {'sum', 'mean', 'max', 'min', 'amax', 'amin', 'exp', 'log', 'sqrt', 'tanh', 'abs', 'absolute', 'maximum', 'minimum', 'swapaxes', 'moveaxis', 'transpose',
        'reshape', 'squeeze', 'expand_dims', 'rollaxis', 'ascontiguousarray', 'broadcast_to', 'copy', 'pad', 'stack', 'concatenate', 'split', 'tensordot',
        'matmul', 'dot', 'negative', 'log1p', 'expm1', 'clip', 'square', 'power', 'var', 'std', 'cumsum', 'flip', 'ravel', 'tile', 'repeat', 'take',
        'lib.stride_tricks.as_strided', 'lib.stride_tricks.sliding_window_view', 'multiply', 'add', 'subtract', 'divide', 'asarray', 'array', 'floor', 'ceil', 'sign',
        'atleast_1d', 'nan_to_num', 'diag', 'outer', 'einsum', 'where', 'prod'}
INDEX = {'argmax', 'argmin', 'argsort', 'nonzero', 'unravel_index', 'searchsorted', 'count_nonzero', 'ndindex'}
CONST_ATTRS = {'shape', 'ndim', 'size', 'strides', 'flags', 'itemsize'}


class DType(Domain):
    name = 'dtype'

    def top(self):
        return S64

    def c(self, v):
        if isinstance(v, Tup):
            r = None
            for x in v.items:
                r = self.c(x) if r is None else self.promote(r, self.c(x))
            return r or WEAK
        if isinstance(v, Const):
            return NONE if v.v is None else (BOOL if isinstance(v.v, bool) else WEAK)
        if isinstance(v, FuncRef):
            return WEAK
        if isinstance(v, tuple) and v and v[0] == '*':
            return self.c(v[1])
        return v

    def promote(self, a, b):
        if a == b:
            return a
        for x, y in ((a, b), (b, a)):
            if x == NONE:
                return y
        if WEAK in (a, b):
            o = b if a == WEAK else a
            return S64 if o == BOOL else o           # python float * bool array -> float64
        if BOOL in (a, b):
            return b if a == BOOL else a
        if S64 in (a, b):
            return S64
        if D32 in (a, b):
            return 'MIXED32'
        return S64

    def join(self, a, b):
        a, b = self.c(a), self.c(b)
        if a == b:
            return a
        if NONE in (a, b):
            return b if a == NONE else a
        if {a, b} == {OPER, WEAK}:
            return OPER
        return S64 if S64 in (a, b) else self.promote(a, b)

    def param(self, I, func, name, index):
        from .alias import is_scalar_param
        for a in func.node.args.args:
            if a.arg == name:
                return WEAK if is_scalar_param(a) else OPER
        return OPER

    def global_name(self, I, name):
        if name == 'default_type__':
            return D32
        return WEAK

    def attribute(self, I, base, attr, node):
        b = self.c(base)
        if attr in CONST_ATTRS:
            return WEAK
        if attr == 'dtype':
            return ('DT', b)
        if attr == 'inf' or attr == 'pi' or attr == 'e' or attr == 'nan' or attr == 'newaxis':
            return WEAK
        return b

    def subscript(self, I, base, index, node):
        return self.c(base)

    def arith(self, I, l, r, node):
        l, r = self.c(l), self.c(r)
        if isinstance(l, tuple) or isinstance(r, tuple):
            return WEAK
        res = self.promote(l, r)
        if OPER in (l, r) and res != OPER:
            I.event('widen', node, why='operand-typed value combined with a %s value' % (r if l == OPER else l))
        return res

    def binop(self, I, op, l, r, node):
        if isinstance(l, Tup) and isinstance(r, Tup) and isinstance(op, ast.Add):
            return Tup(l.items + r.items, l.kind)
        if isinstance(l, Tup) or isinstance(r, Tup):
            return WEAK
        if isinstance(op, ast.Div) and self.c(l) in (WEAK,) and self.c(r) in (WEAK,):
            return WEAK
        return self.arith(I, l, r, node)

    def unary(self, I, op, v, node):
        return BOOL if isinstance(op, ast.Not) else self.c(v)

    def compare(self, I, node, vals):
        return BOOL

    def boolop(self, I, node, vals):
        return BOOL

    def ifexp(self, I, test, a, b, node):
        return self.join_any(a, b)

    def iterate(self, I, val, node):
        return self.c(val)

    def fstring(self, I, node):
        return WEAK

    def store_subscript(self, I, base, index, val, node, aug=None):
        return self.c(base)         # in-place: the buffer keeps its dtype

    def aug_name(self, I, op, old, new, node):
        if isinstance(old, Tup) and isinstance(new, Tup):
            return Tup(old.items + new.items, old.kind)
        o = self.c(old)
        if o in (WEAK, NONE):
            return self.arith(I, old, new, node)
        return o                    # in-place on an array keeps its dtype

    def _dtype_kw(self, kwargs, args_dtype=None):
        d = kwargs.get('dtype', args_dtype)
        if d is None:
            return None
        if isinstance(d, tuple) and d[0] == 'DT':
            return d[1]
        if d == D32:
            return D32
        return S64

    def call(self, I, callee, args, kwargs, node):
        cargs = [self.c(a) for a in args]
        if callee is None:
            return S64
        if callee in I.model.funcs:
            ret, sub = I.summarize(callee, args, kwargs)
            return ret if ret is not None else NONE
        if callee.startswith('builtins.'):
            n = callee[9:]
            if n == 'zip':
                return Tup([I.iter_elem(a, node) for a in args], 'zip')
            if n == 'enumerate':
                return Tup([WEAK, I.iter_elem(args[0], node)], 'zip')
            if n in ('tuple', 'list', 'reversed', '<comprehension>', 'iter'):
                if len(args) == 1 and isinstance(args[0], Tup):
                    return Tup(args[0].items, 'tuple')
                return cargs[0] if cargs else WEAK
            return WEAK
        if callee.startswith('math.'):
            return WEAK
        if callee.startswith('numpy.'):
            n = callee[6:]
            dk = self._dtype_kw(kwargs)
            if n in ALLOC:
                if dk is not None:
                    return dk
                return S64
            if n in LIKE:
                return dk if dk is not None else (cargs[0] if cargs else S64)
            if n in INDEX:
                return S64
            if n in ('float64', 'int64', 'float32', 'int32'):
                return S64
            if n.startswith('random.'):
                return S64
            if n == 'where' and len(cargs) == 3:
                a, b = cargs[1], cargs[2]
                if a in (WEAK, BOOL) and b in (WEAK, BOOL):
                    return S64
                return self.arith(I, a, b, node)
            if n in ('prod', 'sum', 'mean', 'log', 'exp', 'sqrt', 'floor', 'max', 'min') and cargs and cargs[0] in (WEAK,):
                return S64          # NumPy scalar results are strongly typed
            if n == 'broadcast_to' and cargs and cargs[0] == WEAK:
                return S64
            if n in SAME or True:
                if dk is not None:
                    return dk
                arrs = [x for x in cargs if x not in (WEAK, NONE)]
                if not arrs:
                    return S64 if n not in ('shape', 'ndim') else WEAK
                r = arrs[0]
                for x in arrs[1:]:
                    if n in ('tensordot', 'matmul', 'dot', 'multiply', 'add', 'subtract', 'divide', 'maximum', 'minimum', 'stack', 'concatenate', 'outer', 'einsum', 'power'):
                        r = self.arith(I, r, x, node)
                return r
        return S64

    def method(self, I, recv, name, args, kwargs, node):
        r = self.c(recv)
        if name == 'astype':
            a = args[0] if args else kwargs.get('dtype')
            if isinstance(a, tuple) and a[0] == 'DT':
                return a[1]
            return D32 if a == D32 else S64
        if name in ('argmax', 'argmin', 'argsort', 'nonzero'):
            return S64
        if name in ('item', 'tolist'):
            return WEAK
        if name in ('dot',) and args:
            return self.arith(I, r, args[0], node)
        if isinstance(recv, Tup):
            return WEAK
        dk = self._dtype_kw(kwargs)
        return dk if dk is not None else r
