"""MUST-DEPEND domain: the set of function parameters a value data-depends on along EVERY path.

value = frozenset of parameter names; join (path merge) = intersection; any operation = union of its inputs.
`for` loops are assumed to run at least once (the kernels' loops range over non-empty window/axis sets), so a
buffer filled inside a loop depends on what the loop body writes.
"""
import ast
from ..absint import Domain, Tup, Const, FuncRef, Interp
from ..report import Incomplete

EMPTY = frozenset()


class MustDep(Domain):
    name = 'mustdep'

    def top(self):
        return EMPTY

    def c(self, v):
        if isinstance(v, Tup):
            r = EMPTY
            for x in v.items:
                r = r | self.c(x)
            return r
        if isinstance(v, (Const, FuncRef)):
            return EMPTY
        if isinstance(v, tuple) and v and v[0] == '*':
            return self.c(v[1])
        if v is None:
            return EMPTY
        return v

    def join(self, a, b):
        return self.c(a) & self.c(b)

    def join_any(self, a, b):
        if a is None:
            return b
        if b is None:
            return a
        if isinstance(a, Tup) and isinstance(b, Tup) and len(a.items) == len(b.items):
            return Tup([self.join_any(x, y) for x, y in zip(a.items, b.items)], a.kind)
        if isinstance(a, Const) and isinstance(b, Const) and a == b:
            return a
        # None (absent optional result) does not weaken the other path's dependence
        if isinstance(a, Const) and a.v is None:
            return b
        if isinstance(b, Const) and b.v is None:
            return a
        return self.join(a, b)

    def param(self, I, func, name, index):
        return frozenset([name])

    def global_name(self, I, name):
        return EMPTY

    def attribute(self, I, base, attr, node):
        return self.c(base)

    def subscript(self, I, base, index, node):
        return self.c(base) | self.c(index)

    def binop(self, I, op, l, r, node):
        if isinstance(l, Tup) and isinstance(r, Tup) and isinstance(op, ast.Add):
            return Tup(l.items + r.items, l.kind)
        return self.c(l) | self.c(r)

    def unary(self, I, op, v, node):
        return self.c(v)

    def compare(self, I, node, vals):
        r = EMPTY
        for v in vals:
            r |= self.c(v)
        return r

    boolop = compare

    def ifexp(self, I, test, a, b, node):
        j = self.join_any(a, b)
        return self.c(j) | self.c(test)     # `x if c else y` also depends on c

    def iterate(self, I, val, node):
        return self.c(val)

    def fstring(self, I, node):
        return EMPTY

    def store_subscript(self, I, base, index, val, node, aug=None):
        if aug is None:
            # overwriting part of a buffer: the buffer keeps depending on what it did and now also on val
            return self.c(base) | self.c(val) | self.c(index)
        return self.c(base) | self.c(val) | self.c(index)

    def aug_name(self, I, op, old, new, node):
        if isinstance(old, Tup) and isinstance(new, Tup) and isinstance(op, ast.Add):
            return Tup(old.items + new.items, old.kind)
        return self.c(old) | self.c(new)

    def call(self, I, callee, args, kwargs, node):
        if callee is not None and callee in I.model.funcs:
            ret, sub = I.summarize(callee, args, kwargs)
            return ret if ret is not None else EMPTY
        if callee in ('builtins.zip',):
            return Tup([I.iter_elem(a, node) for a in args], 'zip')
        if callee == 'builtins.enumerate':
            return Tup([EMPTY, I.iter_elem(args[0], node)], 'zip')
        if callee in ('builtins.tuple', 'builtins.list') and len(args) == 1 and isinstance(args[0], Tup):
            return Tup(args[0].items, 'tuple')
        if callee and callee.startswith('numpy.') and callee.endswith('.at') and len(args) >= 3:
            t = node.args[0]
            if isinstance(t, ast.Name):
                I.rebind[t.id] = self.c(args[0]) | self.c(args[1]) | self.c(args[2])
            return EMPTY
        if callee in ('numpy.put_along_axis', 'numpy.copyto'):
            t = node.args[0]
            if isinstance(t, ast.Name):
                r = EMPTY
                for a in args:
                    r |= self.c(a)
                I.rebind[t.id] = r
            return EMPTY
        r = EMPTY
        for a in args:
            r |= self.c(a)
        for v in kwargs.values():
            r |= self.c(v)
        return r

    def method(self, I, recv, name, args, kwargs, node):
        r = self.c(recv)
        for a in args:
            r |= self.c(a)
        for v in kwargs.values():
            r |= self.c(v)
        return r


class DepInterp(Interp):
    """for-loops run at least once: the environment after the loop is the body's output"""
    def stmt(self, s, env):
        if isinstance(s, (ast.For, ast.AsyncFor)):
            self.current_stmt = s
            it = self.expr(s.iter, env)
            cur = dict(env)
            out = cur
            for _ in range(self.max_iter):
                body_env = self.assign(s.target, self.iter_elem(it, s), dict(cur), s)
                out, term = self.block(s.body, body_env)
                if self.env_eq(out, cur):
                    break
                cur = out
            return out, False
        return super().stmt(s, env)

    def summarize(self, callee_qual, arg_values, kwargs=None, domain=None):
        f = self.model.funcs.get(callee_qual)
        if f is None:
            raise Incomplete('callee %s not found' % callee_qual)
        if callee_qual in self.stack or self.depth > 6:
            raise Incomplete('recursive call chain at %s' % callee_qual)
        sub = DepInterp(self.model, f, self.domain, self.max_iter, self.depth + 1, self.stack)
        env = {}
        params = f.pos_params
        for p, v in zip(params, arg_values):
            env[p] = v
        for k, v in (kwargs or {}).items():
            env[k] = v
        for p, dnode in f.defaults().items():
            if p not in env:
                env[p] = sub.expr(dnode, {})
        for p in params:
            if p not in env:
                env[p] = EMPTY
        ret = sub.run(env)
        return ret, sub
