"""GRAD-LINEARITY domain: how a value depends on the upstream gradient of a backward kernel.

  ZERO    identically zero (np.zeros*): neutral for +, absorbing for *
  CONST   independent of the upstream gradient
  LIN     linear in the upstream gradient
  NONE    the literal None (absent optional operand / result)
  NONLIN  anything else (affine with non-zero offset, quadratic, f(grad), comparison on grad ...)

A VJP is linear in g; every slot returned by a backward kernel must be LIN (or NONE for an absent operand).
"""
import ast
from ..absint import Domain, Tup, Const, FuncRef
from ..report import Incomplete
from ..core import norm

ZERO, CONST, LIN, NONE, NONLIN = 'ZERO', 'CONST', 'LIN', 'NONE', 'NONLIN'

# numpy functions linear in their first (array) argument when the remaining arguments are CONST
NP_LINEAR_1 = {'sum', 'mean', 'swapaxes', 'moveaxis', 'transpose', 'reshape', 'squeeze', 'expand_dims', 'split', 'rollaxis',
               'ascontiguousarray', 'broadcast_to', 'copy', 'array', 'asarray', 'negative', 'flip', 'roll', 'ravel', 'cumsum', 'diag',
               'trace', 'real', 'atleast_1d', 'atleast_2d', 'atleast_3d', 'array_split', 'tile', 'repeat', 'take', 'diagonal', 'float32', 'float64',
               'lib.stride_tricks.as_strided', 'lib.stride_tricks.sliding_window_view', 'triu', 'tril', 'average', 'nansum'}
# bilinear: linear in each of the first two arguments
NP_BILINEAR = {'tensordot', 'matmul', 'dot', 'multiply', 'outer', 'inner', 'einsum', 'kron'}
NP_ZERO = {'zeros', 'zeros_like'}
# list-taking linear combiners
NP_LIST_LINEAR = {'stack', 'concatenate', 'vstack', 'hstack', 'dstack', 'add'}
# methods linear in the receiver
M_LINEAR = {'sum', 'mean', 'reshape', 'transpose', 'swapaxes', 'squeeze', 'copy', 'astype', 'ravel', 'flatten', 'view', 'cumsum',
            'repeat', 'take', 'diagonal', 'trace', 'tolist', 'item'}
M_BILINEAR = {'dot'}
CONST_ATTRS = {'shape', 'dtype', 'ndim', 'size', 'strides', 'flags', 'itemsize', 'nbytes', 'device'}
LINEAR_ATTRS = {'T', 'real', 'data', 'flat'}


class Linear(Domain):
    name = 'linear'

    def __init__(self, lin_params, affine=False):
        self.lin_params = set(lin_params)
        self.affine = affine        # affine mode: a gradient-independent addend keeps the value in the (affine) class LIN

    def top(self):
        return NONLIN

    def c(self, v):
        """collapse generic values to the lattice"""
        if isinstance(v, Tup):
            r = CONST if not v.items else None
            for x in v.items:
                cx = self.c(x)
                r = cx if r is None else self.join(r, cx)
            return r
        if isinstance(v, Const):
            return NONE if v.v is None else CONST
        if isinstance(v, FuncRef):
            return CONST
        if isinstance(v, tuple) and v and v[0] == '*':
            return self.c(v[1])
        return v

    def join(self, a, b):
        a, b = self.c(a), self.c(b)
        if a == b:
            return a
        if NONLIN in (a, b):
            return NONLIN
        if a == NONE:
            return b
        if b == NONE:
            return a
        if a == ZERO:
            return b
        if b == ZERO:
            return a
        if self.affine:
            return LIN
        return NONLIN           # CONST vs LIN: not linear on every path

    def literal(self, I, node):
        return Const(node.value)

    def param(self, I, func, name, index):
        return LIN if name in self.lin_params else CONST

    def global_name(self, I, name):
        return CONST

    def attribute(self, I, base, attr, node):
        b = self.c(base)
        if attr in CONST_ATTRS:
            return CONST
        if b in (CONST, NONE):
            return CONST
        if attr in LINEAR_ATTRS:
            return b
        if b in (ZERO, LIN):
            raise Incomplete('attribute .%s of a gradient-dependent value is not in the table (%s)' % (attr, norm(node)))
        return NONLIN

    def subscript(self, I, base, index, node):
        b, i = self.c(base), self.c(index)
        if i in (LIN, NONLIN):
            I.event('nonlin', node, why='index depends on the gradient')
            return NONLIN
        return b

    def _mul(self, l, r, node, I):
        if ZERO in (l, r):
            return ZERO
        if l == CONST and r == CONST:
            return CONST
        if (l, r) in ((LIN, CONST), (CONST, LIN)):
            return LIN
        if NONE in (l, r):
            return NONLIN
        I.event('nonlin', node, why='product of %s and %s' % (l, r))
        return NONLIN

    def binop(self, I, op, l, r, node):
        if isinstance(l, Tup) and isinstance(r, Tup) and isinstance(op, ast.Add):
            return Tup(l.items + r.items, l.kind)
        l, r = self.c(l), self.c(r)
        if NONLIN in (l, r):
            return NONLIN
        if isinstance(op, (ast.Add, ast.Sub)):
            if l == ZERO:
                return r
            if r == ZERO:
                return l
            if l == r and l in (LIN, CONST):
                return l
            if self.affine and {l, r} == {LIN, CONST}:
                return LIN
            I.event('nonlin', node, why='sum of %s and %s (a term independent of the gradient is added to a gradient term)' % (l, r))
            return NONLIN
        if isinstance(op, (ast.Mult, ast.MatMult)):
            return self._mul(l, r, node, I)
        if isinstance(op, ast.Div):
            if r == CONST:
                return l if l in (ZERO, LIN, CONST) else NONLIN
            I.event('nonlin', node, why='division by a %s value' % r)
            return NONLIN
        if l in (CONST, NONE) and r in (CONST, NONE):
            return CONST
        if l == ZERO and r == CONST and isinstance(op, (ast.FloorDiv, ast.Mod, ast.Pow)):
            return NONLIN if isinstance(op, ast.Pow) else ZERO
        I.event('nonlin', node, why='%s of %s and %s' % (type(op).__name__, l, r))
        return NONLIN

    def unary(self, I, op, v, node):
        v = self.c(v)
        if isinstance(op, (ast.USub, ast.UAdd)):
            return v if v != NONE else NONLIN
        if v in (CONST, NONE):
            return CONST
        I.event('nonlin', node, why='%s of a %s value' % (type(op).__name__, v))
        return NONLIN

    def compare(self, I, node, vals):
        cs = [self.c(v) for v in vals]
        if all(x in (CONST, NONE) for x in cs):
            return CONST
        if all(isinstance(o, (ast.Is, ast.IsNot)) for o in node.ops):
            return CONST            # identity tests (x is None) do not look at values
        I.event('nonlin', node, why='comparison on a gradient-dependent value')
        return NONLIN

    def boolop(self, I, node, vals):
        cs = [self.c(v) for v in vals]
        if all(x in (CONST, NONE) for x in cs):
            return CONST
        I.event('nonlin', node, why='boolean test on a gradient-dependent value')
        return NONLIN

    def ifexp(self, I, test, a, b, node):
        if self.c(test) not in (CONST, NONE):
            return NONLIN
        return self.join_any(a, b)

    def iterate(self, I, val, node):
        return self.c(val)

    def fstring(self, I, node):
        return CONST

    # ---------------------------------------------------------------- stores
    def store_subscript(self, I, base, index, val, node, aug=None):
        b, i, v = self.c(base), self.c(index), self.c(val)
        if i in (LIN, NONLIN):
            return NONLIN
        if aug is None:
            if b == ZERO:
                return v if v != NONE else NONLIN
            if b == v:
                return b
            if b == LIN and v == ZERO:
                return LIN
            if b == CONST and v in (CONST, ZERO):
                return CONST
            I.event('nonlin', node, why='store of a %s value into a %s buffer' % (v, b))
            return NONLIN
        fake = ast.BinOp(left=ast.Name(id='_', ctx=ast.Load()), op=aug, right=ast.Name(id='_', ctx=ast.Load()))
        ast.copy_location(fake, node)
        return self.binop(I, aug, b, v, node)

    def store_attr(self, I, base, attr, val, node, aug=None):
        return None

    def aug_name(self, I, op, old, new, node):
        if isinstance(old, Tup) and isinstance(new, Tup) and isinstance(op, ast.Add):
            return Tup(old.items + new.items, old.kind)
        return self.binop(I, op, old, new, node)

    # ---------------------------------------------------------------- calls
    def call(self, I, callee, args, kwargs, node):
        cargs = [self.c(a) for a in args]
        ckw = {k: self.c(v) for k, v in kwargs.items()}
        allv = cargs + list(ckw.values())
        if callee is None:
            return CONST if all(x in (CONST, NONE, ZERO) for x in allv) else NONLIN
        if callee.startswith('builtins.'):
            return self._builtin(I, callee[9:], args, cargs, node)
        if callee.startswith('numpy.'):
            return self._numpy(I, callee[6:], args, cargs, kwargs, ckw, node)
        if callee in I.model.funcs:
            ret, sub = I.summarize(callee, args, kwargs)
            return ret if ret is not None else NONE
        if callee in I.model.classes:
            return CONST if all(x in (CONST, NONE) for x in allv) else NONLIN
        if callee.startswith('math.'):
            if all(x in (CONST, NONE) for x in allv):
                return CONST
            return NONLIN
        if all(x in (CONST, NONE) for x in allv):
            return CONST
        raise Incomplete('call of unknown function %s on gradient-dependent arguments (%s)' % (callee, norm(node)))

    def _builtin(self, I, name, args, cargs, node):
        if name == '<comprehension>':
            return cargs[0]
        if name in ('zip',):
            return Tup([I.iter_elem(a, node) for a in args], 'zip')
        if name == 'enumerate':
            return Tup([CONST, I.iter_elem(args[0], node)], 'zip')
        if name in ('tuple', 'list', 'reversed', 'iter'):
            if len(args) == 1 and isinstance(args[0], Tup):
                return Tup(args[0].items if name != 'reversed' else args[0].items[::-1], 'tuple')
            return cargs[0] if cargs else CONST
        if name in ('len', 'isinstance', 'type', 'id', 'hasattr', 'print', 'callable', 'range', 'slice', 'str'):
            return CONST
        if name == 'sum':
            r = cargs[0] if cargs else CONST
            return r
        if all(x in (CONST, NONE) for x in cargs):
            return CONST
        if name in ('float', 'int') and cargs and cargs[0] == LIN:
            return LIN if name == 'float' else NONLIN
        I.event('nonlin', node, why='builtin %s on a gradient-dependent value' % name)
        return NONLIN

    def _numpy(self, I, name, args, cargs, kwargs, ckw, node):
        allv = cargs + list(ckw.values())
        grad_dep = any(x in (LIN, ZERO, NONLIN) for x in allv)
        if name in NP_ZERO:
            return ZERO
        if name in ('add.at', 'subtract.at'):
            # in-place scatter-add: target (+)= value at constant indices
            tgt, idx, val = cargs[0], cargs[1], cargs[2]
            res = self.binop(I, ast.Add(), tgt, val, node) if idx in (CONST, NONE) else NONLIN
            t = node.args[0]
            if isinstance(t, ast.Name):
                I.rebind[t.id] = res
            return NONE
        if name == 'put_along_axis':
            tgt, idx, val = cargs[0], cargs[1], cargs[2]
            res = self.store_subscript(I, tgt, idx, val, node)
            t = node.args[0]
            if isinstance(t, ast.Name):
                I.rebind[t.id] = res
            return NONE
        if name == 'copyto':
            t = node.args[0]
            if isinstance(t, ast.Name):
                I.rebind[t.id] = cargs[1]
            return NONE
        if not grad_dep or all(x in (CONST, NONE) for x in allv):
            return CONST
        if NONLIN in allv:
            return NONLIN
        if name in NP_LINEAR_1:
            first = cargs[0] if cargs else ckw.get('a', ckw.get('arr', ckw.get('x', NONLIN)))
            rest = cargs[1:] + [v for k, v in ckw.items() if k not in ('a', 'arr', 'x')]
            if all(x in (CONST, NONE) for x in rest):
                return first
            I.event('nonlin', node, why='non-constant auxiliary argument of np.%s' % name)
            return NONLIN
        if name in NP_BILINEAR:
            if name == 'einsum':
                ops = cargs[1:]
                r = CONST
                for o in ops:
                    r = self._mul(r, o, node, I)
                return r
            l, r = cargs[0], cargs[1]
            rest = cargs[2:] + list(ckw.values())
            if not all(x in (CONST, NONE) for x in rest):
                return NONLIN
            return self._mul(l, r, node, I)
        if name in NP_LIST_LINEAR:
            if name == 'add':
                return self.binop(I, ast.Add(), cargs[0], cargs[1], node)
            first = cargs[0]
            rest = cargs[1:] + list(ckw.values())
            return first if all(x in (CONST, NONE) for x in rest) else NONLIN
        if name in ('subtract',):
            return self.binop(I, ast.Sub(), cargs[0], cargs[1], node)
        if name in ('divide', 'true_divide'):
            return self.binop(I, ast.Div(), cargs[0], cargs[1], node)
        if name == 'where':
            if len(cargs) == 3 and cargs[0] in (CONST,):
                a, b = cargs[1], cargs[2]
                j = self.join(a, b)
                return j
            I.event('nonlin', node, why='np.where whose condition depends on the gradient')
            return NONLIN
        if name == 'pad':
            cv = kwargs.get('constant_values')
            mode = kwargs.get('mode')
            zero_pad = cv is None or (isinstance(cv, Const) and cv.v == 0)
            if cargs[0] in (LIN, ZERO) and all(x in (CONST, NONE) for x in cargs[1:]) and zero_pad:
                return cargs[0]
            I.event('nonlin', node, why='padding a gradient with a value that is not the literal 0 is affine, not linear')
            return NONLIN
        if name in ('ones_like', 'empty_like', 'full_like', 'shape', 'ndim', 'size', 'result_type'):
            return CONST
        if name in ('exp', 'log', 'sqrt', 'abs', 'absolute', 'maximum', 'minimum', 'tanh', 'sign', 'power', 'square', 'argmax', 'argmin',
                    'max', 'min', 'amax', 'amin', 'clip', 'log1p', 'expm1', 'prod', 'var', 'std', 'isnan', 'isfinite', 'floor', 'ceil',
                    'round', 'greater', 'less', 'equal', 'not_equal', 'logical_and', 'logical_or', 'logical_not', 'any', 'all', 'sort',
                    'argsort', 'unique', 'nonzero', 'count_nonzero', 'sin', 'cos', 'reciprocal', 'linalg.norm', 'cumprod', 'unravel_index'):
            I.event('nonlin', node, why='np.%s of a gradient-dependent value' % name)
            return NONLIN
        raise Incomplete('np.%s applied to a gradient-dependent value is not in the linearity table (%s)' % (name, norm(node)))

    def decide(self, I, test, env):
        """presence tests on parameters the analysis was told are present (self.present) or absent (self.absent): `p is None`, `p is not None`, `p`, `not p`"""
        present, absent = getattr(self, 'present', ()), getattr(self, 'absent', ())
        if not present and not absent:
            return None

        def ev(e):
            if isinstance(e, ast.UnaryOp) and isinstance(e.op, ast.Not):
                r = ev(e.operand)
                return None if r is None else not r
            if isinstance(e, ast.BoolOp):
                rs = [ev(v) for v in e.values]
                if isinstance(e.op, ast.And):
                    return False if any(r is False for r in rs) else (True if all(r is True for r in rs) else None)
                return True if any(r is True for r in rs) else (False if all(r is False for r in rs) else None)
            if isinstance(e, ast.Compare) and len(e.ops) == 1 and isinstance(e.ops[0], (ast.Is, ast.IsNot)) and isinstance(e.left, ast.Name) \
                    and isinstance(e.comparators[0], ast.Constant) and e.comparators[0].value is None:
                if e.left.id in present:
                    return isinstance(e.ops[0], ast.IsNot)
                if e.left.id in absent:
                    return isinstance(e.ops[0], ast.Is)
            return None
        return ev(test)

    def dict_literal(self, I, keys, values, node):
        # a table of gradient-independent entries is gradient independent (lookups / .get on it with such keys stay CONST)
        if all(self.c(x) in (CONST, NONE) for x in list(keys) + list(values)):
            return CONST
        return self.top()

    def method(self, I, recv, name, args, kwargs, node):
        r = self.c(recv)
        cargs = [self.c(a) for a in args]
        ckw = {k: self.c(v) for k, v in kwargs.items()}
        allv = cargs + list(ckw.values())
        if isinstance(recv, Tup) and name in ('append', 'extend', 'insert', 'index', 'count', 'pop'):
            return CONST if all(x in (CONST, NONE) for x in allv) and r in (CONST, NONE) else NONLIN
        if r in (CONST, NONE):
            if all(x in (CONST, NONE) for x in allv):
                return CONST
            if name in M_BILINEAR and len(cargs) == 1:
                return self._mul(CONST, cargs[0], node, I)
            I.event('nonlin', node, why='method .%s of a constant with gradient-dependent arguments' % name)
            return NONLIN
        if r == NONLIN:
            return NONLIN
        if name in M_LINEAR:
            if all(x in (CONST, NONE) for x in allv):
                return r
            return NONLIN
        if name in M_BILINEAR and len(cargs) == 1:
            return self._mul(r, cargs[0], node, I)
        if name in ('max', 'min', 'argmax', 'argmin', 'prod', 'var', 'std', 'clip', 'round', 'any', 'all', 'nonzero', 'sort', 'argsort'):
            I.event('nonlin', node, why='.%s() of a gradient-dependent value' % name)
            return NONLIN
        if name in ('fill',):
            return NONLIN
        raise Incomplete('method .%s on a gradient-dependent value is not in the linearity table (%s)' % (name, norm(node)))
