"""setup_cmd: verify that the interpreter and libraries the static checks need are present (offline)."""
import sys, os
def main():
    import ast, symtable, json
    try:
        import networkx
    except ImportError:
        import glob
        wheels = glob.glob('/opt/veriftools/wheels/networkx-*.whl')
        if not wheels:
            print('ANALYSIS-ERROR: networkx is not importable and no wheel is available'); return 2
        sys.path.insert(0, wheels[0])
        import networkx
    os.makedirs(os.path.join(os.path.dirname(os.path.dirname(os.path.abspath(__file__))), 'evidence'), exist_ok=True)
    print('bootstrap ok: python %s, networkx %s' % (sys.version.split()[0], networkx.__version__))
    return 0
if __name__ == '__main__':
    sys.exit(main())
