"""Source normalisation applied to every module before it is indexed, so that rules see one spelling of equivalent code:

  1. NumPy ufunc calls -> operators          np.add(a, b) -> a + b ; np.negative(a) -> -a ; np.multiply / subtract / divide / power / matmul
  2. ndarray method forms -> function forms  (kernel modules only, where every receiver is an ndarray)
                                             a.sum(axis=k) -> np.sum(a, axis=k) ; a.reshape(p, q) -> np.reshape(a, (p, q)) ; a.transpose(1, 2, 0) -> np.transpose(a, (1, 2, 0))
  3. x = a if c else b  ->  if c: x = a / else: x = b   (also for return)
  4. private helper inlining                 module-level functions / methods whose name starts with '_' and whose body is straight-line code
                                             ending in one `return` are inlined at their call sites (statement position; pure single-expression
                                             helpers also in expression position).  Locals of the helper are renamed apart.

All three are behaviour preserving by construction; they only remove spelling differences (a refactoring that extracts a helper or switches
spelling must not change any verdict).  Positions (lineno) of the original nodes are kept for reports.
"""
import ast
import copy

UFUNC_BIN = {'add': ast.Add, 'subtract': ast.Sub, 'multiply': ast.Mult, 'divide': ast.Div, 'true_divide': ast.Div, 'power': ast.Pow, 'matmul': ast.MatMult,
             'floor_divide': ast.FloorDiv, 'mod': ast.Mod}
UFUNC_UN = {'negative': ast.USub, 'positive': ast.UAdd}
METHODS = {'sum', 'mean', 'max', 'min', 'var', 'std', 'prod', 'argmax', 'argmin', 'reshape', 'transpose', 'swapaxes', 'squeeze', 'repeat', 'cumsum', 'dot', 'clip', 'all', 'any'}
KERNEL_MODULES = ('synapgrad.cpu_ops', 'synapgrad.conv_tools')


def _np_name(func):
    """'sum' for np.sum / numpy.sum"""
    if isinstance(func, ast.Attribute) and isinstance(func.value, ast.Name) and func.value.id in ('np', 'numpy'):
        return func.attr
    return None


class Spelling(ast.NodeTransformer):
    def __init__(self, methods):
        self.methods = methods

    def visit_Call(self, node):
        self.generic_visit(node)
        n = _np_name(node.func)
        if n in UFUNC_BIN and len(node.args) == 2 and not node.keywords and not any(isinstance(a, ast.Starred) for a in node.args):
            return ast.copy_location(ast.BinOp(left=node.args[0], op=UFUNC_BIN[n](), right=node.args[1]), node)
        if n in UFUNC_UN and len(node.args) == 1 and not node.keywords:
            return ast.copy_location(ast.UnaryOp(op=UFUNC_UN[n](), operand=node.args[0]), node)
        if n == 'transpose' and len(node.args) == 1 and not node.keywords and not isinstance(node.args[0], ast.Starred):
            return ast.copy_location(ast.Attribute(value=node.args[0], attr='T', ctx=ast.Load()), node)     # reverses all axes, exactly like .T
        if self.methods and isinstance(node.func, ast.Attribute) and node.func.attr in METHODS and _np_name(node.func) is None:
            recv = node.func.value
            if isinstance(recv, ast.Name) and recv.id in ('np', 'numpy', 'math', 'self'):
                return node
            m = node.func.attr
            args = list(node.args)
            if m in ('reshape', 'transpose') and (len(args) != 1 or isinstance(args[0], ast.Starred)):
                if m == 'transpose' and not args:
                    new_args = [recv]
                else:
                    new_args = [recv, ast.copy_location(ast.Tuple(elts=args, ctx=ast.Load()), node)]
            else:
                new_args = [recv] + args
            f = ast.copy_location(ast.Attribute(value=ast.copy_location(ast.Name(id='np', ctx=ast.Load()), node), attr=m, ctx=ast.Load()), node)
            return ast.copy_location(ast.Call(func=f, args=new_args, keywords=node.keywords), node)
        return node


class IfAssign(ast.NodeTransformer):
    """x = a if c else b   ->   if c: x = a
                                else: x = b            (statement-level conditional expressions become branches: the CFG then carries the
    return a if c else b   ->   if c: return a          condition as a path fact, exactly as for the hand-written if / else form)
                                else: return b"""
    def _split(self, node, make):
        v = node.value
        body, orelse = make(v.body), make(v.orelse)
        for x in (body, orelse):
            ast.copy_location(x, node)
        new = ast.copy_location(ast.If(test=v.test, body=[self.visit(body)], orelse=[self.visit(orelse)]), node)
        return new

    def visit_Assign(self, node):
        if isinstance(node.value, ast.IfExp) and len(node.targets) == 1 and isinstance(node.targets[0], (ast.Name, ast.Attribute)):
            import copy
            return self._split(node, lambda val: ast.Assign(targets=[copy.deepcopy(node.targets[0])], value=val))
        return node

    def visit_Return(self, node):
        if isinstance(node.value, ast.IfExp):
            return self._split(node, lambda val: ast.Return(value=val))
        return node

    def visit_Lambda(self, node):
        return node


# ------------------------------------------------------------------------------------------------ helper inlining
def _simple_helper(fn):
    """(params, body statements, return expr) for a straight-line helper: Assign/AugAssign/Expr statements then one Return; no defaults use,
    no nested control flow, no *args/**kwargs"""
    a = fn.args
    if a.vararg or a.kwarg or a.kwonlyargs or a.posonlyargs:
        return None
    body = [s for s in fn.body if not (isinstance(s, ast.Expr) and isinstance(s.value, ast.Constant))]
    if not body:
        return None
    if not isinstance(body[-1], ast.Return) or body[-1].value is None:
        # a procedure: no return anywhere -> its "value" is None
        if any(isinstance(n, ast.Return) for s in body for n in ast.walk(s)):
            return None
        body = body + [ast.Return(value=ast.Constant(value=None))]
    for s in body[:-1]:
        if not isinstance(s, (ast.Assign, ast.AugAssign, ast.AnnAssign, ast.If, ast.For, ast.Expr)):
            return None
        for n in ast.walk(s):
            if isinstance(n, (ast.Return, ast.Raise, ast.Break, ast.Continue)) and not isinstance(s, (ast.Assign, ast.AugAssign, ast.AnnAssign)):
                return None
    for s in body:
        for n in ast.walk(s):
            if isinstance(n, (ast.Yield, ast.YieldFrom, ast.Lambda, ast.FunctionDef, ast.NamedExpr, ast.Global, ast.Nonlocal, ast.Try, ast.With, ast.While)):
                return None
    if fn.decorator_list:
        return None
    return [x.arg for x in a.args], body[:-1], body[-1].value, a.defaults


class _Rename(ast.NodeTransformer):
    def __init__(self, mapping):
        self.mapping = mapping

    def visit_Name(self, n):
        if n.id in self.mapping:
            r = self.mapping[n.id]
            if isinstance(r, str):
                return ast.copy_location(ast.Name(id=r, ctx=n.ctx), n)
            if isinstance(n.ctx, ast.Load):
                return copy.deepcopy(r)
        return n


def _bind(params, defaults, call, skip_self=False):
    ps = params[1:] if skip_self else params
    if any(isinstance(a, ast.Starred) for a in call.args) or any(k.arg is None for k in call.keywords):
        return None
    if len(call.args) > len(ps):
        return None
    b = dict(zip(ps, call.args))
    for k in call.keywords:
        if k.arg not in ps or k.arg in b:
            return None
        b[k.arg] = k.value
    dps = params[len(params) - len(defaults):] if defaults else []
    for p, d in zip(dps, defaults):
        if p in ps and p not in b:
            b[p] = d
    if set(b) != set(ps):
        return None
    return b


class Inliner:
    def __init__(self, tree):
        self.tree = tree
        self.counter = 0
        self.expanded = {}
        self.helpers = {}       # name -> FunctionDef (module level, private)
        self.methods = {}       # (class name, method name) -> FunctionDef (private methods)
        for n in tree.body:
            if isinstance(n, ast.FunctionDef) and n.name.startswith('_') and not n.name.startswith('__'):
                self.helpers[n.name] = n
            if isinstance(n, ast.ClassDef):
                for m in n.body:
                    if isinstance(m, ast.FunctionDef) and m.name.startswith('_') and not m.name.startswith('__') and not m.decorator_list:
                        self.methods[(n.name, m.name)] = m

    def callee(self, call, cls):
        f = call.func
        if isinstance(f, ast.Name) and f.id in self.helpers:
            return self.helpers[f.id], False
        if cls is not None and isinstance(f, ast.Attribute) and isinstance(f.value, ast.Name) and f.value.id == 'self' and (cls, f.attr) in self.methods:
            return self.methods[(cls, f.attr)], True
        return None, False

    def expand_call(self, call, cls, depth):
        """-> (prefix statements, value expression) or None"""
        fn, is_method = self.callee(call, cls)
        if fn is None or depth > 3:
            return None
        sh = _simple_helper(fn)
        if sh is None:
            return None
        params, stmts, ret, defaults = sh
        b = _bind(params, defaults, call, skip_self=is_method)
        if b is None:
            return None
        self.counter += 1
        self.expanded[id(fn)] = self.expanded.get(id(fn), 0) + 1
        tag = '__%s_%d' % (fn.name.strip('_'), self.counter)
        local = set()
        for s in stmts:
            for n in ast.walk(s):
                if isinstance(n, ast.Name) and isinstance(n.ctx, ast.Store):
                    local.add(n.id)
        mapping = {}
        pre = []
        for p, arg in b.items():
            # a parameter that is re-assigned in the helper, or an argument that is not a plain name / constant and used several times, gets a temporary
            uses = sum(1 for s in stmts + [ast.Expr(value=ret)] for n in ast.walk(s) if isinstance(n, ast.Name) and n.id == p)
            if p in local or (uses > 1 and not isinstance(arg, (ast.Name, ast.Constant, ast.Attribute))):
                t = p + tag
                pre.append(ast.copy_location(ast.Assign(targets=[ast.Name(id=t, ctx=ast.Store())], value=copy.deepcopy(arg), lineno=call.lineno), call))
                mapping[p] = t
            else:
                mapping[p] = arg
        for l in local:
            if l not in mapping or not isinstance(mapping[l], str):
                mapping[l] = l + tag
        out = list(pre)
        rn = _Rename(mapping)
        for s in stmts:
            ns = rn.visit(copy.deepcopy(s))
            for n in ast.walk(ns):
                if hasattr(n, 'lineno'):
                    n.lineno = call.lineno
            ast.copy_location(ns, call)
            out.append(ns)
        val = rn.visit(copy.deepcopy(ret))
        for n in ast.walk(val):
            if hasattr(n, 'lineno'):
                n.lineno = getattr(call, 'lineno', 0)
        ast.fix_missing_locations(val)
        for s in out:
            ast.fix_missing_locations(s)
        return out, val

    def process_function(self, fn, cls, depth=0):
        fn.body = self.process_block(fn.body, cls, depth, fn)

    def process_block(self, stmts, cls, depth, owner):
        out = []
        for s in stmts:
            for fld in ('body', 'orelse', 'finalbody'):
                if hasattr(s, fld) and isinstance(getattr(s, fld), list) and not isinstance(s, (ast.FunctionDef, ast.ClassDef)):
                    setattr(s, fld, self.process_block(getattr(s, fld), cls, depth, owner))
            if isinstance(s, ast.Try):
                for h in s.handlers:
                    h.body = self.process_block(h.body, cls, depth, owner)
            if isinstance(s, ast.FunctionDef):
                s.body = self.process_block(s.body, cls, depth, s)
                out.append(s)
                continue
            if isinstance(s, (ast.Assign, ast.AugAssign, ast.Return, ast.Expr, ast.AnnAssign)) and getattr(s, 'value', None) is not None:
                pre, newv = self.rewrite_expr(s.value, cls, depth, owner)
                if pre or newv is not s.value:
                    s.value = newv
                    out.extend(self.process_block(pre, cls, depth + 1, owner))
            out.append(s)
        return out

    def rewrite_expr(self, e, cls, depth, owner):
        """replace helper calls inside expression e; returns (prefix statements, new expression)"""
        prefix = []
        me = self

        class T(ast.NodeTransformer):
            def visit_Lambda(self, n):
                return n

            def visit_ListComp(self, n):
                return n

            def visit_GeneratorExp(self, n):
                return n

            def visit_IfExp(self, n):
                n.test = self.visit(n.test)
                return n        # do not hoist calls out of conditionally evaluated branches

            def visit_BoolOp(self, n):
                n.values[0] = self.visit(n.values[0])
                return n

            def visit_Call(self, n):
                self.generic_visit(n)
                fnode, _ = me.callee(n, cls)
                if fnode is owner or fnode is None:
                    return n
                r = me.expand_call(n, cls, depth)
                if r is None:
                    return n
                pre, val = r
                prefix.extend(pre)
                return val
        new = T().visit(e)
        return prefix, new


def _drop_dead_helpers(tree, inl):
    """a private helper that was inlined at every use is no longer part of the program: remove its definition, so that who-may-write / purity rules
    attribute its effects to the (inlined) call sites only"""
    def refs(name, is_method, skip):
        n = 0
        for node in ast.walk(tree):
            if node is skip:
                continue
            if not is_method and isinstance(node, ast.Name) and node.id == name:
                n += 1
            if is_method and isinstance(node, ast.Attribute) and node.attr == name:
                n += 1
        return n
    for name, fn in list(inl.helpers.items()):
        inner = sum(1 for x in ast.walk(fn) if isinstance(x, ast.Name) and x.id == name)
        if inl.expanded.get(id(fn)) and refs(name, False, None) - inner == 0 and fn in tree.body:
            tree.body.remove(fn)
    for (cls, name), fn in list(inl.methods.items()):
        inner = sum(1 for x in ast.walk(fn) if isinstance(x, ast.Attribute) and x.attr == name)
        if inl.expanded.get(id(fn)) and refs(name, True, None) - inner == 0:
            for c in tree.body:
                if isinstance(c, ast.ClassDef) and c.name == cls and fn in c.body:
                    c.body.remove(fn)


def normalize_module(tree, modname):
    Spelling(methods=modname in KERNEL_MODULES).visit(tree)
    inl = Inliner(tree)
    if inl.helpers or inl.methods:
        for n in tree.body:
            if isinstance(n, ast.FunctionDef):
                inl.process_function(n, None)
            elif isinstance(n, ast.ClassDef):
                for m in n.body:
                    if isinstance(m, ast.FunctionDef):
                        inl.process_function(m, n.name)
    if inl.helpers or inl.methods:
        _drop_dead_helpers(tree, inl)
    IfAssign().visit(tree)         # after inlining: a helper `return a if c else b` is inlined as an expression first
    ast.fix_missing_locations(tree)
    return tree
