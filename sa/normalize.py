"""Source normalisation applied to every module before it is indexed, so that rules see one spelling of equivalent code:

  1. NumPy ufunc calls -> operators          np.add(a, b) -> a + b ; np.negative(a) -> -a ; np.multiply / subtract / divide / power / matmul
  2. ndarray method forms -> function forms  (kernel modules only, where every receiver is an ndarray)
                                             a.sum(axis=k) -> np.sum(a, axis=k) ; a.reshape(p, q) -> np.reshape(a, (p, q)) ; a.transpose(1, 2, 0) -> np.transpose(a, (1, 2, 0))
  3. x = a if c else b  ->  if c: x = a / else: x = b   (also for return)
  4. index loops -> element loops, append loops -> comprehensions (LoopCanon, AppendLoop)
  5. private helper inlining                 module-level functions / methods whose name starts with '_' and whose body is straight-line code
                                             ending in one `return` are inlined at their call sites (statement position; pure single-expression
                                             helpers also in expression position).  Locals of the helper are renamed apart.

All three are behaviour preserving by construction; they only remove spelling differences (a refactoring that extracts a helper or switches
spelling must not change any verdict).  Positions (lineno) of the original nodes are kept for reports.
"""
import ast
import copy

UFUNC_BIN = {'add': ast.Add, 'subtract': ast.Sub, 'multiply': ast.Mult, 'divide': ast.Div, 'true_divide': ast.Div, 'power': ast.Pow, 'matmul': ast.MatMult,
             'floor_divide': ast.FloorDiv, 'mod': ast.Mod}
UFUNC_UN = {'negative': ast.USub, 'positive': ast.UAdd}
METHODS = {'sum', 'mean', 'max', 'min', 'var', 'std', 'prod', 'argmax', 'argmin', 'reshape', 'transpose', 'swapaxes', 'squeeze', 'repeat', 'cumsum', 'dot', 'clip', 'all', 'any'}
KERNEL_MODULES = ('synapgrad.cpu_ops', 'synapgrad.conv_tools')


def _np_name(func):
    """'sum' for np.sum / numpy.sum"""
    if isinstance(func, ast.Attribute) and isinstance(func.value, ast.Name) and func.value.id in ('np', 'numpy'):
        return func.attr
    return None


class Spelling(ast.NodeTransformer):
    def __init__(self, methods):
        self.methods = methods

    OPERATOR_BIN = {'add': ast.Add, 'sub': ast.Sub, 'mul': ast.Mult, 'truediv': ast.Div, 'floordiv': ast.FloorDiv, 'mod': ast.Mod, 'pow': ast.Pow, 'matmul': ast.MatMult}
    OPERATOR_CMP = {'eq': ast.Eq, 'ne': ast.NotEq, 'lt': ast.Lt, 'le': ast.LtE, 'gt': ast.Gt, 'ge': ast.GtE, 'is_': ast.Is, 'is_not': ast.IsNot}

    @staticmethod
    def _getter_lambda(kind, node):
        x = ast.Name(id='x__g', ctx=ast.Load())
        args = ast.arguments(posonlyargs=[], args=[ast.arg(arg='x__g')], vararg=None, kwonlyargs=[], kw_defaults=[], kwarg=None, defaults=[])
        pure = lambda e: all(isinstance(y, (ast.Name, ast.Constant, ast.Attribute, ast.Load, ast.UnaryOp, ast.USub, ast.Tuple)) for y in ast.walk(e))
        if kind == 'itemgetter' and node.args and not node.keywords and all(pure(a) for a in node.args):
            items = [ast.Subscript(value=x, slice=a, ctx=ast.Load()) for a in node.args]
            body = items[0] if len(items) == 1 else ast.Tuple(elts=items, ctx=ast.Load())
            return ast.Lambda(args=args, body=body)
        if kind == 'attrgetter' and node.args and not node.keywords and all(isinstance(a, ast.Constant) and isinstance(a.value, str) and all(p_.isidentifier() for p_ in a.value.split('.')) for a in node.args):
            def chain(path):
                e = x
                for p_ in path.split('.'):
                    e = ast.Attribute(value=e, attr=p_, ctx=ast.Load())
                return e
            items = [chain(a.value) for a in node.args]
            body = items[0] if len(items) == 1 else ast.Tuple(elts=items, ctx=ast.Load())
            return ast.Lambda(args=args, body=body)
        if kind == 'methodcaller' and node.args and isinstance(node.args[0], ast.Constant) and isinstance(node.args[0].value, str) and node.args[0].value.isidentifier() \
                and all(pure(a) for a in node.args[1:]) and all(k.arg is not None and pure(k.value) for k in node.keywords):
            body = ast.Call(func=ast.Attribute(value=x, attr=node.args[0].value, ctx=ast.Load()), args=list(node.args[1:]), keywords=list(node.keywords))
            return ast.Lambda(args=args, body=body)
        return None

    def visit_Attribute(self, node):
        self.generic_visit(node)
        # math.inf / math.pi / math.e / math.nan are the same floats as np.inf / np.pi / np.e (nan: any nan)
        if isinstance(node.value, ast.Name) and node.value.id in getattr(self, 'math_aliases', ()) and node.attr in ('inf', 'pi', 'e', 'nan') and isinstance(node.ctx, ast.Load):
            return ast.copy_location(ast.Attribute(value=ast.Name(id='np', ctx=ast.Load()), attr=node.attr, ctx=ast.Load()), node)
        return node

    def visit_Call(self, node):
        self.generic_visit(node)
        # operator.add(a, b) -> a + b ; operator.neg(a) -> -a ; operator.getitem(a, i) -> a[i] ; operator.not_(a) -> not a
        f0 = node.func
        nm = None
        if not node.keywords and not any(isinstance(a, ast.Starred) for a in node.args):
            if isinstance(f0, ast.Attribute) and isinstance(f0.value, ast.Name) and f0.value.id in getattr(self, 'operator_aliases', ()):
                nm = f0.attr
            elif isinstance(f0, ast.Name) and f0.id in getattr(self, 'operator_names', {}):
                nm = self.operator_names[f0.id]
        # operator.itemgetter(i) / attrgetter('a') / methodcaller('m', ..) are the lambdas  x -> x[i] / x.a / x.m(..)
        gname = None
        if not any(isinstance(a, ast.Starred) for a in node.args):
            if isinstance(f0, ast.Attribute) and isinstance(f0.value, ast.Name) and f0.value.id in getattr(self, 'operator_aliases', ()) and f0.attr in ('itemgetter', 'attrgetter', 'methodcaller'):
                gname = f0.attr
            elif isinstance(f0, ast.Name) and getattr(self, 'operator_names', {}).get(f0.id) in ('itemgetter', 'attrgetter', 'methodcaller'):
                gname = self.operator_names[f0.id]
        if gname is not None:
            lam = self._getter_lambda(gname, node)
            if lam is not None:
                return ast.copy_location(lam, node)
        if nm is not None:
            if nm in self.OPERATOR_BIN and len(node.args) == 2:
                return ast.copy_location(ast.BinOp(left=node.args[0], op=self.OPERATOR_BIN[nm](), right=node.args[1]), node)
            if nm in self.OPERATOR_CMP and len(node.args) == 2:
                return ast.copy_location(ast.Compare(left=node.args[0], ops=[self.OPERATOR_CMP[nm]()], comparators=[node.args[1]]), node)
            if nm == 'neg' and len(node.args) == 1:
                return ast.copy_location(ast.UnaryOp(op=ast.USub(), operand=node.args[0]), node)
            if nm == 'not_' and len(node.args) == 1:
                return ast.copy_location(ast.UnaryOp(op=ast.Not(), operand=node.args[0]), node)
            if nm == 'getitem' and len(node.args) == 2:
                return ast.copy_location(ast.Subscript(value=node.args[0], slice=node.args[1], ctx=ast.Load()), node)
        n = _np_name(node.func)
        if n in UFUNC_BIN and len(node.args) == 2 and not node.keywords and not any(isinstance(a, ast.Starred) for a in node.args):
            return ast.copy_location(ast.BinOp(left=node.args[0], op=UFUNC_BIN[n](), right=node.args[1]), node)
        if n in UFUNC_UN and len(node.args) == 1 and not node.keywords:
            return ast.copy_location(ast.UnaryOp(op=UFUNC_UN[n](), operand=node.args[0]), node)
        if n == 'transpose' and len(node.args) == 1 and not node.keywords and not isinstance(node.args[0], ast.Starred):
            return ast.copy_location(ast.Attribute(value=node.args[0], attr='T', ctx=ast.Load()), node)     # reverses all axes, exactly like .T
        if self.methods and isinstance(node.func, ast.Attribute) and node.func.attr in METHODS and _np_name(node.func) is None:
            recv = node.func.value
            if isinstance(recv, ast.Name) and recv.id in ('np', 'numpy', 'math', 'self'):
                return node
            m = node.func.attr
            args = list(node.args)
            if m in ('reshape', 'transpose') and (len(args) != 1 or isinstance(args[0], ast.Starred)):
                if m == 'transpose' and not args:
                    new_args = [recv]
                else:
                    new_args = [recv, ast.copy_location(ast.Tuple(elts=args, ctx=ast.Load()), node)]
            else:
                new_args = [recv] + args
            f = ast.copy_location(ast.Attribute(value=ast.copy_location(ast.Name(id='np', ctx=ast.Load()), node), attr=m, ctx=ast.Load()), node)
            return ast.copy_location(ast.Call(func=f, args=new_args, keywords=node.keywords), node)
        return node


class IfAssign(ast.NodeTransformer):
    """x = a if c else b   ->   if c: x = a
                                else: x = b            (statement-level conditional expressions become branches: the CFG then carries the
    return a if c else b   ->   if c: return a          condition as a path fact, exactly as for the hand-written if / else form)
                                else: return b"""
    def _split(self, node, make):
        v = node.value
        body, orelse = make(v.body), make(v.orelse)
        for x in (body, orelse):
            ast.copy_location(x, node)
        new = ast.copy_location(ast.If(test=v.test, body=[self.visit(body)], orelse=[self.visit(orelse)]), node)
        return new

    def visit_Assign(self, node):
        if isinstance(node.value, ast.IfExp) and len(node.targets) == 1 and isinstance(node.targets[0], (ast.Name, ast.Attribute)):
            import copy
            return self._split(node, lambda val: ast.Assign(targets=[copy.deepcopy(node.targets[0])], value=val))
        return node

    def visit_Return(self, node):
        if isinstance(node.value, ast.IfExp):
            return self._split(node, lambda val: ast.Return(value=val))
        return node

    def visit_Lambda(self, node):
        return node


# ------------------------------------------------------------------------------------------------ helper inlining
def _simple_helper(fn, allow_nested=True):
    """(params, body statements, return expr, defaults, extra) for a helper whose body is Assign / AugAssign / Expr / If / For / While / nested def
    statements ending in one `return` (early bare returns of procedures are structured away first); extra = (vararg, kwarg, kwonly names, kw defaults)"""
    a = fn.args
    if a.posonlyargs:
        return None
    body = [s for s in fn.body if not (isinstance(s, ast.Expr) and isinstance(s.value, ast.Constant))]
    if not body:
        return None
    own_returns = [n for s in body for n in _walk_own(s) if isinstance(n, ast.Return)]
    if own_returns and all(n.value is None for n in own_returns):
        body = _structure_early_returns(body)
        if body is None:
            return None
        own_returns = [n for s in body for n in _walk_own(s) if isinstance(n, ast.Return)]
    if own_returns and not all(n.value is None for n in own_returns) and (len(own_returns) > 1 or not isinstance(body[-1], ast.Return)):
        # several value returns: one exit through a result variable
        rv = '%s_result' % fn.name.strip('_')
        st = _structure_value_returns(body, rv)
        if st is None:
            return None
        new_body, always = st
        if not always:
            new_body = [ast.Assign(targets=[ast.Name(id=rv, ctx=ast.Store())], value=ast.Constant(value=None))] + new_body
        body = new_body + [ast.Return(value=ast.Name(id=rv, ctx=ast.Load()))]
        for x in body:
            ast.copy_location(x, fn)
            ast.fix_missing_locations(x)
        own_returns = [body[-1]]
    if not isinstance(body[-1], ast.Return) or body[-1].value is None:
        # a procedure: no return anywhere -> its "value" is None
        if own_returns:
            return None
        body = body + [ast.Return(value=ast.Constant(value=None))]
    kinds = (ast.Assign, ast.AugAssign, ast.AnnAssign, ast.If, ast.For, ast.Expr, ast.While, ast.FunctionDef, ast.Raise, ast.Pass, ast.Delete, ast.Assert, ast.With)
    for s in body[:-1]:
        if not isinstance(s, kinds):
            return None
        if isinstance(s, ast.FunctionDef) and not allow_nested:
            return None
        for n in _walk_own(s):
            if isinstance(n, ast.Return):
                return None
            if isinstance(n, (ast.Break, ast.Continue)) and not _inside_loop(s, n):
                return None
    for s in body:
        for n in _walk_own(s):
            if isinstance(n, (ast.Yield, ast.YieldFrom, ast.NamedExpr, ast.Global, ast.Nonlocal, ast.Try)):
                return None
    for n in ast.walk(fn):
        if isinstance(n, (ast.Global, ast.Nonlocal, ast.Yield, ast.YieldFrom)):
            return None
    def _memo(d):
        t = ast.unparse(d.func if isinstance(d, ast.Call) else d)
        return t.split('.')[-1] in ('lru_cache', 'cache')
    if fn.decorator_list and not all((isinstance(d, ast.Name) and d.id == 'staticmethod') or _memo(d) for d in fn.decorator_list):
        return None
    if any(_memo(d) for d in fn.decorator_list) and not _memo_result_immutable(fn):
        return None         # the cached object is shared between calls: substituting the body would hide that (the function stays visible to the MEMO-MUTABLE rule)
    extra = (a.vararg.arg if a.vararg else None, a.kwarg.arg if a.kwarg else None, [x.arg for x in a.kwonlyargs], list(a.kw_defaults))
    return [x.arg for x in a.args], body[:-1], body[-1].value, a.defaults, extra


def _inside_loop(root, target):
    """target (a break / continue) is enclosed by a loop that lies inside root (root included)"""
    def walk(n, in_loop):
        if n is target:
            return in_loop
        if isinstance(n, (ast.FunctionDef, ast.AsyncFunctionDef, ast.Lambda, ast.ClassDef)) and n is not root:
            return None
        for c in ast.iter_child_nodes(n):
            r = walk(c, in_loop or isinstance(n, (ast.For, ast.While)))
            if r is not None:
                return r
        return None
    return bool(walk(root, False))


def _walk_own(node):
    """ast.walk that does not descend into nested function / lambda / class bodies (the nested def node itself is yielded)"""
    todo = [node]
    while todo:
        n = todo.pop()
        yield n
        if isinstance(n, (ast.FunctionDef, ast.AsyncFunctionDef, ast.Lambda, ast.ClassDef)) and n is not node:
            continue
        todo.extend(ast.iter_child_nodes(n))


def _structure_value_returns(stmts, rv):
    """statements with `return <value>` in (nested) if branches -> (equivalent statements assigning the value to rv, does every path assign?) or None.
    Statements after an if whose branch returned move into the other branch:   if c: return a ; REST   ->   if c: rv = a / else: REST'"""
    import copy
    out = []
    for i, s_ in enumerate(stmts):
        if isinstance(s_, ast.Return):
            out.append(ast.copy_location(ast.Assign(targets=[ast.Name(id=rv, ctx=ast.Store())], value=copy.deepcopy(s_.value) if s_.value is not None else ast.Constant(value=None)), s_))
            return out, True
        if isinstance(s_, ast.Raise):
            out.append(s_)
            return out, True        # never falls through: no value is needed on this path
        has_ret = any(isinstance(n, ast.Return) for n in _walk_own(s_))
        if not has_ret:
            out.append(s_)
            continue
        if not isinstance(s_, ast.If):
            return None         # a return inside a loop / try / with
        b = _structure_value_returns(s_.body, rv)
        o = _structure_value_returns(s_.orelse, rv)
        if b is None or o is None:
            return None
        (bs, bret), (os_, oret) = b, o
        rest = stmts[i + 1:]
        if bret and oret:
            out.append(ast.copy_location(ast.If(test=s_.test, body=bs or [ast.Pass()], orelse=os_), s_))
            return out, True
        r = _structure_value_returns(rest, rv)
        if r is None:
            return None
        rs, rret = r
        body_has = any(isinstance(n, ast.Return) for x in s_.body for n in _walk_own(x))
        else_has = any(isinstance(n, ast.Return) for x in s_.orelse for n in _walk_own(x))
        if bret and not else_has:
            out.append(ast.copy_location(ast.If(test=s_.test, body=bs or [ast.Pass()], orelse=os_ + rs), s_))
            return out, rret
        if oret and not body_has:
            out.append(ast.copy_location(ast.If(test=s_.test, body=(bs + rs) or [ast.Pass()], orelse=os_), s_))
            return out, rret
        return None             # a branch that returns on some of its paths only
    return out, False


def _structure_early_returns(body):
    """procedure body with bare `return` statements -> equivalent body without them:
        if c: A ; return          ->   if c: A
        REST                            else: REST
    (only top-level ifs without else whose last statement is the bare return, and a trailing bare return); None when another shape occurs"""
    import copy
    out = []
    for i, s_ in enumerate(body):
        if isinstance(s_, ast.Return) and s_.value is None:
            return out if all(not any(isinstance(n, ast.Return) for n in _walk_own(x)) for x in out) else None
        if isinstance(s_, ast.If) and not s_.orelse and s_.body and isinstance(s_.body[-1], ast.Return) and s_.body[-1].value is None \
                and not any(isinstance(n, ast.Return) for x in s_.body[:-1] for n in _walk_own(x)):
            rest = _structure_early_returns(body[i + 1:])
            if rest is None:
                return None
            new = ast.If(test=s_.test, body=copy.deepcopy(s_.body[:-1]) or [ast.Pass()], orelse=rest)
            ast.copy_location(new, s_)
            ast.fix_missing_locations(new)
            out.append(new)
            return out
        if any(isinstance(n, ast.Return) for n in _walk_own(s_)):
            return None
        out.append(s_)
    return out


def _scope_bound(node):
    """names bound by a nested function / lambda / comprehension scope itself (parameters and, for defs, local stores)"""
    if isinstance(node, (ast.FunctionDef, ast.AsyncFunctionDef, ast.Lambda)):
        a = node.args
        out = {x.arg for x in a.posonlyargs + a.args + a.kwonlyargs}
        if a.vararg:
            out.add(a.vararg.arg)
        if a.kwarg:
            out.add(a.kwarg.arg)
        return out
    return set()


class _Rename(ast.NodeTransformer):
    """substitute names; parameters of nested functions / lambdas shadow the mapping inside their bodies"""
    def __init__(self, mapping):
        self.mapping = mapping

    def visit_Name(self, n):
        if n.id in self.mapping:
            r = self.mapping[n.id]
            if isinstance(r, str):
                return ast.copy_location(ast.Name(id=r, ctx=n.ctx), n)
            if isinstance(n.ctx, ast.Load):
                return copy.deepcopy(r)
        return n

    def _scoped(self, node):
        bound = _scope_bound(node) & set(self.mapping)
        if not bound:
            return self.generic_visit(node)
        saved = self.mapping
        self.mapping = {k: v for k, v in saved.items() if k not in bound}
        try:
            # defaults / decorators are evaluated in the enclosing scope
            a = node.args
            a.defaults = [_Rename(saved).visit(d) for d in a.defaults]
            a.kw_defaults = [_Rename(saved).visit(d) if d is not None else None for d in a.kw_defaults]
            if isinstance(node, ast.Lambda):
                node.body = self.visit(node.body)
            else:
                node.body = [self.visit(s) for s in node.body]
        finally:
            self.mapping = saved
        return node

    def visit_FunctionDef(self, node):
        if node.name in self.mapping and isinstance(self.mapping[node.name], str):
            node.name = self.mapping[node.name]
        return self._scoped(node)

    def visit_Lambda(self, node):
        return self._scoped(node)


def _bind(params, defaults, call, skip_self=False, extra=None):
    vararg, kwarg, kwonly, kwdefaults = extra or (None, None, [], [])
    ps = params[1:] if skip_self else params
    if any(isinstance(a, ast.Starred) for a in call.args) or any(k.arg is None for k in call.keywords):
        return None
    b = {}
    if len(call.args) > len(ps):
        if vararg is None:
            return None
        b[vararg] = ast.Tuple(elts=list(call.args[len(ps):]), ctx=ast.Load())
    elif vararg is not None:
        b[vararg] = ast.Tuple(elts=[], ctx=ast.Load())
    b.update(dict(zip(ps, call.args)))
    rest = []
    for k in call.keywords:
        if k.arg in b:
            return None
        if k.arg in ps or k.arg in kwonly:
            b[k.arg] = k.value
        elif kwarg is not None:
            rest.append(k)
        else:
            return None
    if kwarg is not None:
        b[kwarg] = ast.Dict(keys=[ast.Constant(value=k.arg) for k in rest], values=[k.value for k in rest])
    dps = params[len(params) - len(defaults):] if defaults else []
    for p, d in zip(dps, defaults):
        if p in ps and p not in b:
            b[p] = d
    for p, d in zip(kwonly, kwdefaults):
        if p not in b and d is not None:
            b[p] = d
    want = set(ps) | set(kwonly) | ({vararg} if vararg else set()) | ({kwarg} if kwarg else set())
    if set(b) != want:
        return None
    return b


class Inliner:
    def __init__(self, tree):
        self.tree = tree
        self.counter = 0
        self.expanded = {}
        self.helpers = {}       # name -> FunctionDef (module level, private)
        self.methods = {}       # (class name, method name) -> FunctionDef (private methods)
        self.local_helpers = {}  # name -> nested FunctionDef (set while a local closure is being inlined)
        self.static_methods = {}  # (class name, method name) -> (FunctionDef, 'staticmethod' | 'classmethod')
        self.mangled = {}
        self.allow_mangled = False
        self.bases = {}
        for n in tree.body:
            if isinstance(n, ast.FunctionDef) and n.name.startswith('_') and not n.name.startswith('__'):
                self.helpers[n.name] = n
            if isinstance(n, ast.ClassDef):
                self.bases[n.name] = [b.id for b in n.bases if isinstance(b, ast.Name)]
                for m in n.body:
                    if isinstance(m, ast.FunctionDef) and m.name.startswith('_') and not m.name.startswith('__') and not m.decorator_list:
                        self.methods[(n.name, m.name)] = m
                    elif isinstance(m, ast.FunctionDef) and m.name.startswith('__') and not m.name.endswith('__') and not m.decorator_list:
                        self.mangled[(n.name, m.name)] = m      # name-mangled private methods: only substituted where a rule needs to see through them (with headers)
                    elif isinstance(m, ast.FunctionDef) and (m.name.startswith('_') or n.name.startswith('_')) and not m.name.startswith('__') and len(m.decorator_list) == 1 \
                            and isinstance(m.decorator_list[0], ast.Name) and m.decorator_list[0].id in ('staticmethod', 'classmethod'):
                        self.static_methods[(n.name, m.name)] = (m, m.decorator_list[0].id)

    def run(self):
        if not (self.helpers or self.methods or self.static_methods or self.mangled):
            return
        for n in self.tree.body:
            if isinstance(n, ast.FunctionDef):
                self.process_function(n, None)
            elif isinstance(n, ast.ClassDef):
                for m in n.body:
                    if isinstance(m, ast.FunctionDef):
                        self.process_function(m, n.name)

    def mro(self, cls):
        out, todo = [], [cls]
        while todo:
            c = todo.pop(0)
            if c in out or c is None:
                continue
            out.append(c)
            todo.extend(self.bases.get(c, []))
        return out

    def callee(self, call, cls):
        f = call.func
        if isinstance(f, ast.Name) and f.id in self.local_helpers:
            return self.local_helpers[f.id], False
        if self.local_helpers:
            return None, False
        if isinstance(f, ast.Name) and f.id in self.helpers:
            return self.helpers[f.id], False
        if self.allow_mangled and cls is not None and isinstance(f, ast.Attribute) and isinstance(f.value, ast.Name) and f.value.id == 'self' and (cls, f.attr) in self.mangled:
            return self.mangled[(cls, f.attr)], True
        if cls is not None and isinstance(f, ast.Attribute) and isinstance(f.value, ast.Name) and f.value.id == 'self':
            for c_ in self.mro(cls):
                # a private method inherited from a base class of the same module - unless a class in between overrides it
                if (c_, f.attr) in self.methods:
                    return self.methods[(c_, f.attr)], True
                if (c_, f.attr) in self.static_methods:
                    break
        if isinstance(f, ast.Attribute) and isinstance(f.value, ast.Name) and (f.value.id in ('self', 'cls') and cls is not None or any(c == f.value.id for c, _ in self.static_methods)):
            owner_cls = cls if f.value.id in ('self', 'cls') else f.value.id
            hit = None
            for c_ in self.mro(owner_cls):
                if (c_, f.attr) in self.static_methods:
                    hit = self.static_methods[(c_, f.attr)]
                    break
                if (c_, f.attr) in self.methods:
                    break
            if hit is not None and hit[1] == 'staticmethod':
                return hit[0], False        # a private static method is a plain function
        return None, False

    def expand_call(self, call, cls, depth, owner=None):
        """-> (prefix statements, value expression) or None"""
        fn, is_method = self.callee(call, cls)
        if fn is None or depth > 3:
            return None
        sh = _simple_helper(fn)
        if sh is None:
            return None
        params, stmts, ret, defaults, extra = sh
        b = _bind(params, defaults, call, skip_self=is_method, extra=extra)
        if b is None:
            return None
        self.counter += 1
        self.expanded[id(fn)] = self.expanded.get(id(fn), 0) + 1
        tag = '__%s_%d' % (fn.name.strip('_'), self.counter)
        taken = set()
        if owner is not None:
            for n in ast.walk(getattr(self, 'top_owner', None) or owner):
                if isinstance(n, ast.Name):
                    taken.add(n.id)
                elif isinstance(n, ast.arg):
                    taken.add(n.arg)
                elif isinstance(n, ast.FunctionDef):
                    taken.add(n.name)
            taken |= getattr(self, 'allocated', set())
        else:
            taken = None

        def fresh(base):
            # the helper's own name for a local is kept when the caller does not use that name (reports and name-based bindings read naturally)
            if taken is not None and base not in taken:
                taken.add(base)
                if getattr(self, 'allocated', None) is not None:
                    self.allocated.add(base)        # statements of earlier expansions are not attached to the function yet
                return base
            return base + tag
        local = set()
        for s in stmts:
            for n in _walk_own(s):
                if isinstance(n, ast.Name) and isinstance(n.ctx, ast.Store):
                    local.add(n.id)
                if isinstance(n, ast.FunctionDef):
                    local.add(n.name)
        mapping = {}
        pre = []
        for p, arg in b.items():
            # a parameter that is re-assigned in the helper, or an argument that is not a plain name / constant and used several times, gets a temporary
            uses = sum(1 for s in stmts + [ast.Expr(value=ret)] for n in ast.walk(s) if isinstance(n, ast.Name) and n.id == p)
            in_nested = any(isinstance(n, ast.Name) and n.id == p for s in stmts + [ast.Expr(value=ret)] for d in _walk_own(s)
                            if isinstance(d, (ast.FunctionDef, ast.Lambda)) for n in ast.walk(d))
            aggregate = isinstance(arg, (ast.Tuple, ast.Dict)) and p in (extra[0], extra[1])
            simple_arg = isinstance(arg, (ast.Name, ast.Constant, ast.Attribute, ast.Lambda)) or aggregate
            if p in local or (uses > 1 and not simple_arg) or (in_nested and not simple_arg):
                t = fresh(p)
                pre.append(ast.copy_location(ast.Assign(targets=[ast.Name(id=t, ctx=ast.Store())], value=copy.deepcopy(arg), lineno=call.lineno), call))
                mapping[p] = t
            elif aggregate and uses:
                # *args / **kwargs of the helper: a named local tuple / dict literal (element-wise uses are resolved by the lowering passes)
                t = fresh(p)
                pre.append(ast.copy_location(ast.Assign(targets=[ast.Name(id=t, ctx=ast.Store())], value=copy.deepcopy(arg), lineno=call.lineno), call))
                mapping[p] = t
            else:
                mapping[p] = arg
        if is_method:
            pass
        for l in sorted(local):
            if l not in mapping or not isinstance(mapping[l], str):
                mapping[l] = fresh(l)
        out = list(pre)
        rn = _Rename(mapping)
        for s in stmts:
            ns = rn.visit(copy.deepcopy(s))
            for n in ast.walk(ns):
                if hasattr(n, 'lineno'):
                    n.lineno = call.lineno
            ast.copy_location(ns, call)
            out.append(ns)
        val = rn.visit(copy.deepcopy(ret))
        for n in ast.walk(val):
            if hasattr(n, 'lineno'):
                n.lineno = getattr(call, 'lineno', 0)
        ast.fix_missing_locations(val)
        for s in out:
            ast.fix_missing_locations(s)
        return out, val

    def process_function(self, fn, cls, depth=0):
        self.top_owner = fn         # names of the whole enclosing function are reserved (a nested def must not have its free variables shadowed)
        self.allocated = set()
        try:
            fn.body = self.process_block(fn.body, cls, depth, fn)
        finally:
            self.top_owner = None

    def process_block(self, stmts, cls, depth, owner):
        out = []
        for s in stmts:
            for fld in ('body', 'orelse', 'finalbody'):
                if hasattr(s, fld) and isinstance(getattr(s, fld), list) and not isinstance(s, (ast.FunctionDef, ast.ClassDef)):
                    setattr(s, fld, self.process_block(getattr(s, fld), cls, depth, owner))
            if isinstance(s, ast.Try):
                for h in s.handlers:
                    h.body = self.process_block(h.body, cls, depth, owner)
            if isinstance(s, ast.FunctionDef):
                s.body = self.process_block(s.body, cls, depth, s if not self.local_helpers else owner)
                out.append(s)
                continue
            if isinstance(s, (ast.Assign, ast.AugAssign, ast.Return, ast.Expr, ast.AnnAssign)) and getattr(s, 'value', None) is not None:
                pre, newv = self.rewrite_expr(s.value, cls, depth, owner)
                if pre or newv is not s.value:
                    s.value = newv
                    out.extend(self.process_block(pre, cls, depth + 1, owner))
                    if isinstance(s, ast.Expr) and isinstance(newv, ast.Constant):
                        continue        # the call statement of an inlined procedure: its value (None) is not a statement
                # helper calls inside a store target (x[_h(i)] = v): only one-expression helpers - nothing may be hoisted over the evaluation of the value
                for t in (s.targets if isinstance(s, ast.Assign) else ([s.target] if isinstance(s, (ast.AugAssign, ast.AnnAssign)) else [])):
                    if isinstance(t, (ast.Subscript, ast.Attribute, ast.Tuple, ast.List)) and any(isinstance(x, ast.Call) for x in ast.walk(t)):
                        self.rewrite_expr(t, cls, depth, owner, no_hoist=True)
            elif isinstance(s, ast.Raise) and s.exc is not None:
                pre, newv = self.rewrite_expr(s.exc, cls, depth, owner)
                if pre or newv is not s.exc:
                    s.exc = newv
                    out.extend(self.process_block(pre, cls, depth + 1, owner))
            elif isinstance(s, ast.If):
                pre, newv = self.rewrite_expr(s.test, cls, depth, owner)
                if pre or newv is not s.test:
                    s.test = newv
                    out.extend(self.process_block(pre, cls, depth + 1, owner))
            elif isinstance(s, (ast.While, ast.Assert)):
                self.rewrite_expr(s.test, cls, depth, owner, no_hoist=True)
            elif isinstance(s, ast.With) and len(s.items) == 1 and isinstance(s.items[0].context_expr, ast.Call):
                # with self.__helper(..): the statements of the helper run before the block is entered, its value is the manager
                self.allow_mangled = True
                try:
                    pre, newv = self.rewrite_expr(s.items[0].context_expr, cls, depth, owner)
                finally:
                    self.allow_mangled = False
                if pre or newv is not s.items[0].context_expr:
                    s.items[0].context_expr = newv
                    out.extend(self.process_block(pre, cls, depth + 1, owner))
            elif isinstance(s, ast.For):
                pre, newv = self.rewrite_expr(s.iter, cls, depth, owner)
                if pre or newv is not s.iter:
                    s.iter = newv
                    out.extend(self.process_block(pre, cls, depth + 1, owner))
            out.append(s)
        return out

    def rewrite_expr(self, e, cls, depth, owner, no_hoist=False):
        """replace helper calls inside expression e; returns (prefix statements, new expression)"""
        prefix = []
        me = self

        class T(ast.NodeTransformer):
            nested = 1 if no_hoist else 0          # inside a lambda / comprehension only helpers that are one expression can be inlined (nothing can be hoisted)

            def _nested(self, n):
                self.nested += 1
                try:
                    return self.generic_visit(n)
                finally:
                    self.nested -= 1

            def visit_Lambda(self, n):
                return self._nested(n)

            def visit_ListComp(self, n):
                return self._nested(n)

            def visit_GeneratorExp(self, n):
                return self._nested(n)

            def visit_SetComp(self, n):
                return self._nested(n)

            def visit_DictComp(self, n):
                return self._nested(n)

            def visit_IfExp(self, n):
                n.test = self.visit(n.test)
                # do not hoist calls out of conditionally evaluated branches: only helpers that are one expression are substituted there
                self.nested += 1
                try:
                    n.body = self.visit(n.body)
                    n.orelse = self.visit(n.orelse)
                finally:
                    self.nested -= 1
                return n

            def visit_BoolOp(self, n):
                n.values[0] = self.visit(n.values[0])
                self.nested += 1
                try:
                    n.values[1:] = [self.visit(v) for v in n.values[1:]]
                finally:
                    self.nested -= 1
                return n

            def visit_Call(self, n):
                self.generic_visit(n)
                fnode, _ = me.callee(n, cls)
                if fnode is owner or fnode is None:
                    return n
                saved = (me.counter, dict(me.expanded))
                r = me.expand_call(n, cls, depth, owner)
                if r is None:
                    return n
                pre, val = r
                if self.nested and pre:
                    me.counter, me.expanded = saved[0], saved[1]
                    return n
                prefix.extend(pre)
                return val
        new = T().visit(e)
        return prefix, new


# ------------------------------------------------------------------------------------------------ loop canonicalisation
def _names_loaded(node):
    return [n for n in ast.walk(node) if isinstance(n, ast.Name)]


def _is_simple_seq(e):
    """a sequence expression that can be evaluated repeatedly without effect: a name or an attribute chain of names"""
    while isinstance(e, ast.Attribute):
        e = e.value
    return isinstance(e, ast.Name)


def _mutated_in(body, seq_text):
    """may the sequence be re-bound or mutated in the loop body?  (conservative)"""
    for st in body:
        for n in ast.walk(st):
            if isinstance(n, (ast.Assign, ast.AugAssign, ast.AnnAssign, ast.Delete, ast.For)):
                tg = n.targets if isinstance(n, (ast.Assign, ast.Delete)) else [n.target]
                for t in tg:
                    for x in ast.walk(t):
                        if isinstance(x, (ast.Name, ast.Attribute, ast.Subscript)) and ast.unparse(x if not isinstance(x, ast.Subscript) else x.value) == seq_text:
                            return True
            if isinstance(n, ast.Call) and isinstance(n.func, ast.Attribute) and ast.unparse(n.func.value) == seq_text and n.func.attr in (
                    'append', 'extend', 'insert', 'pop', 'remove', 'clear', 'sort', 'reverse', 'add', 'discard', 'update', 'popitem', 'setdefault'):
                return True
    return False


class LoopCanon(ast.NodeTransformer):
    """index loops become element loops (analysis sees one spelling of "for each element, in order"):

        for k in range(len(xs)):  ... xs[k] ...             ->  for e in xs: ... e ...                      (k used only to index xs)
        for k in range(len(xs)):  ... xs[k] ... k ...       ->  for k, e in enumerate(xs): ... e ... k ...
        for k in range(len(xs)):  ... xs[k] ... ys[k] ...   ->  for e, f in zip(xs, ys): ...                   (k used only to index; ys indexed in step with xs)
        for k in range(len(xs) - 1, -1, -1): ... xs[k] ...  ->  for e in reversed(xs): ...
        for _, e in enumerate(xs) / index unused            ->  for e in xs
        first statement `x = <loop element>`                ->  x becomes the loop target

    Only applied when xs (and ys) are plain names / attribute chains that the body neither re-binds nor mutates."""
    def __init__(self):
        self.n = 0

    def fresh(self, base):
        self.n += 1
        return '%s__el%d' % (base, self.n)

    def visit_For(self, node):
        self.generic_visit(node)
        node = self._index_loop(node)
        node = self._enumerate_to_zip(node)
        node = self._drop_unused_enumerate(node)
        node = self._alias_first(node)
        return node

    def _comp(self, node):
        """[f(xs[k]) for k in range(len(xs))]  ->  [f(e) for e in xs]      (k used only to index xs)"""
        self.generic_visit(node)
        if len(node.generators) != 1:
            return node
        g = node.generators[0]
        if not isinstance(g.target, ast.Name) or g.is_async:
            return node
        rl = self._range_len(g.iter)
        if rl is None or rl[1] != 'up':
            return node
        seq = rl[0]
        if isinstance(seq, ast.Name) and seq.id == 'self':
            return node
        k, seq_text = g.target.id, ast.unparse(seq)
        parts = [getattr(node, 'elt', None), getattr(node, 'key', None), getattr(node, 'value', None)] + list(g.ifs)
        parts = [x for x in parts if x is not None]
        parents = {}
        for p_ in parts:
            for n in ast.walk(p_):
                for ch in ast.iter_child_nodes(n):
                    parents[id(ch)] = n
        subs = []
        for p_ in parts:
            for n in ast.walk(p_):
                if isinstance(n, ast.Name) and n.id == k:
                    par = parents.get(id(n))
                    if isinstance(par, ast.Subscript) and par.slice is n and ast.unparse(par.value) == seq_text and isinstance(par.ctx, ast.Load):
                        subs.append(par)
                    else:
                        return node
        if not subs:
            return node
        el = self.fresh(seq_text.split('.')[-1])
        ids = {id(x) for x in subs}

        class R(ast.NodeTransformer):
            def visit_Subscript(self, n):
                if id(n) in ids:
                    return ast.copy_location(ast.Name(id=el, ctx=ast.Load()), n)
                return self.generic_visit(n)
        for fld in ('elt', 'key', 'value'):
            if getattr(node, fld, None) is not None:
                setattr(node, fld, R().visit(getattr(node, fld)))
        g.ifs = [R().visit(c) for c in g.ifs]
        g.target = ast.copy_location(ast.Name(id=el, ctx=ast.Store()), g.target)
        g.iter = seq
        ast.fix_missing_locations(node)
        return node

    def visit_ListComp(self, node):
        return self._comp(node)

    def visit_GeneratorExp(self, node):
        return self._comp(node)

    def visit_SetComp(self, node):
        return self._comp(node)

    def _range_len(self, it):
        """-> (sequence expr, 'up' | 'down') for range(len(xs)) / range(len(xs) - 1, -1, -1)"""
        if not (isinstance(it, ast.Call) and isinstance(it.func, ast.Name) and it.func.id == 'range' and not it.keywords):
            return None
        a = it.args
        def len_of(e):
            if isinstance(e, ast.Call) and isinstance(e.func, ast.Name) and e.func.id == 'len' and len(e.args) == 1 and not e.keywords and _is_simple_seq(e.args[0]):
                return e.args[0]
            return None
        if len(a) == 1 and len_of(a[0]) is not None:
            return len_of(a[0]), 'up'
        if len(a) == 2 and isinstance(a[0], ast.Constant) and a[0].value == 0 and len_of(a[1]) is not None:
            return len_of(a[1]), 'up'
        if len(a) == 3 and isinstance(a[0], ast.BinOp) and isinstance(a[0].op, ast.Sub) and isinstance(a[0].right, ast.Constant) and a[0].right.value == 1 and len_of(a[0].left) is not None \
                and isinstance(a[1], ast.UnaryOp) and isinstance(a[1].op, ast.USub) and isinstance(a[1].operand, ast.Constant) and a[1].operand.value == 1 \
                and isinstance(a[2], ast.UnaryOp) and isinstance(a[2].op, ast.USub) and isinstance(a[2].operand, ast.Constant) and a[2].operand.value == 1:
            return len_of(a[0].left), 'down'
        return None

    def _index_loop(self, node):
        if not isinstance(node.target, ast.Name) or node.orelse:
            return node
        rl = self._range_len(node.iter)
        if rl is None:
            return node
        seq, direction = rl
        if isinstance(seq, ast.Name) and seq.id == 'self':
            return node             # iterating `self` would call the very protocol being defined
        k = node.target.id
        seq_text = ast.unparse(seq)
        # all uses of k in the body
        subs = {}          # sequence text -> list of Subscript nodes  s[k]
        other = 0
        parents = {}
        for st in node.body:
            for p_ in ast.walk(st):
                for ch in ast.iter_child_nodes(p_):
                    parents[id(ch)] = p_
        for st in node.body:
            for n in ast.walk(st):
                if isinstance(n, ast.Name) and n.id == k:
                    if isinstance(n.ctx, ast.Store):
                        return node
                    par = parents.get(id(n))
                    if isinstance(par, ast.Subscript) and par.slice is n and isinstance(par.ctx, ast.Load) and _is_simple_seq(par.value):
                        subs.setdefault(ast.unparse(par.value), []).append(par)
                    else:
                        other += 1
        if seq_text not in subs:
            return node
        seqs = [seq_text] + sorted(t for t in subs if t != seq_text)
        if _mutated_in(node.body, seq_text):
            return node
        for t in [t for t in seqs[1:] if _mutated_in(node.body, t)]:
            other += len(subs.pop(t))       # a sequence that is written through the index keeps its subscripts
            seqs.remove(t)
        if direction == 'down' and (len(seqs) > 1 or other):
            return node
        if len(seqs) > 1 and other:
            # the index is needed anyway (e.g. a store buffer[i] = ...): only the iterated sequence becomes the element, the other subscripts keep the index
            for t in [t for t in subs if t != seq_text]:
                other += len(subs.pop(t))
            seqs = [seq_text]
        names = {t: self.fresh(t.split('.')[-1]) for t in seqs}
        repl = {}
        for t, nodes in subs.items():
            for sn in nodes:
                repl[id(sn)] = names[t]

        class R(ast.NodeTransformer):
            def visit_Subscript(self, n):
                if id(n) in repl:
                    return ast.copy_location(ast.Name(id=repl[id(n)], ctx=ast.Load()), n)
                return self.generic_visit(n)
        body = [R().visit(st) for st in node.body]
        def ld(text):
            return ast.parse(text, mode='eval').body
        if len(seqs) == 1:
            el = ast.Name(id=names[seq_text], ctx=ast.Store())
            if other:
                target = ast.Tuple(elts=[ast.Name(id=k, ctx=ast.Store()), el], ctx=ast.Store())
                it = ast.Call(func=ast.Name(id='enumerate', ctx=ast.Load()), args=[ld(seq_text)], keywords=[])
            elif direction == 'down':
                target, it = el, ast.Call(func=ast.Name(id='reversed', ctx=ast.Load()), args=[ld(seq_text)], keywords=[])
            else:
                target, it = el, ld(seq_text)
        else:
            target = ast.Tuple(elts=[ast.Name(id=names[t], ctx=ast.Store()) for t in seqs], ctx=ast.Store())
            it = ast.Call(func=ast.Name(id='zip', ctx=ast.Load()), args=[ld(t) for t in seqs], keywords=[])
        new = ast.For(target=target, iter=it, body=body, orelse=[], type_comment=None)
        ast.copy_location(new, node)
        ast.fix_missing_locations(new)
        return new

    def _enumerate_to_zip(self, node):
        """for k, e in enumerate(xs): ... ys[k] ...   ->   for e, f in zip(xs, ys): ... f ...     (k used only to index ys)"""
        it = node.iter
        if not (isinstance(it, ast.Call) and isinstance(it.func, ast.Name) and it.func.id == 'enumerate' and len(it.args) == 1 and not it.keywords and _is_simple_seq(it.args[0])
                and isinstance(node.target, ast.Tuple) and len(node.target.elts) == 2 and isinstance(node.target.elts[0], ast.Name) and not node.orelse):
            return node
        k = node.target.elts[0].id
        parents = {}
        for st in node.body:
            for p_ in ast.walk(st):
                for ch in ast.iter_child_nodes(p_):
                    parents[id(ch)] = p_
        subs = {}
        for st in node.body:
            for n in ast.walk(st):
                if isinstance(n, ast.Name) and n.id == k:
                    par = parents.get(id(n))
                    if isinstance(n.ctx, ast.Load) and isinstance(par, ast.Subscript) and par.slice is n and isinstance(par.ctx, ast.Load) and _is_simple_seq(par.value):
                        subs.setdefault(ast.unparse(par.value), []).append(par)
                    else:
                        return node
        if not subs or any(_mutated_in(node.body, t) for t in subs) or _mutated_in(node.body, ast.unparse(it.args[0])):
            return node
        seqs = sorted(subs)
        names = {t: self.fresh(t.split('.')[-1]) for t in seqs}
        repl = {id(sn): names[t] for t, nodes in subs.items() for sn in nodes}

        class R(ast.NodeTransformer):
            def visit_Subscript(self, n):
                if id(n) in repl:
                    return ast.copy_location(ast.Name(id=repl[id(n)], ctx=ast.Load()), n)
                return self.generic_visit(n)
        node.body = [R().visit(st) for st in node.body]
        node.target = ast.copy_location(ast.Tuple(elts=[node.target.elts[1]] + [ast.Name(id=names[t], ctx=ast.Store()) for t in seqs], ctx=ast.Store()), node.target)
        node.iter = ast.copy_location(ast.Call(func=ast.Name(id='zip', ctx=ast.Load()), args=[it.args[0]] + [ast.parse(t, mode='eval').body for t in seqs], keywords=[]), it)
        ast.fix_missing_locations(node)
        return node

    def _drop_unused_enumerate(self, node):
        it = node.iter
        if isinstance(it, ast.Call) and isinstance(it.func, ast.Name) and it.func.id == 'enumerate' and len(it.args) == 1 and not it.keywords \
                and isinstance(node.target, ast.Tuple) and len(node.target.elts) == 2 and isinstance(node.target.elts[0], ast.Name):
            idx = node.target.elts[0].id
            used = any(isinstance(n, ast.Name) and n.id == idx for st in node.body + node.orelse for n in ast.walk(st))
            if not used and idx == '_':
                node.target = node.target.elts[1]
                node.iter = it.args[0]
        return node

    def _alias_first(self, node):
        """for e in xs: x = e ; ...   ->   for x in xs: ...      (e generated by this pass and not used otherwise)"""
        if isinstance(node.target, ast.Tuple):
            # for (e, f) in zip(xs, ys): x = e ; y = f ; ...   ->   for (x, y) in zip(xs, ys): ...
            changed = True
            while changed and node.body:
                changed = False
                b0 = node.body[0]
                if isinstance(b0, ast.Assign) and len(b0.targets) == 1 and isinstance(b0.targets[0], ast.Name) and isinstance(b0.value, ast.Name) and '__el' in b0.value.id:
                    e, x = b0.value.id, b0.targets[0].id
                    elts = [t for t in ast.walk(node.target) if isinstance(t, ast.Name) and t.id == e]
                    rest = node.body[1:]
                    if len(elts) == 1 and rest and not any(isinstance(n, ast.Name) and n.id == e for st in rest for n in ast.walk(st)):
                        elts[0].id = x
                        node.body = rest
                        changed = True
            return node
        if isinstance(node.target, ast.Name) and '__el' in node.target.id and node.body and isinstance(node.body[0], ast.Assign) and len(node.body[0].targets) == 1 \
                and isinstance(node.body[0].targets[0], ast.Name) and isinstance(node.body[0].value, ast.Name) and node.body[0].value.id == node.target.id:
            e = node.target.id
            x = node.body[0].targets[0].id
            rest = node.body[1:]
            if rest and not any(isinstance(n, ast.Name) and n.id == e for st in rest for n in ast.walk(st)):
                node.target = ast.copy_location(ast.Name(id=x, ctx=ast.Store()), node.target)
                node.body = rest
        return node


class WhileCounter(ast.NodeTransformer):
    """i = c0 ; while i < N: BODY ; i += 1     ->   for i in range(c0, N): BODY
    (i assigned by the statement right before the loop, incremented by exactly one as the last statement of the body, not otherwise assigned, no
    break / continue / else, N not re-bound in the body, i not read after the loop)"""
    def _block(self, stmts, fn_loads_after):
        out = []
        i = 0
        while i < len(stmts):
            s, nxt = stmts[i], (stmts[i + 1] if i + 1 < len(stmts) else None)
            if isinstance(s, ast.Assign) and len(s.targets) == 1 and isinstance(s.targets[0], ast.Name) and isinstance(s.value, ast.Constant) and isinstance(s.value.value, int) \
                    and isinstance(nxt, ast.While) and not nxt.orelse and isinstance(nxt.test, ast.Compare) and len(nxt.test.ops) == 1 and isinstance(nxt.test.ops[0], ast.Lt) \
                    and isinstance(nxt.test.left, ast.Name) and nxt.test.left.id == s.targets[0].id and nxt.body:
                v = s.targets[0].id
                bound = nxt.test.comparators[0]
                last = nxt.body[-1]
                ok = isinstance(last, ast.AugAssign) and isinstance(last.target, ast.Name) and last.target.id == v and isinstance(last.op, ast.Add) \
                    and isinstance(last.value, ast.Constant) and last.value.value == 1
                body = nxt.body[:-1]
                bnames = {n.id for n in ast.walk(bound) if isinstance(n, ast.Name)}
                for st in body:
                    for n in ast.walk(st):
                        if isinstance(n, (ast.Break, ast.Continue, ast.Yield, ast.YieldFrom)) and isinstance(n, (ast.Break, ast.Continue)):
                            ok = False
                        if isinstance(n, ast.Name) and isinstance(n.ctx, (ast.Store, ast.Del)) and (n.id == v or n.id in bnames):
                            ok = False
                later = stmts[i + 2:]
                if any(isinstance(n, ast.Name) and n.id == v and isinstance(n.ctx, ast.Load) for st in later for n in ast.walk(st)) or v in fn_loads_after:
                    ok = False
                if ok and body:
                    args = [bound] if s.value.value == 0 else [s.value, bound]
                    new = ast.For(target=ast.Name(id=v, ctx=ast.Store()), iter=ast.Call(func=ast.Name(id='range', ctx=ast.Load()), args=args, keywords=[]), body=body, orelse=[], type_comment=None)
                    ast.copy_location(new, nxt)
                    ast.fix_missing_locations(new)
                    out.append(new)
                    i += 2
                    continue
            # i = c - 1 ; while i + 1 < N: i += 1 ; BODY        ->   for i in range(c, N): BODY         (increment first: `continue` / `break` in BODY keep their meaning)
            if isinstance(s, ast.Assign) and len(s.targets) == 1 and isinstance(s.targets[0], ast.Name) and isinstance(nxt, ast.While) and not nxt.orelse and len(nxt.body) >= 2 \
                    and isinstance(nxt.test, ast.Compare) and len(nxt.test.ops) == 1 and isinstance(nxt.test.ops[0], ast.Lt) and isinstance(nxt.test.left, ast.BinOp) \
                    and isinstance(nxt.test.left.op, ast.Add) and isinstance(nxt.test.left.left, ast.Name) and nxt.test.left.left.id == s.targets[0].id \
                    and isinstance(nxt.test.left.right, ast.Constant) and nxt.test.left.right.value == 1:
                v = s.targets[0].id
                start = None
                if isinstance(s.value, ast.UnaryOp) and isinstance(s.value.op, ast.USub) and isinstance(s.value.operand, ast.Constant) and s.value.operand.value == 1:
                    start = 0
                elif isinstance(s.value, ast.Constant) and isinstance(s.value.value, int):
                    start = s.value.value + 1
                first = nxt.body[0]
                ok = start is not None and isinstance(first, ast.AugAssign) and isinstance(first.target, ast.Name) and first.target.id == v and isinstance(first.op, ast.Add) \
                    and isinstance(first.value, ast.Constant) and first.value.value == 1
                bound = nxt.test.comparators[0]
                bnames = {n.id for n in ast.walk(bound) if isinstance(n, ast.Name)}
                if ok:
                    for st in nxt.body[1:]:
                        for n in ast.walk(st):
                            if isinstance(n, ast.Name) and isinstance(n.ctx, (ast.Store, ast.Del)) and (n.id == v or n.id in bnames):
                                ok = False
                    if any(isinstance(n, ast.Name) and n.id == v and isinstance(n.ctx, ast.Load) for st in stmts[i + 2:] for n in ast.walk(st)):
                        ok = False
                if ok:
                    args = [bound] if start == 0 else [ast.Constant(value=start), bound]
                    new = ast.For(target=ast.Name(id=v, ctx=ast.Store()), iter=ast.Call(func=ast.Name(id='range', ctx=ast.Load()), args=args, keywords=[]), body=nxt.body[1:], orelse=[], type_comment=None)
                    ast.copy_location(new, nxt)
                    ast.fix_missing_locations(new)
                    out.append(new)
                    i += 2
                    continue
            # p = len(L) ; while p > 0: p -= 1 ; x = L[p] ; BODY     ->   for x in reversed(L): BODY          (p not used otherwise)
            if isinstance(s, ast.Assign) and len(s.targets) == 1 and isinstance(s.targets[0], ast.Name) and isinstance(nxt, ast.While) and not nxt.orelse \
                    and isinstance(nxt.test, ast.Compare) and len(nxt.test.ops) == 1 and isinstance(nxt.test.ops[0], ast.Gt) and isinstance(nxt.test.left, ast.Name) \
                    and nxt.test.left.id == s.targets[0].id and isinstance(nxt.test.comparators[0], ast.Constant) and nxt.test.comparators[0].value == 0 and len(nxt.body) >= 2 \
                    and isinstance(s.value, ast.Call) and isinstance(s.value.func, ast.Name) and s.value.func.id == 'len' and len(s.value.args) == 1 \
                    and isinstance(s.value.args[0], (ast.Name, ast.Attribute)):
                v = s.targets[0].id
                seq = s.value.args[0]
                first, second = nxt.body[0], nxt.body[1]
                ok = isinstance(first, ast.AugAssign) and isinstance(first.target, ast.Name) and first.target.id == v and isinstance(first.op, ast.Sub) \
                    and isinstance(first.value, ast.Constant) and first.value.value == 1
                ok = ok and isinstance(second, ast.Assign) and len(second.targets) == 1 and isinstance(second.targets[0], ast.Name) and isinstance(second.value, ast.Subscript) \
                    and ast.dump(second.value.value) == ast.dump(seq) and isinstance(second.value.slice, ast.Name) and second.value.slice.id == v
                if ok:
                    x = second.targets[0].id
                    seq_names = {n.id for n in ast.walk(seq) if isinstance(n, ast.Name)}
                    for st in nxt.body[2:]:
                        for n in ast.walk(st):
                            if isinstance(n, ast.Name) and n.id == v:
                                ok = False
                            if isinstance(n, ast.Name) and isinstance(n.ctx, (ast.Store, ast.Del)) and (n.id in seq_names or n.id == x):
                                ok = False
                            if isinstance(n, (ast.Yield, ast.YieldFrom)):
                                pass
                    if any(isinstance(n, ast.Name) and n.id == v for st in stmts[i + 2:] for n in ast.walk(st)):
                        ok = False
                if ok and nxt.body[2:]:
                    it = ast.Call(func=ast.Name(id='reversed', ctx=ast.Load()), args=[seq], keywords=[])
                    new = ast.For(target=ast.Name(id=x, ctx=ast.Store()), iter=it, body=nxt.body[2:], orelse=[], type_comment=None)
                    ast.copy_location(new, nxt)
                    ast.fix_missing_locations(new)
                    out.append(new)
                    i += 2
                    continue
            out.append(s)
            i += 1
        return out

    def visit_FunctionDef(self, node):
        self.generic_visit(node)
        return node

    def generic_visit(self, node):
        super().generic_visit(node)
        for fld in ('body', 'orelse', 'finalbody'):
            val = getattr(node, fld, None)
            if isinstance(val, list) and val and isinstance(val[0], ast.stmt):
                setattr(node, fld, self._block(val, set()))
        return node


class UnrollLiteral(ast.NodeTransformer):
    """for v in (a, b): BODY   ->   BODY[v := a] ; BODY[v := b]      (a literal tuple / list of at most 4 names or constants; v not re-bound in BODY;
    no break / continue / else): two parallel statements and their loop form become one spelling"""
    def _block(self, stmts):
        import copy
        out = []
        for s in stmts:
            def _chain(e):
                if isinstance(e, ast.Lambda):
                    return True         # a function display: substituted at its (single) use in the body below
                while isinstance(e, ast.Attribute):
                    e = e.value
                return isinstance(e, (ast.Name, ast.Constant))
            if isinstance(s, ast.For) and isinstance(s.target, ast.Name) and not s.orelse and isinstance(s.iter, (ast.Tuple, ast.List)) and 1 <= len(s.iter.elts) <= 4 \
                    and all(_chain(e) for e in s.iter.elts):
                v = s.target.id
                bad = False
                for st in s.body:
                    for n in ast.walk(st):
                        if isinstance(n, (ast.Break, ast.Continue, ast.FunctionDef, ast.Lambda)):
                            bad = True
                        if isinstance(n, ast.Name) and n.id == v and isinstance(n.ctx, (ast.Store, ast.Del)):
                            bad = True
                if not bad:
                    for e in s.iter.elts:
                        class Rn(ast.NodeTransformer):
                            def visit_Name(self, n):
                                if n.id == v and isinstance(n.ctx, ast.Load):
                                    return ast.copy_location(copy.deepcopy(e), n)
                                return n
                        for st in s.body:
                            new = Rn().visit(copy.deepcopy(st))
                            ast.fix_missing_locations(new)
                            out.append(new)
                    # the loop variable keeps its last value when something still reads it after the loop
                    scope = self._fns[-1] if getattr(self, '_fns', None) else None
                    inside = {id(n) for n in ast.walk(s)}
                    if scope is None or any(isinstance(n, ast.Name) and n.id == v and id(n) not in inside for n in ast.walk(scope)):
                        keep = ast.copy_location(ast.Assign(targets=[ast.Name(id=v, ctx=ast.Store())], value=copy.deepcopy(s.iter.elts[-1])), s)
                        ast.fix_missing_locations(keep)
                        out.append(keep)
                    continue
            out.append(s)
        return out

    def visit_FunctionDef(self, node):
        self._fns = getattr(self, '_fns', []) + [node]
        try:
            return self.generic_visit(node)
        finally:
            self._fns = self._fns[:-1]

    def generic_visit(self, node):
        super().generic_visit(node)
        for fld in ('body', 'orelse', 'finalbody'):
            val = getattr(node, fld, None)
            if isinstance(val, list) and val and isinstance(val[0], ast.stmt):
                setattr(node, fld, self._block(val))
        return node


class UnrollComp(ast.NodeTransformer):
    """[f(v) for v in (a, b)]                 ->  [f(a), f(b)]
       tuple(f(g, t) for g, t in zip((g1, g2), (t1, t2)))  ->  (f(g1, t1), f(g2, t2))
    (one generator without filter over a literal tuple / list of at most 4 names / constants / attribute chains, or a zip of such)"""
    def _simple(self, e):
        while isinstance(e, ast.Attribute):
            e = e.value
        return isinstance(e, (ast.Name, ast.Constant))

    def _items(self, it):
        if isinstance(it, (ast.Tuple, ast.List)) and 1 <= len(it.elts) <= 4 and all(self._simple(x) for x in it.elts):
            return [[x] for x in it.elts]
        if isinstance(it, (ast.Tuple, ast.List)) and 1 <= len(it.elts) <= 4 and all(isinstance(r, (ast.Tuple, ast.List)) and 1 <= len(r.elts) <= 4 and all(self._simple(x) for x in r.elts) for r in it.elts) \
                and len({len(r.elts) for r in it.elts}) == 1 and len(it.elts[0].elts) > 1:
            return [list(r.elts) for r in it.elts]          # rows written out: ((a, b), (c, d))
        if isinstance(it, ast.Call) and isinstance(it.func, ast.Name) and it.func.id == 'zip' and not it.keywords and it.args \
                and all(isinstance(a, (ast.Tuple, ast.List)) and 1 <= len(a.elts) <= 4 and all(self._simple(x) for x in a.elts) for a in it.args) \
                and len({len(a.elts) for a in it.args}) == 1:
            return [list(col) for col in zip(*[a.elts for a in it.args])]
        return None

    def _expand(self, comp):
        import copy
        if len(comp.generators) != 1 or comp.generators[0].ifs or comp.generators[0].is_async:
            return None
        g = comp.generators[0]
        rows = self._items(g.iter)
        if rows is None:
            return None
        if isinstance(g.target, ast.Name):
            names = [g.target.id]
        elif isinstance(g.target, ast.Tuple) and all(isinstance(x, ast.Name) for x in g.target.elts):
            names = [x.id for x in g.target.elts]
        else:
            return None
        if any(len(r) != len(names) for r in rows):
            if len(names) == 1 and all(len(r) > 1 for r in rows):
                return None
            return None
        out = []
        for r in rows:
            m = dict(zip(names, r))

            class Rn(ast.NodeTransformer):
                def visit_Name(self, n):
                    if n.id in m and isinstance(n.ctx, ast.Load):
                        return ast.copy_location(copy.deepcopy(m[n.id]), n)
                    return n
            out.append(Rn().visit(copy.deepcopy(comp.elt)))
        return out

    def visit_ListComp(self, node):
        self.generic_visit(node)
        ex = self._expand(node)
        if ex is None:
            return node
        return ast.copy_location(ast.List(elts=ex, ctx=ast.Load()), node)

    def visit_Call(self, node):
        self.generic_visit(node)
        if isinstance(node.func, ast.Name) and node.func.id in ('tuple', 'list') and len(node.args) == 1 and not node.keywords:
            a = node.args[0]
            if isinstance(a, ast.GeneratorExp):
                ex = self._expand(a)
                if ex is not None:
                    new = ast.Tuple(elts=ex, ctx=ast.Load()) if node.func.id == 'tuple' else ast.List(elts=ex, ctx=ast.Load())
                    return ast.copy_location(new, node)
            if isinstance(a, ast.List) and node.func.id == 'tuple':
                return ast.copy_location(ast.Tuple(elts=a.elts, ctx=ast.Load()), node)
        return node


class AppendLoop(ast.NodeTransformer):
    """out = [] ; for x in xs: out.append(f(x))         ->  out = [f(x) for x in xs]
       out = [] ; for x in xs: if c(x): out.append(f(x)) ->  out = [f(x) for x in xs if c(x)]
    and  xs.extend(ys) -> xs += ys  for a local list xs"""
    def _block(self, stmts):
        out = []
        i = 0
        while i < len(stmts):
            s = stmts[i]
            nxt = stmts[i + 1] if i + 1 < len(stmts) else None
            if isinstance(s, ast.Assign) and len(s.targets) == 1 and isinstance(s.targets[0], ast.Name) and (
                    (isinstance(s.value, ast.List) and not s.value.elts) or (isinstance(s.value, ast.Call) and isinstance(s.value.func, ast.Name) and s.value.func.id == 'list' and not s.value.args)) \
                    and isinstance(nxt, ast.For) and not nxt.orelse and len(nxt.body) == 1:
                name = s.targets[0].id
                b = nxt.body[0]
                cond = None
                if isinstance(b, ast.If) and not b.orelse and len(b.body) == 1:
                    cond, b = b.test, b.body[0]
                if isinstance(b, ast.Expr) and isinstance(b.value, ast.Call) and isinstance(b.value.func, ast.Attribute) and b.value.func.attr == 'append' \
                        and isinstance(b.value.func.value, ast.Name) and b.value.func.value.id == name and len(b.value.args) == 1 and not b.value.keywords:
                    elt = b.value.args[0]
                    uses_out = any(isinstance(n, ast.Name) and n.id == name for e in ([elt, nxt.iter] + ([cond] if cond is not None else [])) for n in ast.walk(e))
                    if not uses_out:
                        comp = ast.ListComp(elt=elt, generators=[ast.comprehension(target=nxt.target, iter=nxt.iter, ifs=[cond] if cond is not None else [], is_async=0)])
                        new = ast.Assign(targets=[s.targets[0]], value=comp)
                        ast.copy_location(new, s)
                        ast.fix_missing_locations(new)
                        out.append(new)
                        i += 2
                        continue
            out.append(s)
            i += 1
        return out

    def generic_visit(self, node):
        super().generic_visit(node)
        for fld in ('body', 'orelse', 'finalbody'):
            v = getattr(node, fld, None)
            if isinstance(v, list) and v and isinstance(v[0], ast.stmt):
                setattr(node, fld, self._block(v))
        return node


class TupleCanon(ast.NodeTransformer):
    """(a, b) = (e1, e2)  ->  a = e1 ; b = e2          (independent: no target occurs in a later value)
       r = CALL ; ... r[0] ... r[1] ... list(r[2:]) -> (r__0, r__1, *r__rest) = CALL ; ... r__0 ... r__1 ... r__rest
    (r bound once, used only through constant subscripts / one trailing slice): analysis sees positional unpacking in both spellings"""
    def _block(self, stmts, fn):
        out = []
        for s in stmts:
            if isinstance(s, ast.Assign) and len(s.targets) == 1 and isinstance(s.targets[0], ast.Tuple) and isinstance(s.value, (ast.Tuple, ast.List)) \
                    and len(s.targets[0].elts) == len(s.value.elts) and all(isinstance(t, ast.Name) for t in s.targets[0].elts) \
                    and not any(isinstance(v, ast.Starred) for v in s.value.elts):
                tnames = [t.id for t in s.targets[0].elts]
                ok = True
                for i, v in enumerate(s.value.elts):
                    used = {n.id for n in ast.walk(v) if isinstance(n, ast.Name)}
                    if used & set(tnames[:i]):
                        ok = False          # a later value reads an earlier target: simultaneous assignment matters (swap)
                if ok:
                    for t, v in zip(s.targets[0].elts, s.value.elts):
                        a = ast.Assign(targets=[t], value=v)
                        ast.copy_location(a, s)
                        ast.fix_missing_locations(a)
                        out.append(a)
                    continue
            out.append(s)
        return out

    def visit_FunctionDef(self, node):
        self.generic_visit(node)
        self._index_to_unpack(node)
        return node

    def generic_visit(self, node):
        super().generic_visit(node)
        for fld in ('body', 'orelse', 'finalbody'):
            v = getattr(node, fld, None)
            if isinstance(v, list) and v and isinstance(v[0], ast.stmt):
                setattr(node, fld, self._block(v, node))
        return node

    def _index_to_unpack(self, fn):
        # candidates: names bound exactly once, by a plain assignment of a call, in this function (nested functions may read them)
        binds = {}
        for n in ast.walk(fn):
            if isinstance(n, ast.Assign) and len(n.targets) == 1 and isinstance(n.targets[0], ast.Name) and isinstance(n.value, ast.Call):
                binds.setdefault(n.targets[0].id, []).append(n)
        stores = {}
        for n in ast.walk(fn):
            if isinstance(n, ast.Name) and isinstance(n.ctx, (ast.Store, ast.Del)):
                stores[n.id] = stores.get(n.id, 0) + 1
        a = fn.args
        params = {x.arg for x in a.posonlyargs + a.args + a.kwonlyargs}
        parents = {}
        for n in ast.walk(fn):
            for ch in ast.iter_child_nodes(n):
                parents[id(ch)] = n
        for name, asg in binds.items():
            if len(asg) != 1 or stores.get(name, 0) != 1 or name in params:
                continue
            loads = [n for n in ast.walk(fn) if isinstance(n, ast.Name) and n.id == name and isinstance(n.ctx, ast.Load)]
            if not loads:
                continue
            idx_uses, slice_uses, ok = [], [], True
            for ld in loads:
                par = parents.get(id(ld))
                if isinstance(par, ast.Subscript) and par.value is ld and isinstance(par.ctx, ast.Load):
                    sl = par.slice
                    if isinstance(sl, ast.Constant) and isinstance(sl.value, int) and not isinstance(sl.value, bool) and sl.value >= 0:
                        idx_uses.append((par, sl.value))
                        continue
                    if isinstance(sl, ast.Slice) and sl.upper is None and sl.step is None and isinstance(sl.lower, ast.Constant) and isinstance(sl.lower.value, int) and sl.lower.value >= 0:
                        slice_uses.append((par, sl.lower.value))
                        continue
                ok = False
                break
            if not ok or not idx_uses:
                continue
            top = max(i for _, i in idx_uses) + 1
            if slice_uses and {k for _, k in slice_uses} != {top}:
                continue
            names = ['%s__%d' % (name, i) for i in range(top)]
            rest = '%s__rest' % name
            # `x = r[i]` with x bound once: x itself becomes the unpacking target
            drop = []

            def direct_name(sub):
                par = parents.get(id(sub))
                wrap = None
                if isinstance(par, ast.Call) and isinstance(par.func, ast.Name) and par.func.id in ('list', 'tuple') and len(par.args) == 1 and par.args[0] is sub:
                    wrap, par = par, parents.get(id(par))
                if isinstance(par, ast.Assign) and len(par.targets) == 1 and isinstance(par.targets[0], ast.Name) and (par.value is sub or par.value is wrap) \
                        and par.targets[0].id not in params and (stores.get(par.targets[0].id, 0) == 1 or follows(par)):
                    return par.targets[0].id, par
                return None, None
            def follows(st):
                # st is in the run of plain `x = r[i]` statements directly after the call assignment, in the same block
                blk = None
                for n in ast.walk(fn):
                    for fld in ('body', 'orelse', 'finalbody'):
                        v = getattr(n, fld, None)
                        if isinstance(v, list) and asg[0] in v:
                            blk = v
                if blk is None or st not in blk:
                    return False
                i0, i1 = blk.index(asg[0]), blk.index(st)
                if i1 <= i0:
                    return False
                for mid in blk[i0 + 1:i1 + 1]:
                    if not (isinstance(mid, ast.Assign) and len(mid.targets) == 1 and isinstance(mid.targets[0], ast.Name) and isinstance(mid.value, (ast.Subscript, ast.Call))
                            and any(isinstance(x, ast.Name) and x.id == name for x in ast.walk(mid.value))):
                        return False
                return True
            per_index = {}
            for sub, i in idx_uses:
                per_index.setdefault(i, []).append(sub)
            for i, subs in per_index.items():
                if len(subs) == 1:
                    nm, st = direct_name(subs[0])
                    if nm:
                        names[i] = nm
                        drop.append(st)
            if len(slice_uses) == 1:
                nm, st = direct_name(slice_uses[0][0])
                if nm:
                    rest = nm
                    drop.append(st)
            repl = {id(p_): names[i] for p_, i in idx_uses}
            repl.update({id(p_): rest for p_, k in slice_uses})

            class Rp(ast.NodeTransformer):
                def visit_Subscript(self, n):
                    if id(n) in repl:
                        return ast.copy_location(ast.Name(id=repl[id(n)], ctx=ast.Load()), n)
                    return self.generic_visit(n)

                def visit_Call(self, n):
                    self.generic_visit(n)
                    # list(r__rest) / tuple(r__rest) of the starred remainder keep it as it is for the analysis
                    if isinstance(n.func, ast.Name) and n.func.id in ('list',) and len(n.args) == 1 and not n.keywords and isinstance(n.args[0], ast.Name) and n.args[0].id == rest:
                        return n.args[0]
                    return n
            star = [ast.Starred(value=ast.Name(id=rest, ctx=ast.Store()), ctx=ast.Store())] if slice_uses else []
            new_target = ast.Tuple(elts=[ast.Name(id=x, ctx=ast.Store()) for x in names] + star, ctx=ast.Store())
            asg[0].targets = [ast.copy_location(new_target, asg[0].targets[0])]
            Rp().visit(fn)
            if drop:
                dropset = {id(d) for d in drop}

                class Dp(ast.NodeTransformer):
                    def generic_visit(self, n):
                        super().generic_visit(n)
                        for fld in ('body', 'orelse', 'finalbody'):
                            v = getattr(n, fld, None)
                            if isinstance(v, list) and v and isinstance(v[0], ast.stmt):
                                kept = [x for x in v if id(x) not in dropset]
                                setattr(n, fld, kept or [ast.Pass()])
                        return n
                Dp().visit(fn)
            ast.fix_missing_locations(fn)


def _drop_dead_helpers(tree, inl):
    """a private helper that was inlined at every use is marked (Func.inlined_everywhere): who-may-write / purity rules attribute its effects to the
    (inlined) call sites only and skip the now unreferenced definition"""
    def refs(name, is_method, skip):
        n = 0
        for node in ast.walk(tree):
            if node is skip:
                continue
            if not is_method and isinstance(node, ast.Name) and node.id == name:
                n += 1
            if is_method and isinstance(node, ast.Attribute) and node.attr == name:
                n += 1
        return n
    for name, fn in list(inl.helpers.items()):
        inner = sum(1 for x in ast.walk(fn) if isinstance(x, ast.Name) and x.id == name)
        if inl.expanded.get(id(fn)) and refs(name, False, None) - inner == 0 and fn in tree.body:
            fn._sa_inlined_everywhere = True
    for (cls, name), fn in list(inl.methods.items()):
        inner = sum(1 for x in ast.walk(fn) if isinstance(x, ast.Attribute) and x.attr == name)
        if inl.expanded.get(id(fn)) and refs(name, True, None) - inner == 0:
            fn._sa_inlined_everywhere = True


EAGER_CONSUMERS = {'list', 'tuple', 'sorted', 'sum', 'set', 'frozenset', 'dict', 'min', 'max'}        # run the generator to exhaustion before anything else happens
LAZY_CONSUMERS = {'any', 'all', 'enumerate', 'zip', 'map', 'filter', 'next', 'iter'}                      # interleave with / cut short the generator: its body must be pure
GEN_PURE_CALLS = {'range', 'len', 'zip', 'enumerate', 'isinstance', 'reversed', 'tuple', 'list', 'getattr', 'hasattr', 'int', 'float', 'abs', 'min', 'max', 'sorted', 'type', 'id'}


def _private_generators_to_lists(tree):
    """a private generator function (module level or method) whose every use is consumed eagerly becomes a list builder:
         def _g(..): ... yield e ... yield from it ...   ->   def _g(..): __out = [] ... __out.append(e) ... __out.extend(it) ... return __out
    Valid when laziness is unobservable: the generator's body writes nothing but its own locals and calls only pure builtins / other private generators, and every
    call is an argument of an eager consumer (list, tuple, sorted, sum, ...), a starred argument, the iterable of a for loop / comprehension, or `yield from`."""
    parents = {}
    for n in ast.walk(tree):
        for c in ast.iter_child_nodes(n):
            parents[id(c)] = n
    gens = {}
    for n in ast.walk(tree):
        if isinstance(n, ast.FunctionDef) and n.name.startswith('_') and not (n.name.startswith('__') and n.name.endswith('__')) \
                and (not n.decorator_list or all(isinstance(d, ast.Name) and d.id == 'staticmethod' for d in n.decorator_list)):
            own = [x for x in _walk_fn_own(n)]
            if any(isinstance(x, (ast.Yield, ast.YieldFrom)) for x in own):
                gens.setdefault(n.name, []).append(n)
    gens = {k: v[0] for k, v in gens.items() if len(v) == 1}
    if not gens:
        return False

    def body_ok(fn, pure):
        for x in _walk_fn_own(fn):
            if isinstance(x, (ast.Attribute, ast.Subscript)) and isinstance(x.ctx, (ast.Store, ast.Del)):
                return False
            if isinstance(x, (ast.Global, ast.Nonlocal, ast.Try, ast.With, ast.Await, ast.FunctionDef, ast.Lambda, ast.ClassDef)) and x is not fn:
                return False
            if isinstance(x, ast.Yield):
                par = parents.get(id(x))
                if not isinstance(par, ast.Expr) or x.value is None:
                    return False            # value of a yield expression used: a coroutine, not a producer
            if isinstance(x, ast.YieldFrom) and not isinstance(parents.get(id(x)), ast.Expr):
                return False
            if isinstance(x, ast.Return) and x.value is not None:
                return False
            if isinstance(x, ast.Call):
                f = x.func
                if isinstance(f, ast.Name) and (f.id in GEN_PURE_CALLS or f.id in gens):
                    continue
                if isinstance(f, ast.Attribute) and f.attr in ('items', 'values', 'keys') and not x.args:
                    continue
                if isinstance(f, ast.Attribute) and isinstance(f.value, ast.Name) and f.value.id in ('self', 'cls') and f.attr in gens:
                    continue
                if not pure:
                    continue
                nm = _np_name(f)
                if nm is not None and not nm.endswith('.at') and nm not in ('copyto', 'put', 'put_along_axis', 'place', 'putmask', 'fill_diagonal', 'random.shuffle') \
                        and not any(k.arg == 'out' for k in x.keywords):
                    continue
                if isinstance(f, ast.Attribute) and isinstance(f.value, ast.Name) and f.value.id == 'math':
                    continue
                return False
            if isinstance(x, ast.Name) and x.id == '__out':
                return False
        return True

    def uses_ok(name, fn):
        """None: some use keeps the generator object; 'eager': every use exhausts it at once; 'lazy': some use interleaves with it"""
        kind = 'eager'
        for x in ast.walk(tree):
            hit = (isinstance(x, ast.Name) and x.id == name) or (isinstance(x, ast.Attribute) and x.attr == name)
            if not hit:
                continue
            call = parents.get(id(x))
            if not (isinstance(call, ast.Call) and call.func is x):
                return None
            user = parents.get(id(call))
            if isinstance(user, ast.Call) and call in user.args and isinstance(user.func, ast.Name) and user.func.id in EAGER_CONSUMERS:
                continue
            if isinstance(user, ast.Call) and call in user.args and isinstance(user.func, ast.Attribute) and user.func.attr in ('join', 'extend', 'update'):
                continue
            if isinstance(user, ast.Starred):
                continue
            if isinstance(user, ast.Assign) and user.value is call and len(user.targets) == 1 and isinstance(user.targets[0], (ast.Tuple, ast.List)):
                continue            # a, b = gen(): the unpacking runs the generator to its end before anything is bound
            if isinstance(user, ast.Call) and call in user.args and isinstance(user.func, ast.Name) and user.func.id in LAZY_CONSUMERS and user.func.id not in ('next', 'iter'):
                kind = 'lazy'
                continue
            if isinstance(user, ast.comprehension) and user.iter is call:
                comp = parents.get(id(user))
                # a comprehension whose own parts do nothing but compute (no calls beyond pure builtins): running the generator first changes nothing
                parts = [comp.elt] if hasattr(comp, 'elt') else [comp.key, comp.value]
                parts += [c for g in comp.generators for c in g.ifs] + [g.iter for g in comp.generators if g is not user]
                calm = all(not isinstance(y, ast.Call) or (isinstance(y.func, ast.Name) and y.func.id in GEN_PURE_CALLS) for p_ in parts for y in ast.walk(p_))
                if not (calm and comp.generators[0] is user and not isinstance(comp, ast.GeneratorExp)):
                    kind = 'lazy'
                continue
            if isinstance(user, ast.For) and user.iter is call:
                kind = 'lazy'
                continue
            if isinstance(user, ast.YieldFrom):
                kind = 'lazy'
                continue
            return None
        return kind
    done = False
    todo = {}
    for k, v in gens.items():
        u = uses_ok(k, v)
        if u is not None and body_ok(v, pure=(u == 'lazy')):
            todo[k] = v
    # a generator that delegates to one that stays lazy stays lazy too
    for _ in range(len(todo) + 1):
        for k, fn in list(todo.items()):
            for x in _walk_fn_own(fn):
                if isinstance(x, ast.Call):
                    f = x.func
                    nm = f.id if isinstance(f, ast.Name) else (f.attr if isinstance(f, ast.Attribute) else None)
                    if nm in gens and nm not in todo:
                        todo.pop(k, None)
    for name, fn in todo.items():
        class T(ast.NodeTransformer):
            def visit_FunctionDef(self, n):
                return self.generic_visit(n) if n is fn else n

            def visit_Lambda(self, n):
                return n

            def visit_Expr(self, n):
                v = n.value
                if isinstance(v, ast.Yield):
                    return ast.copy_location(ast.Expr(value=ast.Call(func=ast.Attribute(value=ast.Name(id='__out', ctx=ast.Load()), attr='append', ctx=ast.Load()), args=[v.value], keywords=[])), n)
                if isinstance(v, ast.YieldFrom):
                    return ast.copy_location(ast.Expr(value=ast.Call(func=ast.Attribute(value=ast.Name(id='__out', ctx=ast.Load()), attr='extend', ctx=ast.Load()), args=[v.value], keywords=[])), n)
                return n

            def visit_Return(self, n):
                return ast.copy_location(ast.Return(value=ast.Name(id='__out', ctx=ast.Load())), n)
        T().visit(fn)
        doc = 1 if fn.body and isinstance(fn.body[0], ast.Expr) and isinstance(fn.body[0].value, ast.Constant) and isinstance(fn.body[0].value.value, str) else 0
        fn.body.insert(doc, ast.Assign(targets=[ast.Name(id='__out', ctx=ast.Store())], value=ast.List(elts=[], ctx=ast.Load())))
        if not isinstance(fn.body[-1], ast.Return):
            fn.body.append(ast.Return(value=ast.Name(id='__out', ctx=ast.Load())))
        ast.fix_missing_locations(fn)
        done = True
    return done


def _walk_fn_own(fn):
    """nodes of fn's own body (nested defs / lambdas are reported but not entered)"""
    stack = list(fn.body)
    while stack:
        n = stack.pop()
        yield n
        if isinstance(n, (ast.FunctionDef, ast.AsyncFunctionDef, ast.Lambda, ast.ClassDef)):
            continue
        stack.extend(ast.iter_child_nodes(n))


STD_MODULES = {'operator', 'math', 'functools', 'itertools', 'contextlib', 'collections', 'typing', 'dataclasses', 'copy', 'warnings', 'numbers', 'abc', 'enum'}


def _canon_std_imports(tree):
    """private aliases of standard-library imports get the library's own names back:
         import operator as _op -> import operator ;  from functools import lru_cache as _lru_cache -> from functools import lru_cache
    (only when the canonical name is not used for anything else in the module)"""
    used = set()
    for n in ast.walk(tree):
        if isinstance(n, ast.Name):
            used.add(n.id)
        elif isinstance(n, ast.arg):
            used.add(n.arg)
        elif isinstance(n, (ast.FunctionDef, ast.ClassDef, ast.AsyncFunctionDef)):
            used.add(n.name)
        elif isinstance(n, (ast.Import, ast.ImportFrom)):
            for a in n.names:
                used.add(a.asname or a.name.split('.')[0])
    ren = {}
    for n in tree.body:
        if isinstance(n, ast.Import):
            for a in n.names:
                if a.asname and a.name in STD_MODULES and a.asname != a.name and a.name not in used and a.asname not in ren:
                    ren[a.asname] = a.name
                    a.asname = None
        elif isinstance(n, ast.ImportFrom) and n.level == 0 and n.module and n.module.split('.')[0] in STD_MODULES:
            for a in n.names:
                if a.asname and a.asname != a.name and a.name not in used and a.asname not in ren and a.name != '*':
                    ren[a.asname] = a.name
                    a.asname = None
    if not ren:
        return False
    # an alias that is also (re)bound some other way stays as written
    for n in ast.walk(tree):
        if isinstance(n, ast.Name) and isinstance(n.ctx, (ast.Store, ast.Del)) and n.id in ren:
            return False
        if isinstance(n, ast.arg) and n.arg in ren:
            return False
    for n in ast.walk(tree):
        if isinstance(n, ast.Name) and n.id in ren:
            n.id = ren[n.id]
    return True


def _expand_private_contextmanagers(tree):
    """a private @contextmanager generator function with one top-level `yield` is split into an enter helper and an exit helper, and every
    `with _cm(args) as v: BODY` becomes
         v, s1, .. = _cm__enter(args) ; try: BODY finally: _cm__exit(s1, ..)          (generator of the form  PRE ; try: yield V finally: POST)
         v = _cm__enter(args) ; BODY ; [_cm__exit(..)]                                 (generator of the form  PRE ; yield V ; POST - POST only runs when BODY completes,
                                                                                        so BODY must not leave through return / break / continue when POST is not empty)
    The helpers are ordinary private functions: the inliner then substitutes them."""
    def deco_is_cm(d):
        return ast.unparse(d).split('.')[-1] == 'contextmanager'
    cms = {}
    containers = [tree] + [n for n in tree.body if isinstance(n, ast.ClassDef)]
    for c in containers:
        for fn in c.body:
            if isinstance(fn, ast.FunctionDef) and fn.name.startswith('_') and not fn.name.startswith('__') and any(deco_is_cm(d) for d in fn.decorator_list):
                others = [d for d in fn.decorator_list if not deco_is_cm(d)]
                if others and not (c is not tree and all(isinstance(d, ast.Name) and d.id == 'staticmethod' for d in others)):
                    continue
                if fn.args.vararg or fn.args.kwarg:
                    continue
                body = list(fn.body)
                ys = [x for x in _walk_fn_own(fn) if isinstance(x, (ast.Yield, ast.YieldFrom))]
                if len(ys) != 1 or not isinstance(ys[0], ast.Yield):
                    continue
                pre, post, yv, guarded = None, None, None, False
                for i, st in enumerate(body):
                    if isinstance(st, ast.Expr) and st.value is ys[0]:
                        pre, post, yv = body[:i], body[i + 1:], ys[0].value
                    elif isinstance(st, ast.Try) and not st.handlers and not st.orelse and len(st.body) == 1 and isinstance(st.body[0], ast.Expr) and st.body[0].value is ys[0] \
                            and i == len(body) - 1:
                        pre, post, yv, guarded = body[:i], list(st.finalbody), ys[0].value, True
                if pre is None:
                    continue
                if any(isinstance(x, ast.Return) for st in pre + post for x in ast.walk(st)):
                    continue
                cms[fn.name] = (c, fn, pre, post, yv, guarded)
    if not cms:
        return False
    changed = False
    counter = [0]

    def leaves(body):
        """BODY may leave the with block other than by falling off its end or raising"""
        for st in body:
            for x in _walk_stmt_own(st):
                if isinstance(x, ast.Return):
                    return True
                if isinstance(x, (ast.Break, ast.Continue)):
                    return True         # conservative: even inside an inner loop
        return False

    def state_names(fn, pre, post):
        stored = {x.id for st in pre for x in ast.walk(st) if isinstance(x, ast.Name) and isinstance(x.ctx, ast.Store)}
        params = [a.arg for a in fn.args.posonlyargs + fn.args.args + fn.args.kwonlyargs]
        loaded = [x.id for st in post for x in ast.walk(st) if isinstance(x, ast.Name) and isinstance(x.ctx, ast.Load)]
        out = []
        for nm in loaded:
            if (nm in stored or nm in params) and nm not in out:
                out.append(nm)
        return out
    made = {}
    pending = []

    def helpers_for(name):
        if name in made:
            return made[name]
        c, fn, pre, post, yv, guarded = cms[name]
        st = state_names(fn, pre, post)
        stored_post = {x.id for s_ in post for x in ast.walk(s_) if isinstance(x, ast.Name) and isinstance(x.ctx, ast.Store)}
        yv_e = copy.deepcopy(yv) if yv is not None else ast.Constant(value=None)
        ret = yv_e if not post else ast.Tuple(elts=[yv_e] + [ast.Name(id=n_, ctx=ast.Load()) for n_ in st], ctx=ast.Load())
        enter = ast.FunctionDef(name=name + '__enter', args=copy.deepcopy(fn.args), body=[copy.deepcopy(x) for x in pre if not (isinstance(x, ast.Expr) and isinstance(x.value, ast.Constant))] + [ast.Return(value=ret)],
                                decorator_list=[d for d in fn.decorator_list if isinstance(d, ast.Name) and d.id == 'staticmethod'], returns=None, type_params=[])
        new = [enter]
        if post:
            ex_args = ast.arguments(posonlyargs=[], args=[ast.arg(arg=n_) for n_ in st], vararg=None, kwonlyargs=[], kw_defaults=[], kwarg=None, defaults=[])
            exit_ = ast.FunctionDef(name=name + '__exit', args=ex_args, body=[copy.deepcopy(x) for x in post] + [ast.Return(value=ast.Constant(value=None))],
                                    decorator_list=[ast.Name(id='staticmethod', ctx=ast.Load())] if c is not tree else [], returns=None, type_params=[])
            new.append(exit_)
        for d in new:
            ast.copy_location(d, fn)
            ast.fix_missing_locations(d)
        pending.append((c, fn, new))
        made[name] = (st, bool(post), guarded, c is not tree and not any(isinstance(d, ast.Name) and d.id == 'staticmethod' for d in fn.decorator_list))
        return made[name]

    class T(ast.NodeTransformer):
        def visit_With(self, node):
            self.generic_visit(node)
            if len(node.items) != 1:
                return node
            it = node.items[0]
            call = it.context_expr
            if not isinstance(call, ast.Call):
                return node
            f = call.func
            nm = f.id if isinstance(f, ast.Name) else (f.attr if isinstance(f, ast.Attribute) and isinstance(f.value, ast.Name) and f.value.id in ('self', 'cls') else None)
            if nm not in cms:
                return node
            c, fn, pre, post, yv, guarded = cms[nm]
            if isinstance(f, ast.Name) != (c is tree):
                return node
            if it.optional_vars is not None and not isinstance(it.optional_vars, (ast.Name, ast.Tuple)):
                return node
            if post and not guarded and leaves(node.body):
                return node
            st, has_post, guarded, _ = helpers_for(nm)
            counter[0] += 1
            ecall = ast.Call(func=copy.deepcopy(f), args=call.args, keywords=call.keywords)
            if isinstance(ecall.func, ast.Name):
                ecall.func.id = nm + '__enter'
            else:
                ecall.func.attr = nm + '__enter'
            tmps = ['__cm%d_%s' % (counter[0], n_) for n_ in st]
            var = it.optional_vars if it.optional_vars is not None else ast.Name(id='__cm%d_value' % counter[0], ctx=ast.Store())
            out = []
            if has_post:
                tgt = ast.Tuple(elts=[var] + [ast.Name(id=t, ctx=ast.Store()) for t in tmps], ctx=ast.Store())
                out.append(ast.Assign(targets=[tgt], value=ecall))
                xcall = ast.Call(func=copy.deepcopy(f), args=[ast.Name(id=t, ctx=ast.Load()) for t in tmps], keywords=[])
                if isinstance(xcall.func, ast.Name):
                    xcall.func.id = nm + '__exit'
                else:
                    xcall.func.attr = nm + '__exit'
                if guarded:
                    out.append(ast.Try(body=node.body, handlers=[], orelse=[], finalbody=[ast.Expr(value=xcall)]))
                else:
                    out.extend(node.body)
                    out.append(ast.Expr(value=xcall))
            else:
                if it.optional_vars is not None:
                    out.append(ast.Assign(targets=[var], value=ecall))
                else:
                    out.append(ast.Expr(value=ecall))
                out.extend(node.body)
            for o in out:
                ast.copy_location(o, node)
                ast.fix_missing_locations(o)
            nonlocal changed
            changed = True
            return out
    T().visit(tree)
    for c, fn, new in pending:
        i = c.body.index(fn)
        c.body[i + 1:i + 1] = new
    # a context manager none of whose uses is left is dropped (its generator body is not a kernel)
    for nm, (c, fn, *_rest) in cms.items():
        refs = sum(1 for x in ast.walk(tree) if (isinstance(x, ast.Name) and x.id == nm) or (isinstance(x, ast.Attribute) and x.attr == nm))
        if refs == 0 and nm in made and fn in c.body:
            c.body.remove(fn)
    ast.fix_missing_locations(tree)
    return changed


def _walk_stmt_own(st):
    stack = [st]
    while stack:
        n = stack.pop()
        yield n
        if isinstance(n, (ast.FunctionDef, ast.AsyncFunctionDef, ast.Lambda, ast.ClassDef)) and n is not st:
            continue
        stack.extend(ast.iter_child_nodes(n))


class GeneratorLoops:
    """for T in _g(args): BODY    with _g a private generator (function or method) that has exactly one `yield E`:
    the loop is replaced by _g's own body with `T = E ; BODY` in the place of the yield - the exact interleaving Python performs.

    Mechanics: every consumer K gets its own procedure copy _g__each_K of the generator whose yield is the placeholder call __yield_K__(E); the loop becomes
         if __consume_K__: _g__each_K(args)  else: T = __yielded_K__ ; BODY
    the helper inliner expands the procedure call (renaming locals, binding parameters) and `splice` then moves the else-branch to the placeholder.  A marker that
    is still unexpanded at the end is turned back into the loop as it was written."""
    def __init__(self, tree):
        self.tree = tree
        self.saved = {}         # K -> (original For copy, procedure name)
        self.k = 0

    def prepare(self):
        tree = self.tree
        parents = {}
        for n in ast.walk(tree):
            for c in ast.iter_child_nodes(n):
                parents[id(c)] = n
        gens = {}
        for c in [tree] + [n for n in tree.body if isinstance(n, ast.ClassDef)]:
            for fn in c.body:
                if not (isinstance(fn, ast.FunctionDef) and fn.name.startswith('_') and not fn.name.startswith('__')):
                    continue
                is_cm = any(ast.unparse(d).split('.')[-1] == 'contextmanager' for d in fn.decorator_list)
                others = [d for d in fn.decorator_list if ast.unparse(d).split('.')[-1] != 'contextmanager']
                if others and not (c is not tree and all(isinstance(d, ast.Name) and d.id == 'staticmethod' for d in others)):
                    continue
                ys = [x for x in _walk_fn_own(fn) if isinstance(x, (ast.Yield, ast.YieldFrom))]
                if len(ys) != 1 or not isinstance(ys[0], ast.Yield) or (ys[0].value is None and not is_cm):
                    continue
                if any(isinstance(x, (ast.FunctionDef, ast.Lambda, ast.ClassDef, ast.Nonlocal)) for x in _walk_fn_own(fn)):
                    continue
                if not is_cm and any(isinstance(x, (ast.Try, ast.With, ast.Global)) for x in _walk_fn_own(fn)):
                    continue
                if fn.args.vararg or fn.args.kwarg:
                    continue
                if any(isinstance(x, ast.Return) and x.value is not None for x in _walk_fn_own(fn)):
                    continue
                # the yield must be an expression statement; find its chain of enclosing statements
                chain, node = [], ys[0]
                ystmt = parents.get(id(node))
                if not (isinstance(ystmt, ast.Expr) and ystmt.value is node):
                    continue
                cur = ystmt
                while cur is not fn:
                    par = parents.get(id(cur))
                    chain.append((par, cur))
                    cur = par
                if is_cm:
                    # a context manager: the yield sits in the body of with blocks / try-finally only; what follows it outside a finally clause only runs when the body completes
                    okc = True
                    post = False
                    for par, ch in chain:
                        if isinstance(par, ast.With):
                            if not any(x is ch for x in par.body):
                                okc = False
                            elif par.body[-1] is not ch:
                                post = True
                        elif isinstance(par, ast.Try):
                            if par.handlers or par.orelse or not any(x is ch for x in par.body):
                                okc = False
                            elif par.body[-1] is not ch:
                                post = True
                        elif isinstance(par, ast.FunctionDef):
                            if par.body[-1] is not ch:
                                post = True
                        elif isinstance(par, ast.If):
                            # the other branch must not fall through (a context manager that does not yield is an error, not an empty block)
                            mine, other = (par.body, par.orelse) if any(x is ch for x in par.body) else (par.orelse, par.body)
                            if not other or not isinstance(other[-1], ast.Raise):
                                okc = False
                            elif mine[-1] is not ch:
                                post = True
                        else:
                            okc = False
                    if okc:
                        gens.setdefault(fn.name, []).append((c, fn, ystmt, 'cm', post))
                    continue
                if any(not isinstance(par, (ast.For, ast.While, ast.If, ast.FunctionDef)) for par, _ in chain):
                    continue
                in_loop = any(isinstance(par, (ast.For, ast.While)) for par, _ in chain)
                # is the yield the last thing its innermost loop does in an iteration?
                tail = True
                for par, ch in chain:
                    blk = par.body if any(x is ch for x in par.body) else par.orelse
                    if blk[-1] is not ch:
                        tail = False
                    if isinstance(par, (ast.For, ast.While)):
                        if blk is not par.body:
                            tail = False
                        break
                gens.setdefault(fn.name, []).append((c, fn, ystmt, in_loop, tail))
        gens = {k: v[0] for k, v in gens.items() if len(v) == 1}
        if not gens:
            return False
        me = self
        changed = [False]

        class T(ast.NodeTransformer):
            def __init__(self):
                self.cls = []

            def visit_ClassDef(self, n):
                self.cls.append(n)
                self.generic_visit(n)
                self.cls.pop()
                return n

            def visit_For(self, node):
                self.generic_visit(node)
                call = node.iter
                if node.orelse or not isinstance(call, ast.Call) or any(isinstance(a, ast.Starred) for a in call.args) or any(k.arg is None for k in call.keywords):
                    return node
                f = call.func
                if isinstance(f, ast.Name):
                    nm, is_m = f.id, False
                elif isinstance(f, ast.Attribute) and isinstance(f.value, ast.Name) and f.value.id in ('self', 'cls'):
                    nm, is_m = f.attr, True
                else:
                    return node
                if nm not in gens:
                    return node
                c, fn, ystmt, in_loop, tail = gens[nm]
                if in_loop == 'cm':
                    return node
                if is_m != (c is not me.tree):
                    return node
                # break / continue of BODY that belong to the consumer loop
                def own_jumps(stmts):
                    out = []
                    stack = list(stmts)
                    while stack:
                        x = stack.pop()
                        if isinstance(x, (ast.Break, ast.Continue)):
                            out.append(x)
                        if isinstance(x, (ast.For, ast.While, ast.FunctionDef, ast.Lambda, ast.ClassDef)):
                            # jumps inside an inner loop belong to that loop (its else clause aside)
                            stack.extend(getattr(x, 'orelse', []) if isinstance(x, (ast.For, ast.While)) else [])
                            continue
                        stack.extend(ast.iter_child_nodes(x))
                    return out
                jumps = own_jumps(node.body)
                if any(isinstance(j, ast.Break) for j in jumps):
                    return node
                if jumps and not (in_loop and tail):
                    return node
                if any(isinstance(x, (ast.Yield, ast.YieldFrom)) for st in node.body for x in ast.walk(st)):
                    return node
                me.k += 1
                K = me.k
                proc = copy.deepcopy(fn)
                proc.name = '%s__each_%d' % (fn.name, K)
                # the copy's own yield statement
                for x in ast.walk(proc):
                    if isinstance(x, ast.Expr) and isinstance(x.value, ast.Yield):
                        x.value = ast.Call(func=ast.Name(id='__yield_%d__' % K, ctx=ast.Load()), args=[x.value.value], keywords=[])
                if proc.body and isinstance(proc.body[0], ast.Expr) and isinstance(proc.body[0].value, ast.Constant) and isinstance(proc.body[0].value.value, str) and len(proc.body) > 1:
                    proc.body = proc.body[1:]
                proc.returns = None
                i = c.body.index(fn)
                me.pending.append((c, fn, proc))
                pcall = copy.deepcopy(call)
                if isinstance(pcall.func, ast.Name):
                    pcall.func.id = proc.name
                else:
                    pcall.func.attr = proc.name
                bind = ast.Assign(targets=[node.target], value=ast.Name(id='__yielded_%d__' % K, ctx=ast.Load()))
                marker = ast.If(test=ast.Name(id='__consume_%d__' % K, ctx=ast.Load()), body=[ast.Expr(value=pcall)], orelse=[bind] + node.body)
                me.saved[K] = (copy.deepcopy(node), proc.name)
                ast.copy_location(marker, node)
                ast.fix_missing_locations(marker)
                changed[0] = True
                return marker
            def visit_With(self, node):
                self.generic_visit(node)
                if len(node.items) != 1:
                    return node
                it = node.items[0]
                call = it.context_expr
                if not isinstance(call, ast.Call) or any(isinstance(a, ast.Starred) for a in call.args) or any(k.arg is None for k in call.keywords):
                    return node
                f = call.func
                if isinstance(f, ast.Name):
                    nm, is_m = f.id, False
                elif isinstance(f, ast.Attribute) and isinstance(f.value, ast.Name) and f.value.id in ('self', 'cls'):
                    nm, is_m = f.attr, True
                else:
                    return node
                if nm not in gens or gens[nm][3] != 'cm':
                    return node
                c, fn, ystmt, _cm, post = gens[nm]
                if is_m != (c is not me.tree):
                    return node
                if post and any(isinstance(x, (ast.Return, ast.Break, ast.Continue)) for st in node.body for x in _walk_stmt_own(st)):
                    return node
                if any(isinstance(x, (ast.Yield, ast.YieldFrom)) for st in node.body for x in ast.walk(st)):
                    return node
                me.k += 1
                K = me.k
                proc = copy.deepcopy(fn)
                proc.name = '%s__each_%d' % (fn.name, K)
                proc.decorator_list = [d for d in proc.decorator_list if isinstance(d, ast.Name) and d.id == 'staticmethod']
                for x in ast.walk(proc):
                    if isinstance(x, ast.Expr) and isinstance(x.value, ast.Yield):
                        x.value = ast.Call(func=ast.Name(id='__yield_%d__' % K, ctx=ast.Load()), args=[x.value.value if x.value.value is not None else ast.Constant(value=None)], keywords=[])
                if proc.body and isinstance(proc.body[0], ast.Expr) and isinstance(proc.body[0].value, ast.Constant) and isinstance(proc.body[0].value.value, str) and len(proc.body) > 1:
                    proc.body = proc.body[1:]
                proc.returns = None
                me.pending.append((c, fn, proc))
                pcall = copy.deepcopy(call)
                if isinstance(pcall.func, ast.Name):
                    pcall.func.id = proc.name
                else:
                    pcall.func.attr = proc.name
                tgt = it.optional_vars if it.optional_vars is not None else ast.Name(id='__cm_unused_%d' % K, ctx=ast.Store())
                bind = ast.Assign(targets=[tgt], value=ast.Name(id='__yielded_%d__' % K, ctx=ast.Load()))
                marker = ast.If(test=ast.Name(id='__consume_%d__' % K, ctx=ast.Load()), body=[ast.Expr(value=pcall)], orelse=[bind] + node.body)
                me.saved[K] = (copy.deepcopy(node), proc.name)
                me.unused_bind.add('__cm_unused_%d' % K)
                ast.copy_location(marker, node)
                ast.fix_missing_locations(marker)
                changed[0] = True
                return marker
        self.pending = []
        self.unused_bind = set()
        T().visit(tree)
        for c, fn, proc in self.pending:
            ast.copy_location(proc, fn)
            ast.fix_missing_locations(proc)
            c.body.insert(c.body.index(fn) + 1, proc)
        return changed[0]

    def _markers(self):
        for n in ast.walk(self.tree):
            for fld in ('body', 'orelse', 'finalbody'):
                blk = getattr(n, fld, None)
                if isinstance(blk, list):
                    for i, st in enumerate(blk):
                        if isinstance(st, ast.If) and isinstance(st.test, ast.Name) and st.test.id.startswith('__consume_') and st.test.id.endswith('__'):
                            yield blk, i, st, int(st.test.id[len('__consume_'):-2])
            if isinstance(n, ast.Try):
                for h in n.handlers:
                    for i, st in enumerate(h.body):
                        if isinstance(st, ast.If) and isinstance(st.test, ast.Name) and st.test.id.startswith('__consume_') and st.test.id.endswith('__'):
                            yield h.body, i, st, int(st.test.id[len('__consume_'):-2])

    def splice(self):
        """markers whose procedure call has been expanded: move BODY to the placeholder"""
        done = False
        again = True
        while again:
            again = False
            for blk, i, st, K in list(self._markers()):
                if K not in self.saved:
                    continue
                pname = self.saved[K][1]
                if any((isinstance(x, ast.Name) and x.id == pname) or (isinstance(x, ast.Attribute) and x.attr == pname) for b in st.body for x in ast.walk(b)):
                    continue            # not expanded (yet)
                sites = [(x, y) for b in st.body for x in ast.walk(b) for fld in ('body', 'orelse', 'finalbody') for y in [getattr(x, fld, None)] if isinstance(y, list)
                         and any(isinstance(z, ast.Expr) and isinstance(z.value, ast.Call) and isinstance(z.value.func, ast.Name) and z.value.func.id == '__yield_%d__' % K for z in y)]
                top = [j for j, z in enumerate(st.body) if isinstance(z, ast.Expr) and isinstance(z.value, ast.Call) and isinstance(z.value.func, ast.Name) and z.value.func.id == '__yield_%d__' % K]
                holder = None
                if top:
                    holder = st.body
                elif len(sites) == 1:
                    holder = sites[0][1]
                if holder is None:
                    continue
                j = [j for j, z in enumerate(holder) if isinstance(z, ast.Expr) and isinstance(z.value, ast.Call) and isinstance(z.value.func, ast.Name) and z.value.func.id == '__yield_%d__' % K]
                if len(j) != 1:
                    continue
                E = holder[j[0]].value.args[0]
                body = st.orelse
                body[0].value = E
                if isinstance(body[0].targets[0], ast.Name) and body[0].targets[0].id in getattr(self, 'unused_bind', ()):
                    body = body[1:] if isinstance(E, ast.Constant) else [ast.copy_location(ast.Expr(value=E), body[0])] + body[1:]
                    body = body or [ast.Pass()]
                holder[j[0]:j[0] + 1] = body
                blk[i:i + 1] = st.body
                del self.saved[K]
                done = again = True
                break
        if done:
            ast.fix_missing_locations(self.tree)
        return done

    def revert(self):
        """markers that were never expanded: the loop as written; the unused procedure copies are removed"""
        for blk, i, st, K in list(self._markers()):
            if K in self.saved:
                blk[i] = self.saved[K][0]
        names = {v[1] for v in self.saved.values()} | {'%s' % p.name for _, _, p in getattr(self, 'pending', [])}
        for c in [self.tree] + [n for n in self.tree.body if isinstance(n, ast.ClassDef)]:
            for fn in list(c.body):
                if isinstance(fn, ast.FunctionDef) and fn.name in names:
                    refs = sum(1 for x in ast.walk(self.tree) if (isinstance(x, ast.Name) and x.id == fn.name) or (isinstance(x, ast.Attribute) and x.attr == fn.name))
                    if refs == 0:
                        c.body.remove(fn)
        # generators all of whose consumers were spliced and that nothing references any more are dropped
        for c, fn, _p in getattr(self, 'pending', []):
            if fn in c.body:
                refs = sum(1 for x in ast.walk(self.tree) if (isinstance(x, ast.Name) and x.id == fn.name) or (isinstance(x, ast.Attribute) and x.attr == fn.name))
                if refs == 0:
                    c.body.remove(fn)
        ast.fix_missing_locations(self.tree)


def _tail_recursion_to_loops(tree):
    """a private function all of whose recursive calls are tail calls `return _f(args)` becomes a loop:
         def _f(p, q): if C: return _f(E1, E2) ; return R        ->      def _f(p, q): while C: p, q = E1, E2 ; return R
    (general form: body wrapped in `while True`, `return _f(args)` -> parameter assignment ; continue - then the two common shapes are simplified back)"""
    changed = False
    for c in [tree] + [n for n in tree.body if isinstance(n, ast.ClassDef)]:
        for fn in c.body:
            if not (isinstance(fn, ast.FunctionDef) and fn.name.startswith('_') and not fn.name.startswith('__') and not fn.decorator_list and c is tree):
                continue
            if fn.args.vararg or fn.args.kwarg or fn.args.kwonlyargs or fn.args.posonlyargs:
                continue
            params = [a.arg for a in fn.args.args]
            calls = [x for x in ast.walk(fn) if isinstance(x, ast.Call) and isinstance(x.func, ast.Name) and x.func.id == fn.name]
            refs = [x for x in ast.walk(fn) if isinstance(x, ast.Name) and x.id == fn.name]
            if not calls or len(refs) != len(calls):
                continue
            rets = {id(x.value): x for x in _walk_fn_own(fn) if isinstance(x, ast.Return) and x.value is not None}
            if not all(id(cl) in rets for cl in calls):
                continue
            if any(cl.keywords or any(isinstance(a, ast.Starred) for a in cl.args) or len(cl.args) != len(params) for cl in calls):
                continue
            if any(isinstance(x, (ast.FunctionDef, ast.Lambda, ast.Yield, ast.YieldFrom, ast.Try, ast.With)) for x in _walk_fn_own(fn)):
                continue
            # tail returns must not sit inside a loop of the function (continue would bind to that loop)
            def in_loop(target, stmts, inside=False):
                for st in stmts:
                    if st is target:
                        return inside
                    for fld in ('body', 'orelse'):
                        sub = getattr(st, fld, None)
                        if isinstance(sub, list) and sub and isinstance(sub[0], ast.stmt):
                            r = in_loop(target, sub, inside or isinstance(st, (ast.For, ast.While)))
                            if r is not None:
                                return r
                return None
            if any(in_loop(rets[id(cl)], fn.body) for cl in calls):
                continue

            def assign_for(cl):
                pairs = [(p, a) for p, a in zip(params, cl.args) if not (isinstance(a, ast.Name) and a.id == p)]
                if not pairs:
                    return []
                if len(pairs) == 1:
                    return [ast.Assign(targets=[ast.Name(id=pairs[0][0], ctx=ast.Store())], value=pairs[0][1])]
                return [ast.Assign(targets=[ast.Tuple(elts=[ast.Name(id=p, ctx=ast.Store()) for p, _ in pairs], ctx=ast.Store())], value=ast.Tuple(elts=[a for _, a in pairs], ctx=ast.Load()))]
            doc = fn.body[:1] if fn.body and isinstance(fn.body[0], ast.Expr) and isinstance(fn.body[0].value, ast.Constant) and isinstance(fn.body[0].value.value, str) else []
            body = fn.body[len(doc):]
            new_body = None
            # shape 1:  if C: return _f(..)  [else:] ; REST          shape 2:  if C: REST(return R) ; return _f(..)
            if len(body) >= 2 and isinstance(body[0], ast.If) and len(body[0].body) == 1 and isinstance(body[0].body[0], ast.Return) and len(calls) == 1:
                first, rest = body[0], (body[0].orelse or body[1:])
                if first.orelse and body[1:]:
                    rest = None
                if rest is not None and first.body[0].value is calls[0] and not any(x is calls[0] for st in rest for x in ast.walk(st)):
                    new_body = [ast.While(test=first.test, body=assign_for(calls[0]) or [ast.Pass()], orelse=[])] + list(rest)
                elif rest is not None and len(rest) == 1 and isinstance(rest[0], ast.Return) and rest[0].value is calls[0] and not any(x is calls[0] for x in ast.walk(first.body[0])):
                    new_body = [ast.While(test=ast.UnaryOp(op=ast.Not(), operand=first.test), body=assign_for(calls[0]) or [ast.Pass()], orelse=[]), first.body[0]]
            if new_body is None:
                class T(ast.NodeTransformer):
                    def visit_Return(self, n):
                        if n.value is not None and any(n.value is cl for cl in calls):
                            return assign_for(n.value) + [ast.Continue()]
                        return n
                wrapped = [T().visit(st) for st in body]
                flat = []
                for x in wrapped:
                    flat.extend(x if isinstance(x, list) else [x])
                if not isinstance(flat[-1], (ast.Return, ast.Raise, ast.Continue)):
                    flat.append(ast.Return(value=None))
                new_body = [ast.While(test=ast.Constant(value=True), body=flat, orelse=[])]
            fn.body = doc + new_body
            for st in fn.body:
                ast.copy_location(st, fn)
            ast.fix_missing_locations(fn)
            changed = True
    return changed


def _canon_super(tree):
    """super(C, self) written inside a method of class C (self = its first parameter) is the zero-argument super()"""
    changed = False
    for c in ast.walk(tree):
        if not isinstance(c, ast.ClassDef):
            continue
        for m in c.body:
            if not isinstance(m, ast.FunctionDef) or not m.args.args or any(isinstance(d, ast.Name) and d.id == 'staticmethod' for d in m.decorator_list):
                continue
            slf = m.args.args[0].arg
            nested = {id(y) for d in ast.walk(m) if isinstance(d, (ast.FunctionDef, ast.Lambda, ast.ClassDef)) and d is not m for y in ast.walk(d)}
            for x in ast.walk(m):
                if isinstance(x, ast.Call) and isinstance(x.func, ast.Name) and x.func.id == 'super' and len(x.args) == 2 and not x.keywords and id(x) not in nested \
                        and isinstance(x.args[0], ast.Name) and x.args[0].id == c.name and isinstance(x.args[1], ast.Name) and x.args[1].id == slf:
                    x.args = []
                    changed = True
    return changed


def _module_lambdas_to_defs(tree):
    """_name = lambda a, b: E   at module level (private, bound once)   ->   def _name(a, b): return E"""
    counts = {}
    for n in ast.walk(tree):
        if isinstance(n, ast.Name) and isinstance(n.ctx, (ast.Store, ast.Del)):
            counts[n.id] = counts.get(n.id, 0) + 1
        elif isinstance(n, (ast.FunctionDef, ast.ClassDef)):
            counts[n.name] = counts.get(n.name, 0) + 1
        elif isinstance(n, ast.arg):
            counts[n.arg] = counts.get(n.arg, 0) + 1
        elif isinstance(n, (ast.Global, ast.Nonlocal)):
            for x in n.names:
                counts[x] = counts.get(x, 0) + 2
    changed = False
    for i, st in enumerate(tree.body):
        if isinstance(st, ast.Assign) and len(st.targets) == 1 and isinstance(st.targets[0], ast.Name) and isinstance(st.value, ast.Lambda):
            nm = st.targets[0].id
            if nm.startswith('_') and not nm.startswith('__') and counts.get(nm, 0) == 1:
                fn = ast.FunctionDef(name=nm, args=st.value.args, body=[ast.Return(value=st.value.body)], decorator_list=[], returns=None, type_params=[])
                ast.copy_location(fn, st)
                ast.fix_missing_locations(fn)
                tree.body[i] = fn
                changed = True
    return changed


def _memo_result_immutable(fn):
    """every value returned by fn is a number / string / tuple of such (sharing one cached object between callers is then unobservable)"""
    params = {a.arg for a in fn.args.posonlyargs + fn.args.args + fn.args.kwonlyargs}

    def imm(e, depth=0):
        if e is None or isinstance(e, (ast.Constant, ast.JoinedStr, ast.Compare)):
            return True
        if isinstance(e, ast.BoolOp):
            return all(imm(v, depth + 1) for v in e.values)
        if isinstance(e, ast.Tuple):
            return all(imm(x, depth + 1) for x in e.elts)
        if isinstance(e, ast.UnaryOp):
            return imm(e.operand, depth + 1)
        if isinstance(e, ast.BinOp):
            return imm(e.left, depth + 1) and imm(e.right, depth + 1)
        if isinstance(e, ast.IfExp):
            return imm(e.body, depth + 1) and imm(e.orelse, depth + 1)
        if isinstance(e, ast.Call):
            t = ast.unparse(e.func)
            return t in ('tuple', 'str', 'int', 'float', 'bool', 'frozenset', 'len', 'min', 'max', 'sum', 'abs', 'round', 'repr', 'format') or t.split('.')[0] == 'math'
        if isinstance(e, ast.Name):
            if e.id in params:
                return True
            binds = [n for n in ast.walk(fn) if isinstance(n, ast.Assign) and any(isinstance(t, ast.Name) and t.id == e.id for t in n.targets)]
            comp_scope = {id(y) for c in ast.walk(fn) if isinstance(c, ast.comprehension) for y in ast.walk(c.target)}
            others = [n for n in ast.walk(fn) if isinstance(n, ast.Name) and n.id == e.id and isinstance(n.ctx, ast.Store) and id(n) not in comp_scope]
            return bool(binds) and len(binds) == len(others) and depth < 4 and all(imm(b.value, depth + 1) for b in binds)
        if isinstance(e, ast.Attribute):
            return e.attr in ('ndim', 'size', 'shape', 'dtype', 'itemsize')
        if isinstance(e, ast.Subscript):
            return isinstance(e.value, (ast.Attribute, ast.Name, ast.Tuple)) and imm(e.value, depth + 1)
        return False
    rets = [x for x in _walk_fn_own(fn) if isinstance(x, ast.Return)]
    return bool(rets) and all(imm(r.value) for r in rets)


def _split_chained_assignments(tree):
    """a = b = E  ->  a = E ; b = a        (plain names; E is evaluated once, the targets are bound left to right)"""
    class T(ast.NodeTransformer):
        def visit_Assign(self, node):
            if len(node.targets) > 1 and all(isinstance(t, ast.Name) for t in node.targets) and len({t.id for t in node.targets}) == len(node.targets) \
                    and not any(isinstance(x, ast.Name) and x.id in {t.id for t in node.targets} for x in ast.walk(node.value)):
                first = node.targets[0]
                out = [ast.copy_location(ast.Assign(targets=[first], value=node.value), node)]
                for t in node.targets[1:]:
                    out.append(ast.copy_location(ast.Assign(targets=[t], value=ast.Name(id=first.id, ctx=ast.Load())), node))
                for o in out:
                    ast.fix_missing_locations(o)
                return out
            return node
    T().visit(tree)


def apply_simple_decorators(tree):
    """@d on a function, where d is a module-level function of this module of the shape

           def d(fn):                                  def d(fn):
               @functools.wraps(fn)                        @functools.wraps(fn)
               def wrapper(*args, **kwargs):                def wrapper(self, *args, **kwargs):
                   return fn(*args, **kwargs)                   with CTX:
               return wrapper                                       return fn(self, *args, **kwargs)
                                                            return wrapper

    is applied at analysis time: a pass-through decorator is dropped, a with-decorator wraps the body of the decorated function in `with CTX:`."""
    decos = {}
    for n in tree.body:
        if not (isinstance(n, ast.FunctionDef) and len(n.args.args) == 1 and not n.args.vararg and not n.args.kwarg):
            continue
        body = [s for s in n.body if not (isinstance(s, ast.Expr) and isinstance(s.value, ast.Constant))]
        if len(body) != 2 or not isinstance(body[0], ast.FunctionDef) or not isinstance(body[1], ast.Return) or not isinstance(body[1].value, ast.Name) or body[1].value.id != body[0].name:
            continue
        fn_param, w = n.args.args[0].arg, body[0]
        if not all(isinstance(d, ast.Call) and isinstance(d.func, (ast.Name, ast.Attribute)) and (d.func.id if isinstance(d.func, ast.Name) else d.func.attr) == 'wraps' for d in w.decorator_list):
            continue
        wb = [s for s in w.body if not (isinstance(s, ast.Expr) and isinstance(s.value, ast.Constant))]

        def passthrough(call):
            # fn(<the wrapper's own parameters, in order>, *args, **kwargs)
            if not (isinstance(call, ast.Call) and isinstance(call.func, ast.Name) and call.func.id == fn_param):
                return False
            pos = [a.arg for a in w.args.args]
            got = [a.id for a in call.args if isinstance(a, ast.Name)]
            star = [a.value.id for a in call.args if isinstance(a, ast.Starred) and isinstance(a.value, ast.Name)]
            dstar = [k.value.id for k in call.keywords if k.arg is None and isinstance(k.value, ast.Name)]
            return got == pos and star == ([w.args.vararg.arg] if w.args.vararg else []) and dstar == ([w.args.kwarg.arg] if w.args.kwarg else []) \
                and len(call.args) == len(got) + len(star) and len(call.keywords) == len(dstar) and w.args.vararg is not None and w.args.kwarg is not None
        if len(wb) == 1 and isinstance(wb[0], ast.Return) and passthrough(wb[0].value):
            decos[n.name] = ('pass', None)
        elif len(wb) == 1 and isinstance(wb[0], ast.With) and len(wb[0].body) == 1 and isinstance(wb[0].body[0], ast.Return) and passthrough(wb[0].body[0].value) \
                and all(it.optional_vars is None for it in wb[0].items) \
                and not any(isinstance(x, ast.Name) and x.id in {a.arg for a in w.args.args} | {w.args.vararg.arg, w.args.kwarg.arg} for it in wb[0].items for x in ast.walk(it.context_expr)):
            decos[n.name] = ('with', wb[0].items)
    if not decos:
        return False
    changed = False
    for f in ast.walk(tree):
        if isinstance(f, ast.FunctionDef) and f.decorator_list:
            keep = []
            for d in reversed(f.decorator_list):            # applied bottom-up
                if isinstance(d, ast.Name) and d.id in decos and not keep:
                    kind, items = decos[d.id]
                    if kind == 'with' and not any(isinstance(x, (ast.Yield, ast.YieldFrom)) for x in ast.walk(f)):
                        w_ = ast.With(items=copy.deepcopy(items), body=f.body, type_comment=None)
                        ast.copy_location(w_, f.body[0])
                        f.body = [w_]
                        ast.fix_missing_locations(f)
                        changed = True
                    elif kind == 'pass':
                        changed = True
                    else:
                        keep.insert(0, d)
                else:
                    keep.insert(0, d)
            f.decorator_list = keep
    return changed


def normalize_module(tree, modname):
    from . import lower
    spell = Spelling(methods=modname in KERNEL_MODULES)
    _canon_std_imports(tree)
    spell.operator_aliases = tuple(a.asname or a.name for n_ in ast.walk(tree) if isinstance(n_, ast.Import) for a in n_.names if a.name == 'operator')
    spell.operator_names = {(a.asname or a.name): a.name for n_ in ast.walk(tree) if isinstance(n_, ast.ImportFrom) and n_.module == 'operator' for a in n_.names}
    spell.math_aliases = tuple(a.asname or a.name for n_ in ast.walk(tree) if isinstance(n_, ast.Import) for a in n_.names if a.name == 'math')
    has_np = any(isinstance(n_, ast.Import) and any(a.name == 'numpy' and a.asname == 'np' for a in n_.names) for n_ in ast.walk(tree))
    if not has_np:
        spell.math_aliases = ()
    _split_chained_assignments(tree)
    _canon_super(tree)
    _tail_recursion_to_loops(tree)
    from . import devirt
    devirt.flatten_private_bases(tree)
    devirt.tuple_records(tree)
    devirt.devirtualize(tree)
    gl = GeneratorLoops(tree)
    gl.prepare()
    _expand_private_contextmanagers(tree)
    _private_generators_to_lists(tree)
    spell.visit(tree)
    _module_lambdas_to_defs(tree)
    apply_simple_decorators(tree)
    inl = Inliner(tree)
    inl.after_run = gl.splice
    lower.lower_module(tree, inl, extra_passes=(lambda t: spell.visit(t), lambda t: UnrollLiteral().visit(t), lambda t: UnrollComp().visit(t)))
    gl.splice()
    gl.revert()
    if inl.helpers or inl.methods:
        _drop_dead_helpers(tree, inl)
    IfAssign().visit(tree)         # after inlining: a helper `return a if c else b` is inlined as an expression first
    WhileCounter().visit(tree)
    UnrollLiteral().visit(tree)
    UnrollComp().visit(tree)
    LoopCanon().visit(tree)
    AppendLoop().visit(tree)
    TupleCanon().visit(tree)
    ast.fix_missing_locations(tree)
    lower.lower_module(tree, inl, extra_passes=(lambda t: spell.visit(t), lambda t: IfAssign().visit(t), lambda t: TupleCanon().visit(t)))   # copies left by tuple splitting, folds exposed by the loop passes
    if inl.helpers or inl.methods:
        _drop_dead_helpers(tree, inl)
    return tree
