"""(Re)generate sa/param_roles.json: the positional parameter names of the internal NumPy kernels (synapgrad/cpu_ops.py, synapgrad/conv_tools.py) as of the
tree the rule tables were written against.  Rules name kernel parameters by these names (roles); core.Model renames the parameters of a kernel whose names
were changed (same arity) back to them, so that a pure renaming is invisible to every rule.   usage: gen_param_roles.py [repo]"""
import ast, json, os, sys

HERE = os.path.dirname(os.path.abspath(__file__))
MODS = ('synapgrad/cpu_ops.py', 'synapgrad/conv_tools.py')


def main(repo):
    out = {}
    for rel in MODS:
        t = ast.parse(open(os.path.join(repo, rel)).read())
        modname = rel[:-3].replace('/', '.')
        for n in t.body:
            if isinstance(n, ast.FunctionDef) and not n.name.startswith('_'):
                a = n.args
                out['%s.%s' % (modname, n.name)] = dict(pos=[x.arg for x in a.posonlyargs + a.args], kwonly=[x.arg for x in a.kwonlyargs],
                                                       vararg=a.vararg.arg if a.vararg else None, kwarg=a.kwarg.arg if a.kwarg else None)
    json.dump(out, open(os.path.join(HERE, 'param_roles.json'), 'w'), indent=1, sort_keys=True)
    print(len(out), 'kernels')


if __name__ == '__main__':
    main(sys.argv[1] if len(sys.argv) > 1 else '/repo')
