"""POLY normal form: canonical representation of arithmetic source terms over named atoms.

A value is a Laurent polynomial with rational exponents over atoms:  sum_i  c_i * prod_j atom_j ** e_ij   (c_i, e_ij Fractions).
Sums that are raised to a non-natural power (sqrt, 1/x) become *opaque atoms* named by the canonical text of their primitive part,
with the numeric content and the common monomial factored out first, so that
    sqrt(a*b+a*c) == sqrt(a)*sqrt(b+c),   x/(2*y+2*z) == 0.5*x/(y+z),   sqrt(6)/sqrt(3) == sqrt(2),   a/b == a*b**-1,   6.0 == 6.
Two source expressions are "the same formula" iff their normal forms are equal.  This is algebraic normalisation of terms (constant
folding / value numbering), not execution: atoms are never given values.
"""
from fractions import Fraction
import ast

ONE = Fraction(1)


def _primes(n):
    out, p = {}, 2
    while p * p <= n:
        while n % p == 0:
            out[p] = out.get(p, 0) + 1
            n //= p
        p += 1
    if n > 1:
        out[n] = out.get(n, 0) + 1
    return out


class P:
    __slots__ = ('t',)

    def __init__(self, terms=None):
        self.t = {}
        if terms:
            for m, c in terms.items():
                if c == 0:
                    continue
                c = Fraction(c)
                if any(n.startswith('#') for n, _ in m):
                    # prime atoms '#p'^e : fold the integral part of e into the numeric coefficient
                    nm = []
                    for n, e in m:
                        if n.startswith('#'):
                            whole = e.numerator // e.denominator
                            if whole:
                                c = c * Fraction(int(n[1:])) ** whole
                            e = e - whole
                            if e == 0:
                                continue
                        nm.append((n, e))
                    m = tuple(nm)
                self.t[m] = self.t.get(m, 0) + c
            self.t = {m: c for m, c in self.t.items() if c != 0}

    # ---- constructors
    @staticmethod
    def const(x):
        if isinstance(x, bool):
            x = int(x)
        if isinstance(x, float):
            x = Fraction(repr(x))
        return P({(): Fraction(x)})

    @staticmethod
    def atom(name, exp=ONE):
        return P({((name, Fraction(exp)),): ONE})

    # ---- helpers
    @staticmethod
    def _mulmono(a, b):
        d = dict(a)
        for n, e in b:
            d[n] = d.get(n, 0) + e
        return tuple(sorted((n, e) for n, e in d.items() if e != 0))

    def is_const(self):
        return all(m == () for m in self.t)

    def const_value(self):
        return self.t.get((), Fraction(0))

    def is_zero(self):
        return not self.t

    # ---- arithmetic
    def __add__(self, o):
        o = as_p(o)
        d = dict(self.t)
        for m, c in o.t.items():
            d[m] = d.get(m, 0) + c
        return P(d)

    __radd__ = __add__

    def __neg__(self):
        return P({m: -c for m, c in self.t.items()})

    def __sub__(self, o):
        return self + (-as_p(o))

    def __rsub__(self, o):
        return as_p(o) + (-self)

    def __mul__(self, o):
        o = as_p(o)
        d = {}
        for m1, c1 in self.t.items():
            for m2, c2 in o.t.items():
                m = P._mulmono(m1, m2)
                d[m] = d.get(m, 0) + c1 * c2
        return P(d)

    __rmul__ = __mul__

    def __truediv__(self, o):
        return self * as_p(o).power(Fraction(-1))

    def __rtruediv__(self, o):
        return as_p(o) * self.power(Fraction(-1))

    def __pow__(self, q):
        q = as_p(q)
        if q.is_const():
            return self.power(q.const_value())
        return P.atom('pow(%s,%s)' % (self.canon(), q.canon()))

    def __rpow__(self, base):
        return as_p(base) ** self

    def __eq__(self, o):
        return isinstance(o, P) and self.t == o.t

    def __hash__(self):
        return hash(self.canon())

    def power(self, q):
        q = Fraction(q)
        if q == 1:
            return self
        if q == 0:
            return P.const(1)
        if self.is_zero():
            if q > 0:
                return P()
            raise ZeroDivisionError('division by a term that normalises to zero')
        if len(self.t) == 1:
            (m, c), = self.t.items()
            return _numpow(c, q) * P({tuple(sorted((n, e * q) for n, e in m)): ONE})
        if q.denominator == 1 and 0 < q <= 4:
            r = self
            for _ in range(int(q) - 1):
                r = r * self
            return r
        content, mono, prim = self.factor()
        return _numpow(content, q) * P({tuple(sorted((n, e * q) for n, e in mono)): ONE}) * P.atom('(' + prim.canon() + ')', q)

    def factor(self):
        """self = content * mono * prim  with prim's leading coefficient 1 and no common atom factor"""
        monos = sorted(self.t)
        common = None
        for m in monos:
            d = dict(m)
            if common is None:
                common = dict(d)
            else:
                for n in list(common):
                    if n in d:
                        common[n] = min(common[n], d[n])
                    else:
                        del common[n]
        common = {n: e for n, e in (common or {}).items() if e != 0}
        cm = tuple(sorted(common.items()))
        inv = tuple((n, -e) for n, e in cm)
        red = {P._mulmono(m, inv): c for m, c in self.t.items()}
        lead = red[sorted(red)[0]]
        prim = P({m: c / lead for m, c in red.items()})
        return lead, cm, prim

    # ---- canonical text
    def canon(self):
        if not self.t:
            return '0'
        parts = []
        for m in sorted(self.t):
            c = self.t[m]
            ms = '*'.join('%s' % n if e == 1 else '%s^%s' % (n, e) for n, e in m)
            if not ms:
                parts.append(str(c))
            elif c == 1:
                parts.append(ms)
            else:
                parts.append('%s*%s' % (c, ms))
        return ' + '.join(parts)

    def __repr__(self):
        return 'P<%s>' % self.canon()

    def atoms(self):
        return {n for m in self.t for n, _ in m}


def _numpow(c, q):
    """c ** q for a rational c and rational q, as a P (irrational parts become prime atoms '#p')"""
    c = Fraction(c)
    if q.denominator == 1:
        return P.const(c ** int(q)) if c != 0 or q > 0 else P.const(0)
    sign = 1
    if c < 0:
        if q.denominator % 2 == 0:
            return P.atom('(%s)' % c, q)
        sign = -1
        c = -c
    out = P.const(sign)
    for base, s in ((c.numerator, 1), (c.denominator, -1)):
        for p, k in _primes(base).items():
            e = Fraction(k) * q * s
            whole = e.numerator // e.denominator
            frac = e - whole
            out = out * P.const(Fraction(p) ** whole)
            if frac != 0:
                out = out * P.atom('#%d' % p, frac)
    return out


def as_p(x):
    if isinstance(x, P):
        return x
    return P.const(x)


def sqrt(x):
    return as_p(x).power(Fraction(1, 2))


def floor(x):
    """floor with integer addends pulled out:  floor(a/b + 1) == floor(a/b) + 1"""
    x = as_p(x)
    k = x.t.get((), Fraction(0))
    ki = k.numerator // k.denominator if k.denominator == 1 else 0
    rest = x - ki
    # integer-valued monomials (integer coefficient, natural powers of integral atoms) commute out of floor as well: floor(p + n) = floor(p) + n
    whole = P({m: c for m, c in rest.t.items() if m and _integral(P({m: c}))})
    if whole.t and len(whole.t) < len(rest.t):
        return floor(rest - whole) + whole + ki
    if rest.is_const():
        c = rest.const_value()
        return P.const(c.numerator // c.denominator + ki)
    if _integral(rest):
        return rest + ki
    return P.atom('floor(%s)' % rest.canon()) + ki


NONINTEGRAL = set()     # atom names that stand for fractions (e.g. a split ratio): a rule adds them before building its terms


def _integral(p):
    """polynomial with integer coefficients and natural exponents over plain atoms (sizes, strides ...) is integer valued"""
    for m, c in p.t.items():
        if c.denominator != 1:
            return False
        for n, e in m:
            if n in NONINTEGRAL:
                return False
            if e.denominator != 1 or e < 0 or n.startswith('(') or n.startswith('#') or n.startswith('floor(') is False and n.startswith('pow('):
                return False
    return True


# ------------------------------------------------------------------------------------------------ from source expressions
class Unsupported(Exception):
    pass


class TermBuilder:
    """turns an ast expression into a P, resolving names through `env` (name -> P) and attribute/subscript atoms through `atom_of`"""

    def __init__(self, env=None, atom_of=None, model=None, mod=None, on_call=None):
        self.env = env if env is not None else {}
        self.atom_of = atom_of or (lambda e: None)
        self.model, self.mod = model, mod
        self.on_call = on_call

    def build(self, e):
        if isinstance(e, ast.Constant):
            if isinstance(e.value, (int, float)) and not isinstance(e.value, bool):
                return P.const(e.value)
            raise Unsupported('constant %r' % (e.value,))
        a = self.atom_of(e)
        if a is not None:
            return a if isinstance(a, P) else P.atom(a)
        if isinstance(e, ast.Name):
            if e.id in self.env:
                v = self.env[e.id]
                if isinstance(v, P):
                    return v
                raise Unsupported('name %s is not a scalar term' % e.id)
            return P.atom(e.id)
        if isinstance(e, ast.BinOp):
            l, r = self.build(e.left), self.build(e.right)
            if isinstance(e.op, ast.Add):
                return l + r
            if isinstance(e.op, ast.Sub):
                return l - r
            if isinstance(e.op, (ast.Mult, ast.MatMult)):
                return l * r
            if isinstance(e.op, ast.Div):
                return l / r
            if isinstance(e.op, ast.Pow):
                return l ** r
            if isinstance(e.op, ast.FloorDiv):
                return floor(l / r)
            raise Unsupported('operator %s' % type(e.op).__name__)
        if isinstance(e, ast.UnaryOp):
            v = self.build(e.operand)
            if isinstance(e.op, ast.USub):
                return -v
            if isinstance(e.op, ast.UAdd):
                return v
            raise Unsupported('unary %s' % type(e.op).__name__)
        if isinstance(e, ast.Call):
            name = None
            if self.model is not None and self.mod is not None:
                name = self.model.resolve(self.mod, e.func)
            if name is None:
                from .core import dotted
                name = dotted(e.func)
            if self.on_call is not None:
                r = self.on_call(self, name, e)
                if r is not None:
                    return r
            args = e.args
            if name in ('numpy.sqrt', 'math.sqrt', 'np.sqrt') and len(args) == 1:
                return sqrt(self.build(args[0]))
            if name in ('numpy.floor', 'math.floor', 'np.floor') and len(args) == 1:
                return floor(self.build(args[0]))
            if name in ('float', 'numpy.array', 'numpy.asarray', 'numpy.float32', 'numpy.float64', 'builtins.float') and len(args) >= 1:
                return self.build(args[0])
            if name in ('int', 'builtins.int') and len(args) == 1:
                v = self.build(args[0])
                return v if _is_floor(v) else floor(v)
            if name in ('numpy.prod', 'np.prod', 'math.prod') and len(args) == 1:
                return P.atom('prod(%s)' % ' '.join(ast.unparse(args[0]).split()))
            if isinstance(e.func, ast.Attribute) and e.func.attr in ('item', 'copy') and not args:
                return self.build(e.func.value)
            if isinstance(e.func, ast.Attribute) and e.func.attr == 'astype':
                return self.build(e.func.value)
            raise Unsupported('call %s' % ast.unparse(e)[:60])
        if isinstance(e, ast.IfExp):
            raise Unsupported('conditional expression (needs a valuation)')
        raise Unsupported('expression %s' % ast.unparse(e)[:60])


def _is_floor(p):
    return all(all(n.startswith('floor(') or e.denominator == 1 for n, e in m) for m in p.t) and any(n.startswith('floor(') for m in p.t for n, _ in m) or p.is_const() and p.const_value().denominator == 1
