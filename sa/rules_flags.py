"""FLAGS: requires_grad bookkeeping of every op wrapper, decided by partial evaluation over ALL valuations of the operands' flags.

Each op wrapper of synapgrad/functional.py and synapgrad/nn/functional.py is evaluated (sa/peval.py) with symbolic tensor operands; for every
presence combination of optional operands and every valuation of the operands' requires_grad flags:

  PROP    the result tensor's requires_grad equals the OR of its children's flags, and every operand whose flag is set is a child
  ATTACH  grad_fn is stored on the result iff the result requires grad, and it wraps a closure defined in the wrapper
  COVER   the backward closure (evaluated in the wrapper's environment, same valuation) accumulates with `+=` into <operand>._grad exactly once for
          every operand whose flag is set and never for an operand whose flag is clear; nothing else is written into a gradient buffer

What is compared is the outcome of each valuation, not the spelling of guards: `elif` chains, merged / split conditions, helpers, a flag computed
before the operand tuple is complete, keyword / positional spellings all reduce to the same table."""
import ast, itertools
from .core import norm
from .peval import PE, Opaque
from .poly import P
from .report import Incomplete

OP_MODULES = ('synapgrad.functional', 'synapgrad.nn.functional')
KMODS = ('synapgrad.cpu_ops.', 'synapgrad.conv_tools.')
TENSOR = 'synapgrad.tensor.Tensor'
BFQ = 'synapgrad.functional.BackwardFunction'


class TObj:
    def __init__(self, name):
        self.name = self.text = self.loc_text = name

    def __repr__(self):
        return 'T(%s)' % self.name


class KItem:
    def __init__(self, res, i):
        self.res, self.i = res, i
        self.text = self.loc_text = '%s[%s]' % (res.loc_text, i)

    def __repr__(self):
        return self.text


class KRes:
    """result of a kernel call; unpacks into items"""
    n = 0

    def __init__(self, kname, args, kw, arity):
        KRes.n += 1
        self.kname, self.args, self.kw, self.arity = kname, args, kw, arity
        self.text = self.loc_text = '%s#%d' % (kname.split('.')[-1], KRes.n)

    def items(self, n):
        return [KItem(self, i) for i in range(n)]

    def pe_unpack(self, n, star):
        if star is None:
            return self.items(n)
        total = self.arity if self.arity is not None and self.arity >= n - 1 else n - 1
        it = self.items(total)
        tail = n - star - 1
        return it[:star] + [it[star: total - tail]] + it[total - tail:]

    def __repr__(self):
        return self.text


class OutT:
    def __init__(self, k, data, children, flag, kw):
        self.k, self.data, self.children, self.flag, self.kw = k, data, children, flag, kw
        self.text = self.loc_text = 'out%s' % (k or '')

    def __repr__(self):
        return 'OutT(%s, children=%s, requires_grad=%s)' % (self.text, self.children, self.flag)


class BF:
    def __init__(self, closure, extra):
        self.closure, self.extra = closure, extra
        self.text = 'BackwardFunction(%s)' % closure

    def __repr__(self):
        return self.text


def _arity(model, kname):
    f = model.funcs.get(kname)
    if f is None:
        return None
    rets = [n for n in ast.walk(f.node) if isinstance(n, ast.Return) and n.value is not None]
    ar = {len(r.value.elts) if isinstance(r.value, ast.Tuple) else 1 for r in rets}
    return ar.pop() if len(ar) == 1 else None


def _hooks(model, tensor_init):
    tparams = tensor_init.pos_params[1:]

    def call_hook(pe, name, e, args, kw, env, func, depth):
        n = name or ''
        if n == TENSOR:
            b = dict(zip(tparams, args))
            b.update(kw)
            flag = b.get('requires_grad', False)
            if isinstance(flag, P):
                flag = pe.decide(pe.test_text(e.args[tparams.index('requires_grad')] if len(e.args) > tparams.index('requires_grad') else
                                              [k.value for k in e.keywords if k.arg == 'requires_grad'][0], env, func, depth))
            ch = b.get('children', ())
            outs = pe.user.setdefault('tensors', [])
            o = OutT(len(outs), b.get('data'), tuple(ch) if isinstance(ch, (list, tuple)) else ch, flag, b)
            outs.append(o)
            return o
        if n.startswith(KMODS):
            r = KRes(n, args, kw, _arity(model, n))
            pe.user.setdefault('kcalls', []).append((r, list(pe.conds)))
            return r
        if n == BFQ:
            b = dict(zip(('backward', 'operation'), args))
            b.update(kw)
            cl = b.get('backward')
            cname = cl.text[len('<closure '):-1] if isinstance(cl, Opaque) and cl.text.startswith('<closure ') else None
            return BF(cname, args[2:])
        if n in ('any', 'all', 'builtins.any', 'builtins.all') and len(args) == 1 and isinstance(args[0], (list, tuple)):
            vals = []
            for i, v in enumerate(args[0]):
                if isinstance(v, bool):
                    vals.append(v)
                elif isinstance(v, P):
                    txt = _atom_text(v)
                    if txt is None:
                        return NotImplemented
                    vals.append(pe.decide(txt))
                else:
                    return NotImplemented
            return any(vals) if n.endswith('any') else all(vals)
        if n in ('zip', 'builtins.zip') and any(isinstance(a, KRes) for a in args) and any(isinstance(a, (list, tuple)) for a in args):
            ln = min(len(a) for a in args if isinstance(a, (list, tuple)))
            return list(zip(*[(a.items(ln) if isinstance(a, KRes) else list(a)[:ln]) for a in args]))
        if n in ('len', 'builtins.len') and len(args) == 1 and isinstance(args[0], KRes) and args[0].arity:
            return args[0].arity
        return NotImplemented

    def attr_hook(pe, e, key, env, func, depth):
        if isinstance(e, ast.Attribute):
            v = pe.expr(e.value, env, func, depth)
            if isinstance(v, OutT) and e.attr == 'requires_grad':
                return v.flag
            if isinstance(v, OutT) and e.attr == 'data':
                return v.data
            if isinstance(v, OutT) and e.attr in ('_children', 'children'):
                return v.children
        return NotImplemented

    def sub_hook(pe, e, base, idx):
        if isinstance(base, KRes) and isinstance(idx, int):
            return KItem(base, idx)
        if isinstance(base, KRes) and isinstance(idx, tuple) and idx and idx[0] == 'slice' and all(x is None or isinstance(x, int) for x in idx[1:]) and base.arity:
            return base.items(base.arity)[slice(idx[1], idx[2], idx[3])]
        return NotImplemented

    def comp_hook(pe, e, it, env, func, depth):
        if isinstance(it, KRes) and len(e.generators) == 1 and not e.generators[0].ifs:
            out = []
            for x in it.items(2):          # a representative pair of kernel results
                env2 = dict(env)
                pe.assign(e.generators[0].target, x, env2, func, depth, e)
                out.append(pe.expr(e.elt, env2, func, depth))
            return out
        return NotImplemented

    def default_pred(t):
        if t.startswith('isinstance('):
            return True
        if 'device' in t:
            return ' != ' not in t and ' is not ' not in t        # all operands live on the one supported device
        return None
    return call_hook, attr_hook, sub_hook, default_pred, comp_hook


def _atom_text(v):
    if isinstance(v, P) and len(v.t) == 1:
        (m, c), = v.t.items()
        if c == 1 and len(m) == 1 and m[0][1] == 1:
            return m[0][0]
    return None


def _operands(f):
    """tensor operands from the annotations: [(name, kind 'tensor' | 'list', optional?)]"""
    out = []
    a = f.node.args
    dflt = f.defaults()
    for arg in a.posonlyargs + a.args:
        ann = norm(arg.annotation) if arg.annotation is not None else ''
        if 'Tensor' in ann:
            kind = 'list' if ('list' in ann.lower() or 'tuple' in ann.lower()) else 'tensor'
            d = dflt.get(arg.arg)
            out.append((arg.arg, kind, isinstance(d, ast.Constant) and d.value is None))
    return out


def analyse_op(model, f, tensor_init):
    """-> list of per-scenario records, or None when f is not an op wrapper"""
    ops = _operands(f)
    if not ops:
        return None
    ch, ah, sh, dp, cmh = _hooks(model, tensor_init)
    records = []
    # operands that can be children: those in the children tuple when everything is present and flagged (buffers such as running statistics are not)
    probe_args = {name: ([TObj('%s[%d]' % (name, i)) for i in range(2)] if kind == 'list' else TObj(name)) for name, kind, opt in ops}
    allp = {}
    for name, kind, opt in ops:
        for nm in (['%s[%d]' % (name, i) for i in range(2)] if kind == 'list' else [name]):
            allp['%s.requires_grad' % nm] = True
            allp[nm] = True
    try:
        pouts = PE(model, preds=allp, call_hook=ch, attr_hook=ah, sub_hook=sh, default_pred=dp, comp_hook=cmh, atoms_not_none=True, max_depth=3).paths(f, probe_args, max_paths=64)
    except Incomplete:
        pouts = []
    childset = set()
    kernel_uses = {}
    for o in pouts:
        if o.kind != 'return':
            continue
        for t in o.user.get('tensors', []):
            if isinstance(t.children, tuple):
                childset |= {c.name.split('[')[0] for c in t.children if isinstance(c, TObj)}
        for r, conds in o.user.get('kcalls', []):
            kf = model.funcs.get(r.kname)
            if kf is None:
                continue
            bound = dict(zip(kf.pos_params, r.args))
            bound.update(r.kw)
            for prm, v in bound.items():
                at = _atom_text(v)
                if at and at.endswith('.data'):
                    kernel_uses.setdefault(at[:-5], []).append((kf, prm))
    if not childset:
        return None
    buffers = [o for o in ops if o[0] not in childset]
    ops = [o for o in ops if o[0] in childset]
    records = []
    optional = [o for o in ops if o[2]]
    for present in itertools.product((True, False), repeat=len(optional)):
        absent = {o[0] for o, p_ in zip(optional, present) if not p_}
        leaves = []
        args = {b[0]: TObj(b[0]) for b in buffers}
        for name, kind, opt in ops:
            if name in absent:
                args[name] = None
            elif kind == 'list':
                els = [TObj('%s[%d]' % (name, i)) for i in range(2)]
                args[name] = els
                leaves += els
            else:
                t = TObj(name)
                args[name] = t
                leaves.append(t)
        # mode parameters (boolean defaults such as training=...): the flag algebra must hold in every mode
        a_ = f.node.args
        pos_ = a_.posonlyargs + a_.args
        modes = [x.arg for x, d in zip(pos_[len(pos_) - len(a_.defaults):], a_.defaults) if isinstance(d, ast.Constant) and isinstance(d.value, bool)][:2]
        for flags_modes in itertools.product(itertools.product((False, True), repeat=len(leaves)), itertools.product((False, True), repeat=len(modes))):
            flags, mvals = flags_modes
            for mname, mv in zip(modes, mvals):
                args[mname] = mv
            val = {t.name: b for t, b in zip(leaves, flags)}
            preds = {'%s.requires_grad' % k: v for k, v in val.items()}
            preds.update({t.name: True for t in leaves})          # truthiness of a present operand
            preds.update({'%s.requires_grad' % b[0]: False for b in buffers})
            preds.update({b[0]: True for b in buffers})
            KRes.n = 0
            pe = PE(model, preds=preds, call_hook=ch, attr_hook=ah, sub_hook=sh, default_pred=dp, comp_hook=cmh, atoms_not_none=True, max_depth=3)
            try:
                outs = pe.paths(f, args, max_paths=64)
            except Incomplete as u:
                records.append(dict(val=val, absent=sorted(absent), error=str(u)))
                continue
            rets = [o for o in outs if o.kind == 'return']
            for o in rets:
                ts = o.user.get('tensors', [])
                withc = [t for t in ts if t.children]
                rec = dict(val=val, absent=sorted(absent), tensors=withc, per=[], error=None)
                for t in withc:
                    att = [(k, v) for k, v, st in o.stores if (k.endswith('.grad_fn') or k.endswith('._grad_fn')) and k.rsplit('.', 1)[0] == t.loc_text]
                    closures = []
                    if t.flag is True:
                        bfs = [v for k, v in att if isinstance(v, BF)]
                        if len(bfs) == 1 and bfs[0].closure:
                            cf = model.funcs.get('%s.%s' % (f.qualname, bfs[0].closure))
                            if cf is not None:
                                cargs = dict(zip(cf.pos_params, bfs[0].extra))
                                try:
                                    couts = PE(model, preds=preds, call_hook=ch, attr_hook=ah, sub_hook=sh, default_pred=dp, comp_hook=cmh, atoms_not_none=True, max_depth=3).paths(cf, cargs, max_paths=64, outer_env=o.env)
                                except Incomplete as u:
                                    rec['error'] = 'closure: %s' % u
                                    couts = []
                                closures = [co for co in couts if co.kind in ('fall', 'return')]
                    rec['per'].append((t, att, closures))
                other_att = [(k, v) for k, v, st in o.stores if (k.endswith('.grad_fn') or k.endswith('._grad_fn')) and k.rsplit('.', 1)[0] not in {t.loc_text for t in withc}]
                rec['other_attach'] = other_att
                records.append(rec)
            if not rets:
                records.append(dict(val=val, absent=sorted(absent), error='no returning path: %s' % [(o.kind, str(o.value)[:40]) for o in outs][:2]))
    return ops, records, kernel_uses


def check_flags(model, R, P_, modname, rules=('PROP', 'ATTACH', 'COVER'), names=None, declare=True):
    rule_names = names or {}
    """names: optional map rule -> reported rule name (e.g. COVER reported as C03.SUM-OVER-PATHS)"""
    RN = lambda r: rule_names.get(r, P_ + '.' + r)
    tensor_init = model.func(TENSOR + '.__init__')
    funcs = [f for f in model.module_functions(modname) if not f.name.startswith('_')]
    results = {}
    for f in funcs:
        try:
            r = analyse_op(model, f, tensor_init)
        except Incomplete as u:
            R.incomplete_at(RN(rules[0]), f.qualname, str(u))
            continue
        if r is None:
            continue
        ops, recs, kuses = r
        if not any(rec.get('tensors') for rec in recs):
            continue            # builds no result tensor with children: not an op wrapper
        results[f.qualname] = (f, ops, recs, kuses)
    n = len(results)
    texts = {'PROP': 'over every valuation of the operands\' requires_grad flags (and presence of optional operands): result.requires_grad = OR of the children\'s flags, and every operand whose flag is set is a child',
             'ATTACH': 'over every valuation: grad_fn (a BackwardFunction around a closure of the wrapper) is stored on the result iff the result requires grad',
             'COVER': 'over every valuation: the backward closure accumulates (+=) into <operand>._grad exactly once for every operand whose flag is set, never otherwise, and writes no other gradient buffer'}
    if declare:
        for r in rules:
            R.rule(RN(r), texts[r] + ' (partial evaluation of wrapper + closure)', floor=n)
    R.analysed['flag_valuations_evaluated'] = sum(len(x[2]) for x in results.values())
    for q, (f, ops, recs, kuses) in sorted(results.items()):
        bad_prop, bad_att, bad_cov, errs = [], [], {}, []
        for rec in recs:
            if rec.get('error') and not rec.get('tensors'):
                errs.append(rec['error'])
                continue
            val = rec['val']
            tag = ', '.join('%s=%s' % (k, 'T' if v else 'F') for k, v in val.items()) + (' absent: %s' % rec['absent'] if rec['absent'] else '')
            if not rec['tensors']:
                bad_prop.append('%s: no result tensor with children' % tag)
                continue
            if rec.get('error'):
                errs.append(rec['error'])
            if rec.get('other_attach'):
                bad_att.append('%s: grad_fn stored on %s' % (tag, [k for k, v in rec['other_attach']]))
            for t, att, closures in rec['per']:
                names = [c.name for c in t.children if isinstance(c, TObj)] if isinstance(t.children, tuple) else None
                if names is None or len(names) != len(t.children):
                    bad_prop.append('%s: children %r' % (tag, t.children))
                    continue
                want = any(val.get(nm, False) for nm in names)
                missing = [k for k, v in val.items() if v and k not in names]
                if t.flag is not want or missing:
                    bad_prop.append('%s: requires_grad=%s, children=%s%s' % (tag, t.flag, names, ' (flagged operands not children: %s)' % missing if missing else ''))
                ok_att = (len(att) == 1 and isinstance(att[0][1], BF) and bool(att[0][1].closure)) if t.flag else not att
                if not ok_att:
                    bad_att.append('%s: %s requires_grad=%s, grad_fn stores %s' % (tag, t.loc_text, t.flag, [(k, repr(v)) for k, v in att]))
                if t.flag:
                    if not closures:
                        bad_att.append('%s: backward closure of %s not found / not evaluable' % (tag, t.loc_text))
                    for co in closures:
                        counts = {}
                        other = []
                        for key, op, rhs, st, conds in co.augs:
                            if key.endswith('._grad') or key.endswith('.grad'):
                                base = key.rsplit('.', 1)[0]
                                if op == 'Add' and base in val:
                                    counts[base] = counts.get(base, 0) + 1
                                else:
                                    other.append('%s %s=' % (key, op))
                        for key, v, st in co.stores:
                            if (key.endswith('._grad') or key.endswith('.grad')) and not isinstance(st, ast.AugAssign):
                                other.append('%s = ...' % key)
                        for nm, flag in val.items():
                            c = counts.get(nm, 0)
                            if c != (1 if flag else 0):
                                bad_cov.setdefault(nm.split('[')[0], []).append('%s: %d accumulation(s) into %s._grad' % (tag, c, nm))
                        if other:
                            bad_cov.setdefault('<other>', []).append('%s: %s' % (tag, other[:3]))
        if errs and not (bad_prop or bad_att or bad_cov):
            R.incomplete_at(RN(rules[0]), q, 'some valuations could not be evaluated: %s' % sorted(set(errs))[:2])
        nval = len(recs)
        if 'PROP' in rules:
            R.ob(RN('PROP'), q, 'requires_grad = OR(children) over %d valuation(s)' % nval, not bad_prop, 'differs for: %s' % bad_prop[:3], f.loc)
        if 'ATTACH' in rules:
            R.ob(RN('ATTACH'), q, 'grad_fn attached iff the result requires grad over %d valuation(s)' % nval, not bad_att, 'differs for: %s' % bad_att[:3], f.loc)
        if 'COVER' not in rules:
            continue
        operands = sorted({nm.split('[')[0] for rec in recs for nm in rec['val']})
        for opnd in operands:
            if opnd in bad_cov and all(': 0 accumulation(s)' in w for w in bad_cov[opnd]) and kuses.get(opnd):
                # never accumulated: legitimate iff every forward kernel uses it only as an integer index (class labels): such a tensor cannot require grad
                from .rules_template import _index_only
                if all(_index_only(model, kf, prm, set()) for kf, prm in kuses[opnd]):
                    R.ob(RN('COVER'), q, opnd, True, 'index-only operand (integer labels cannot require grad)', f.loc)
                    continue
            R.ob(RN('COVER'), q, opnd, opnd not in bad_cov, 'operand %s is a child but its gradient buffer is not accumulated exactly once when (and only when) it requires grad: %s' % (opnd, bad_cov.get(opnd, [])[:2]), f.loc)
        if '<other>' in bad_cov:
            R.ob(RN('COVER'), q, 'writes to other gradient buffers', False, str(bad_cov['<other>'][:2]), f.loc)
    return results


def check_presence(model, R, P_):
    """optional tensor operands are tested for presence; a bare truthiness test `if bias:` is a presence test only as long as Tensor defines no
    value-dependent __bool__ (with one, a present one-element bias that is exactly 0 is treated as absent: dropped from the graph, no gradient)"""
    R.rule(P_ + '.PRESENCE', 'presence of an optional tensor operand is decided by identity (`is None`), or by truthiness only while Tensor defines no value-dependent __bool__', floor=1)
    tcls = model.cls(TENSOR)
    has_bool = '__bool__' in tcls.methods
    sites = []
    for mod in OP_MODULES:
        for f in model.module_functions(mod):
            ops = {o[0] for o in _operands(f) if o[2]}
            if not ops:
                continue
            for n in ast.walk(f.node):
                tests = []
                if isinstance(n, (ast.If, ast.IfExp, ast.While)):
                    tests.append(n.test)
                if isinstance(n, ast.BoolOp):
                    tests.extend(n.values)
                if isinstance(n, ast.UnaryOp) and isinstance(n.op, ast.Not):
                    tests.append(n.operand)
                for t in tests:
                    if isinstance(t, ast.Name) and t.id in ops:
                        sites.append((f, t))
    if not sites:
        R.ob(P_ + '.PRESENCE', TENSOR, 'no truthiness test on an optional tensor operand', True, '', tcls.loc)
        return
    seen = set()
    for f, t in sites:
        key = (f.qualname, t.id)
        if key in seen:
            continue
        seen.add(key)
        R.ob(P_ + '.PRESENCE', f.qualname, 'truthiness test of optional operand `%s`%s' % (t.id, ' while Tensor defines __bool__' if has_bool else ' (Tensor defines no __bool__)'), not has_bool,
             'Tensor.__bool__ makes `if %s:` depend on the VALUE of the operand: a present %s that is exactly zero (one element) is treated as absent' % (t.id, t.id), '%s:%d' % (f.mod.relpath, t.lineno))
