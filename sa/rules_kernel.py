"""Kernel-level rules shared by C01 / C02 / C16: GLIN (linearity in the upstream gradient), PERM (inverse
permutations), SCATTER (adjoint of a gather accumulates), UNBROADCAST, REDUCE."""
import ast
from .core import norm, dotted, names_in, body_walk
from .report import Incomplete
from .absint import Interp, Tup, Const
from .domains import linear as L
from .rules_template import bind_call, kernel_func
from .cfg import CFG, facts_at


def _loc(f, node):
    return '%s:%d' % (f.mod.relpath, getattr(node, 'lineno', f.node.lineno))


# ------------------------------------------------------------------------------------------------ GLIN
def run_linear(model, kf, call, grad_names, caller_func):
    """abstractly run backward kernel kf as called by `call`: the argument that is <grad>.data is LIN, the rest CONST"""
    binding, star = bind_call(call, kf)
    lin = set()
    for p, arg in binding.items():
        if isinstance(arg, ast.Attribute) and arg.attr == 'data' and isinstance(arg.value, ast.Name) and arg.value.id in grad_names:
            lin.add(p)
    if not lin:
        raise Incomplete('no argument of %s is the upstream gradient' % norm(call))
    dom = L.Linear(lin)
    I = Interp(model, kf, dom)
    env = {}
    for p in kf.pos_params:
        if p in binding or (star and p in star[1]):
            env[p] = L.LIN if p in lin else L.CONST
    for p, dnode in kf.defaults().items():
        if p not in env:
            env[p] = I.expr(dnode, {})
    ret = I.run(env)
    return ret, I, lin


def check_glin(model, R, ops, P):
    R.rule(P + '.GLIN', 'every value returned by a backward kernel is linear in the upstream gradient (abstract interpretation over '
                        '{ZERO, CONST, LIN, NONE, NONLIN}); a VJP that drops g, adds a g-independent term, squares or tests g is wrong for some g',
           floor=len(ops))
    stores = []
    for op in ops:
        grad_names = {g for _, g, _ in op.grad_reads}
        for d, call, cl in op.bwd_calls:
            kf = kernel_func(model, d)
            try:
                ret, I, lin = run_linear(model, kf, call, grad_names, cl)
            except Incomplete as e:
                R.incomplete_at(P + '.GLIN', kf.qualname, str(e))
                continue
            slots = ret.items if isinstance(ret, Tup) else [ret]
            nonlin = [e for e in I.events if e['kind'] == 'nonlin']
            for k, s in enumerate(slots):
                c = I.domain.c(s)
                why = ''
                if c != L.LIN:
                    why = 'returned slot %d is %s, not linear in the gradient parameter %s' % (k, c, sorted(lin))
                    if nonlin:
                        why += '; first non-linear construct: %s at %s (%s)' % (norm(nonlin[0]['node'])[:80], nonlin[0]['loc'], nonlin[0]['why'])
                R.ob(P + '.GLIN', kf.qualname, 'slot %d of %s as called by %s' % (k, kf.name, op.name), c == L.LIN, why, kf.loc)
            stores.append((op, kf, I))
    return stores


# ------------------------------------------------------------------------------------------------ HOMOG (bilinear kernels)
# forward kernels that are linear in each of two operands (u, v): the gradient handed to u is linear in v and does not depend on u (and vice versa).
# (backward kernel, {slot: (parameter the slot must be LINEAR in, parameters it must be CONSTANT in)}, parameters present, parameters absent)
BILINEAR = [
    ('mul_backward', {0: ('b', ()), 1: ('a', ())}, (), ()),
    ('matmul_backward', {0: ('b', ()), 1: ('a', ())}, (), ()),
    ('addmm_backward', {1: ('c', ()), 2: ('b', ())}, (), ()),
    ('conv1d_backward', {0: ('weight', ()), 1: ('windows', ())}, ('bias',), ()),
    ('conv2d_backward', {0: ('weight', ()), 1: ('windows', ())}, ('bias',), ()),
    ('batch_norm_backward', {0: ('gamma', ())}, ('gamma', 'beta'), ()),
]


def check_homog(model, R, P, names=None):
    """degree-one homogeneity: with the upstream gradient held constant, the slot of operand u is LINEAR in the partner operand v
    (abstract interpretation over {ZERO, CONST, LIN, NONLIN}: a term of the formula that lost the factor v - or gained a second one - is CONST / NONLIN)"""
    R.rule(P + '.HOMOG', 'for kernels linear in each of two operands (products, matmul, convolution with its weight, the affine scale of batch norm) the gradient of one operand is '
                         'homogeneous of degree one in the partner operand: every additive term of the formula carries that factor exactly once', floor=1)
    for kname, slots, present, absent in BILINEAR:
        if names is not None and kname not in names:
            continue
        kf = model.funcs.get('synapgrad.cpu_ops.' + kname)
        if kf is None:
            R.incomplete_at(P + '.HOMOG', 'synapgrad.cpu_ops.' + kname, 'kernel not found')
            continue
        for k, (lin_in, _) in sorted(slots.items()):
            if lin_in not in kf.pos_params or any(p not in kf.pos_params for p in present):
                R.incomplete_at(P + '.HOMOG', kf.qualname, 'the table names parameter(s) %s of %s that no longer exist' % (sorted({lin_in} | set(present)), kname))
                continue
            try:
                dom = L.Linear({lin_in})
                dom.present, dom.absent = set(present) | {lin_in}, set(absent)
                I = Interp(model, kf, dom)
                env = {p: (L.LIN if p == lin_in else L.CONST) for p in kf.pos_params}
                for p, dnode in kf.defaults().items():
                    if p not in env:
                        env[p] = I.expr(dnode, {})
                ret = I.run(env)
            except Incomplete as e:
                R.incomplete_at(P + '.HOMOG', kf.qualname, str(e))
                continue
            items = ret.items if isinstance(ret, Tup) else [ret]
            c = I.domain.c(items[k]) if k < len(items) else None
            nonlin = [e for e in I.events if e['kind'] == 'nonlin']
            why = 'slot %d of %s is %s in `%s` (the upstream gradient and the other operands held constant): a term without the factor %s is CONST, a squared / tested one NONLIN' \
                % (k, kname, c, lin_in, lin_in)
            if nonlin and c != L.LIN:
                why += '; first offending construct: %s at %s' % (norm(nonlin[0]['node'])[:80], nonlin[0]['loc'])
            R.ob(P + '.HOMOG', kf.qualname, 'slot %d is linear in %s' % (k, lin_in), c == L.LIN, why, kf.loc)


# ------------------------------------------------------------------------------------------------ NumPy contracts the kernels rely on
def check_numpy_contracts(model, R, P):
    """expected-count-zero rules over every NumPy call of the kernel / wrapper modules"""
    R.rule(P + '.LAYOUT', 'no NumPy call of the kernels asks for a memory order other than C (order=\'A\' / \'F\' / \'K\' make reshape / ravel / flatten / copy read the operand in '
                         'its physical order: the result then depends on how the operand was produced, e.g. a transposed view)', floor=1)
    R.rule(P + '.DOT', 'np.dot / ndarray.dot / np.inner are used only on operands known to have at most 2 dims (for an N-D right operand np.dot contracts with its second-to-last axis '
                       'and orders the result axes differently from the batched matrix product @)', floor=1)
    n_calls = n_order = n_dot = 0
    for modname in ('synapgrad.cpu_ops', 'synapgrad.conv_tools', 'synapgrad.functional', 'synapgrad.nn.functional'):
        for f in model.live_funcs():
            if f.mod.modname != modname:
                continue
            cfg = None
            for c in body_walk(f.node):
                if not isinstance(c, ast.Call):
                    continue
                n_calls += 1
                for k in c.keywords:
                    if k.arg == 'order':
                        n_order += 1
                        ok = isinstance(k.value, ast.Constant) and k.value.value == 'C'
                        R.ob(P + '.LAYOUT', f.qualname, norm(c)[:90], ok, 'order=%s: the elements are taken in the physical order of the operand\'s buffer, so a Fortran-ordered / transposed operand '
                             'gives a different result than the same values in C order' % norm(k.value), '%s:%d' % (f.mod.relpath, c.lineno))
                d = model.resolve(f.mod, c.func) or ''
                is_dot = d in ('numpy.dot', 'numpy.inner', 'numpy.vdot') or (isinstance(c.func, ast.Attribute) and c.func.attr == 'dot' and not d.startswith('numpy.'))
                if is_dot:
                    n_dot += 1
                    if cfg is None:
                        cfg = CFG(f.node)
                    ops = list(c.args[:2]) if d.startswith('numpy.') else [c.func.value] + list(c.args[:1])
                    from .rules_engine import _stmt_in
                    try:
                        st = _stmt_in(f.node, c)
                        facts = {(t, p) for t, p, _ in facts_at(cfg, st)}
                    except Exception:
                        facts = set()

                    def small(e):
                        t = norm(e)
                        pos = [('%s.ndim == 2' % t, True), ('%s.ndim <= 2' % t, True), ('%s.ndim == 1' % t, True), ('%s.ndim < 3' % t, True), ('len(%s.shape) == 2' % t, True),
                               ('len(%s.shape) <= 2' % t, True), ('%s.ndim > 2' % t, False), ('%s.ndim >= 3' % t, False)]
                        return any(x in facts for x in pos)
                    ok = len(ops) == 2 and all(small(o) for o in ops)
                    R.ob(P + '.DOT', f.qualname, norm(c)[:90], ok, 'np.dot on an operand that may have more than 2 dims is not the (batched) matrix product: use @ / np.matmul, or guard both '
                         'operands with ndim <= 2', '%s:%d' % (f.mod.relpath, c.lineno))
    R.ob(P + '.LAYOUT', 'synapgrad', 'order= keywords in %d NumPy / helper calls scanned: %d' % (n_calls, n_order), n_calls > 200, 'scan did not see the kernel modules', '')
    R.ob(P + '.DOT', 'synapgrad', 'np.dot-family calls in %d calls scanned: %d' % (n_calls, n_dot), n_calls > 200, 'scan did not see the kernel modules', '')


def check_index_width(model, R, P, modname='synapgrad.conv_tools'):
    """index arrays keep the platform integer width: no cast of an integer array to a narrower / data-dependent integer type in the window-index code"""
    R.rule(P + '.INDEX-WIDTH', 'index arithmetic of the window helpers is done in the default integer type: no .astype / dtype= to a narrower or computed integer type '
                               '(an index that wraps around addresses the wrong pixel without any error)', floor=1)
    WIDE = {'int', 'np.int64', 'numpy.int64', 'np.intp', 'numpy.intp', "'int64'", "'intp'", 'np.int_', 'numpy.int_'}
    FLOATY = ('float', 'a.dtype', 'windows.dtype', 'dtype')      # array payload types are not index types
    n = 0
    for f in model.live_funcs():
        if f.mod.modname != modname:
            continue
        indexy = 'indices' in f.name or any(isinstance(c, ast.Call) and (model.resolve(f.mod, c.func) or '') in ('numpy.repeat', 'numpy.tile', 'numpy.arange', 'numpy.add.at')
                                            for c in body_walk(f.node))
        if not indexy:
            continue
        for c in body_walk(f.node):
            if not isinstance(c, ast.Call):
                continue
            dt = None
            if isinstance(c.func, ast.Attribute) and c.func.attr == 'astype' and (c.args or c.keywords):
                dt = c.args[0] if c.args else next((k.value for k in c.keywords if k.arg == 'dtype'), None)
            elif (model.resolve(f.mod, c.func) or '') in ('numpy.arange', 'numpy.repeat', 'numpy.tile', 'numpy.array', 'numpy.asarray', 'numpy.indices', 'numpy.full'):
                dt = next((k.value for k in c.keywords if k.arg == 'dtype'), None)
            if dt is None:
                continue
            from .core import inline_expr
            t = norm(inline_expr(f.node, dt))
            if (t.endswith('.dtype') or 'float' in t) and 'int' not in t and 'scalar_type' not in t:
                continue        # the payload type of an array (a.dtype, np.float32): not an index type
            n += 1
            R.ob(P + '.INDEX-WIDTH', f.qualname, norm(c)[:90], t in WIDE, 'integer (index) data cast to %s: a narrower or value-dependent integer type wraps around for large images / paddings' % t,
                 '%s:%d' % (f.mod.relpath, c.lineno))
    R.ob(P + '.INDEX-WIDTH', modname, 'integer casts in the index code: %d' % n, True, '', '')


def check_layer_stateless(model, R, P):
    """forward() of a layer / activation / loss reads its hyper-parameters and never re-binds them: the only attribute a forward pass may write is the documented
    training state of batch normalisation"""
    R.rule(P + '.LAYER-STATE', 'forward() of every nn layer assigns no attribute of self (hyper-parameters such as dim / kernel_size / p are fixed by the constructor); the only exception is '
                               'BatchNorm\'s num_batches_tracked (running statistics are updated through .data by nn.functional.batch_norm)', floor=10)
    allowed = {('synapgrad.nn.layers.BatchNorm.forward', 'self.num_batches_tracked')}
    for f in model.live_funcs():
        if f.cls is None or f.name not in ('forward', '__call__') or not f.mod.modname.startswith('synapgrad.nn') or f.mod.modname.startswith('synapgrad.nn.utils'):
            continue
        selfn = f.pos_params[0] if f.pos_params else 'self'
        writes = []
        for n in ast.walk(f.node):
            tg = n.targets if isinstance(n, ast.Assign) else ([n.target] if isinstance(n, (ast.AugAssign, ast.AnnAssign)) else (n.targets if isinstance(n, ast.Delete) else []))
            for t in tg:
                for x in ([t] if not isinstance(t, (ast.Tuple, ast.List)) else t.elts):
                    b = x
                    while isinstance(b, (ast.Attribute, ast.Subscript)):
                        b = b.value
                    if isinstance(b, ast.Name) and b.id == selfn and not isinstance(x, ast.Name):
                        root = x
                        while isinstance(root, ast.Subscript):
                            root = root.value
                        if (f.qualname, norm(root)) not in allowed:
                            writes.append(norm(n)[:70])
            if isinstance(n, ast.Call) and norm(n.func) in ('setattr', 'object.__setattr__') and n.args and norm(n.args[0]) == selfn:
                writes.append(norm(n)[:70])
        R.ob(P + '.LAYER-STATE', f.qualname, 'attribute writes in the forward pass: %s' % (writes or 'none'), not writes,
             'a forward pass that re-binds a hyper-parameter makes the layer depend on the inputs it has seen (e.g. a negative dim resolved against the rank of the first input)', f.loc)


# ------------------------------------------------------------------------------------------------ PERM
PERM_FUNCS = {'numpy.moveaxis': ('moveaxis', 3), 'numpy.swapaxes': ('swapaxes', 3)}


def _perm_call(model, f, expr):
    """expr is np.moveaxis(x, s, d) / np.swapaxes(x, i, j) -> (kind, [arg exprs]) else None"""
    if isinstance(expr, ast.Call):
        d = model.resolve(f.mod, expr.func)
        if d in PERM_FUNCS:
            kind, n = PERM_FUNCS[d]
            sig = ('a', 'source', 'destination') if kind == 'moveaxis' else ('a', 'axis1', 'axis2')
            b = {}
            for i, a in enumerate(expr.args):
                b[sig[i]] = a
            for k in expr.keywords:
                b[k.arg] = k.value
            if set(b) == set(sig):
                return kind, [b[s] for s in sig]
        if isinstance(expr.func, ast.Attribute) and expr.func.attr == 'swapaxes' and len(expr.args) == 2:
            return 'swapaxes', [expr.func.value] + list(expr.args)
    return None


def _single_return(f):
    rets = [n for n in body_walk(f.node) if isinstance(n, ast.Return)]
    if len(rets) == 1:
        return rets[0].value
    return None


def check_perm(model, R, ops, P):
    """forward kernels that are pure axis permutations: the backward kernel applies the inverse permutation"""
    R.rule(P + '.PERM', 'the backward of a pure axis permutation applies the inverse permutation (moveaxis(g, destination, source); swapaxes(g, i, j))', floor=2 if P == 'C01' else 0)
    for op in ops:
        for (fd, fcall) in op.fwd_calls:
            fkf = kernel_func(model, fd)
            fret = _single_return(fkf)
            fp = _perm_call(model, fkf, fret) if fret is not None else None
            if fp is None:
                continue
            for (bd, bcall, cl) in op.bwd_calls:
                bkf = kernel_func(model, bd)
                bret = _single_return(bkf)
                bp = _perm_call(model, bkf, bret) if bret is not None else None
                if bp is None:
                    R.incomplete_at(P + '.PERM', bkf.qualname, 'forward is %s but the backward is not a single permutation call' % norm(fret))
                    continue
                # translate kernel-level argument names to wrapper-level bindings on both sides
                fb, _ = bind_call(fcall, fkf)
                bb, _ = bind_call(bcall, bkf)

                def wl(binding, e):
                    return norm(binding[e.id]) if isinstance(e, ast.Name) and e.id in binding else 'lit:' + norm(e)
                fa = [wl(fb, e) for e in fp[1][1:]]
                ba = [wl(bb, e) for e in bp[1][1:]]
                if fp[0] == 'moveaxis':
                    ok = bp[0] == 'moveaxis' and ba == fa[::-1]
                    why = 'forward moves %s -> %s, backward must move %s -> %s (got %s -> %s)' % (fa[0], fa[1], fa[1], fa[0], ba[0], ba[1])
                else:
                    ok = bp[0] == 'swapaxes' and sorted(ba) == sorted(fa)
                    why = 'swapaxes is its own inverse only on the same pair of axes (forward %s, backward %s)' % (fa, ba)
                # and the permuted array must be the gradient parameter
                g0 = bp[1][0]
                ok = ok and isinstance(g0, ast.Name) and g0.id == bkf.pos_params[0]
                R.ob(P + '.PERM', bkf.qualname, '%s inverse of %s' % (norm(bret), norm(fret)), ok, why, bkf.loc)


def check_literal_perm_pairs(model, R, P, pairs):
    """pool kernels: forward ends with .transpose(p) of the reduced windows, backward starts with grad.transpose(q): q = p^-1"""
    R.rule(P + '.POOLPERM', 'the literal transpose applied to the pooled output is undone by its inverse permutation on the incoming gradient', floor=len(pairs))
    for fq, bq in pairs:
        fk, bk = model.func(fq), model.func(bq)
        fperm = _literal_transposes(fk, model)
        bperm = _literal_transposes(bk, model)
        if len(fperm) != 1 or len(bperm) != 1:
            R.incomplete_at(P + '.POOLPERM', bk.qualname, 'expected one literal transpose on each side, got %d / %d' % (len(fperm), len(bperm)))
            continue
        p, q = fperm[0][0], bperm[0][0]
        inv = tuple(sorted(range(len(p)), key=lambda i: p[i]))
        ok = len(p) == len(q) and tuple(q) == inv
        # the backward transpose must act on the gradient parameter
        recv = bperm[0][1]
        ok = ok and isinstance(recv, ast.Name) and recv.id == bk.pos_params[0]
        R.ob(P + '.POOLPERM', bk.qualname, 'transpose%s vs forward transpose%s' % (tuple(q), tuple(p)), ok,
             'backward must apply the inverse permutation %s to the gradient' % (inv,), bk.loc)


def _literal_transposes(f, model=None):
    from .npcanon import literal_perm
    out = []
    for n in body_walk(f.node):
        if isinstance(n, ast.Call):
            lp = literal_perm(model, f, n) if model is not None else None
            if lp is not None:
                out.append(lp)
            elif isinstance(n.func, ast.Attribute) and n.func.attr == 'transpose' and n.args and dotted(n.func.value) not in ('np', 'numpy') \
                    and all(isinstance(a, ast.Constant) and isinstance(a.value, int) for a in n.args):
                out.append((tuple(a.value for a in n.args), n.func.value))
    return out


# ------------------------------------------------------------------------------------------------ SCATTER
def _index_kind(f, expr, seen=None, depth=0):
    """'static' if the index is built inside the function from slices / ints / loop counters / int-annotated parameters only,
    else 'external' (a caller-supplied key that may contain repeated integer arrays)"""
    seen = seen or set()
    if depth > 12:
        return 'external'
    ann = {a.arg: (norm(a.annotation) if a.annotation is not None else None) for a in f.node.args.args}

    def k(e):
        if isinstance(e, ast.Constant):
            return 'static'
        if isinstance(e, (ast.Tuple, ast.List)):
            return 'static' if all(k(x) == 'static' for x in e.elts) else 'external'
        if isinstance(e, ast.Starred):
            return k(e.value)
        if isinstance(e, ast.Slice):
            return 'static'         # a slice never addresses an element twice, whatever its bounds
        if isinstance(e, ast.BinOp):
            return 'static' if k(e.left) == 'static' and k(e.right) == 'static' else 'external'
        if isinstance(e, ast.UnaryOp):
            return k(e.operand)
        if isinstance(e, ast.IfExp):
            return 'static' if k(e.body) == 'static' and k(e.orelse) == 'static' else 'external'
        if isinstance(e, ast.Call):
            d = dotted(e.func)
            if d == 'slice':
                return 'static'         # a slice object never addresses an element twice, whatever its bounds
            if d in ('range', 'len', 'int', 'tuple', 'list'):
                return 'static' if all(k(a) == 'static' for a in e.args) else 'external'
            return 'external'
        if isinstance(e, (ast.ListComp, ast.GeneratorExp)):
            return k(e.elt)
        if isinstance(e, ast.Attribute):
            return 'static' if e.attr in ('shape', 'ndim') else 'external'
        if isinstance(e, ast.Subscript):
            return 'static' if k(e.value) == 'static' else 'external'
        if isinstance(e, ast.Name):
            if e.id in seen:
                return 'static'
            seen.add(e.id)
            if e.id in ann:
                a = ann[e.id]
                return 'static' if a in ('int', 'bool') or e.id.endswith('_shape') or e.id == 'shape' else 'external'
            # local: every binding must be static
            binds = []
            for n in body_walk(f.node):
                if isinstance(n, ast.Assign):
                    for t in n.targets:
                        if isinstance(t, ast.Name) and t.id == e.id:
                            binds.append(n.value)
                        elif isinstance(t, ast.Subscript) and isinstance(t.value, ast.Name) and t.value.id == e.id:
                            binds.append(n.value)
                        elif isinstance(t, (ast.Tuple, ast.List)) and any(isinstance(x, ast.Name) and x.id == e.id for x in t.elts):
                            binds.append(n.value)
                elif isinstance(n, ast.AugAssign) and isinstance(n.target, ast.Name) and n.target.id == e.id:
                    binds.append(n.value)
                elif isinstance(n, ast.For) and any(isinstance(x, ast.Name) and x.id == e.id for x in ast.walk(n.target)):
                    it = n.iter
                    d = dotted(it.func) if isinstance(it, ast.Call) else None
                    if d in ('range', 'enumerate', 'zip', 'numpy.ndindex', 'np.ndindex'):
                        continue
                    binds.append(it)
                elif isinstance(n, (ast.ListComp, ast.GeneratorExp)):
                    for g in n.generators:
                        if any(isinstance(x, ast.Name) and x.id == e.id for x in ast.walk(g.target)):
                            d = dotted(g.iter.func) if isinstance(g.iter, ast.Call) else None
                            if d not in ('range', 'enumerate', 'zip'):
                                binds.append(g.iter)
            if not binds:
                # comprehension / loop counter over range, or unknown free name
                return 'static' if _is_counter(f, e.id) else 'external'
            return 'static' if all(k(b) == 'static' for b in binds) else 'external'
        return 'external'
    return k(expr)


def _is_counter(f, name):
    for n in ast.walk(f.node):
        if isinstance(n, (ast.For, ast.comprehension)):
            if any(isinstance(x, ast.Name) and x.id == name for x in ast.walk(n.target)):
                return True
    return False


VIEW_CALLS = {'numpy.moveaxis', 'numpy.swapaxes', 'numpy.transpose', 'numpy.expand_dims', 'numpy.squeeze', 'numpy.rollaxis', 'numpy.broadcast_to', 'numpy.atleast_1d', 'numpy.atleast_2d',
              'numpy.lib.stride_tricks.as_strided', 'numpy.lib.stride_tricks.sliding_window_view'}


def check_viewstore(model, R, funcs, P):
    """a store through a temporary only reaches the array if the temporary is a guaranteed VIEW: ravel() / reshape() / flatten() / astype() / ascontiguousarray()
    may (or always) return a copy, and `tmp(...)[i] = v` then updates nothing (e.g. for a non-contiguous operand)"""
    R.rule(P + '.VIEWSTORE', 'an element store whose base is a call result goes through a guaranteed view (transpose / moveaxis / swapaxes / expand_dims / .T / basic slicing), never through '
                             'ravel / reshape / flatten / astype / ascontiguousarray, which may return a copy (the update would be lost for non-contiguous operands)', floor=0)
    n = 0
    for f in funcs:
        for st in body_walk(f.node):
            tgts = []
            if isinstance(st, ast.Assign):
                tgts = st.targets
            elif isinstance(st, ast.AugAssign):
                tgts = [st.target]
            for t in tgts:
                if not isinstance(t, ast.Subscript):
                    continue
                base = t.value
                while isinstance(base, ast.Subscript) or (isinstance(base, ast.Attribute) and base.attr == 'T'):
                    base = base.value
                if isinstance(base, ast.Call):
                    d = model.resolve(f.mod, base.func) or ''
                    ok = d in VIEW_CALLS
                    n += 1
                    R.ob(P + '.VIEWSTORE', f.qualname, norm(st)[:100], ok,
                         'the store goes through %s, which may return a copy: the written array is a temporary and the update is lost' % (d or norm(base.func)), _loc(f, st))
    if n == 0:
        R.ob(P + '.VIEWSTORE', 'kernels', 'no element store through a call result in %d kernels' % len(funcs), True, '', '')


def check_scatter(model, R, funcs, P, grad_param_of=None, floor=1):
    """funcs: kernel Funcs whose first parameter is the gradient (or col2im-side routines: first param = columns)"""
    R.rule(P + '.SCATTER', 'writing gradient values into a zero buffer must accumulate wherever positions can coincide: '
                           'np.add.at for caller-supplied index expressions; += / read-add-store for window loops', floor=floor)
    for f in funcs:
        dom = L.Linear({f.pos_params[0]})
        I = Interp(model, f, dom)
        # record stores: wrap store_subscript
        recs = []
        orig = dom.store_subscript

        def rec(I_, base, index, val, node, aug=None, _orig=orig, _f=f):
            if I_.func is _f:       # stores of callees are judged when the callee itself is analysed
                recs.append((dom.c(base), dom.c(index), dom.c(val), node, aug))
            return _orig(I_, base, index, val, node, aug)
        dom.store_subscript = rec
        orig_np = dom._numpy
        atcalls = []

        def recnp(I_, name, args, cargs, kwargs, ckw, node, _o=orig_np, _f=f):
            if name.endswith('.at') and I_.func is _f:
                atcalls.append((name, cargs, node))
            return _o(I_, name, args, cargs, kwargs, ckw, node)
        dom._numpy = recnp
        try:
            I.run()
        except Incomplete as e:
            R.incomplete_at(P + '.SCATTER', f.qualname, str(e))
            continue
        cfg = CFG(f.node)
        seen_nodes = set()
        for b, i, v, node, aug in recs:
            if id(node) in seen_nodes or v not in (L.LIN,) or b not in (L.ZERO, L.LIN):
                continue
            seen_nodes.add(id(node))
            tgt = node.target if isinstance(node, ast.AugAssign) else node.targets[0]
            kind = _index_kind(f, tgt.slice)
            in_loop = bool(cfg.in_loop(node))
            accumulating = aug is not None and isinstance(aug, ast.Add)
            if not accumulating and isinstance(node, ast.Assign):
                accumulating = _read_add_store(f, node, tgt)
            if kind == 'external':
                ok = False
                why = 'the index %s is supplied by the caller and may address one element several times (repeated integer indices): ' \
                      'a subscript store (even +=) keeps one contribution; use np.add.at' % norm(tgt.slice)
            elif in_loop:
                ok = accumulating
                why = 'windows written in a loop may overlap: the store must accumulate (+= or read-add-store)'
            else:
                ok = True
                why = 'single store through an index built from slices/ints (duplicate free)'
            R.ob(P + '.SCATTER', f.qualname, norm(node), ok, why, _loc(f, node))
        for name, cargs, node in atcalls:
            if id(node) in seen_nodes:
                continue
            seen_nodes.add(id(node))
            R.ob(P + '.SCATTER', f.qualname, norm(node), name == 'add.at' and cargs[0] in (L.ZERO, L.LIN),
                 'scatter-add into the zero buffer', _loc(f, node))


def _read_add_store(f, node, tgt):
    """B[idx] = <expr containing B[idx]> + ...   (directly or through a local bound to B[idx] just before)"""
    want = norm(tgt)
    v = node.value
    if not (isinstance(v, ast.BinOp) and isinstance(v.op, ast.Add)):
        return False
    for side in (v.left, v.right):
        if norm(side) == want:
            return True
        if isinstance(side, ast.Name):
            for n in body_walk(f.node):
                if isinstance(n, ast.Assign) and len(n.targets) == 1 and isinstance(n.targets[0], ast.Name) and n.targets[0].id == side.id \
                        and norm(n.value) == want and n.lineno < node.lineno:
                    return True
    return False


# ------------------------------------------------------------------------------------------------ UNBROADCAST
def _slot_target(model, kf, k, depth=0):
    """which operand's shape slot k of backward kernel kf is un-broadcast to: ('shape-of', param) | ('shape-param', param) | None"""
    if depth > 4:
        return None
    rets = [n for n in body_walk(kf.node) if isinstance(n, ast.Return)]
    if len(rets) != 1:
        return None
    rv = rets[0].value
    slots = rv.elts if isinstance(rv, ast.Tuple) else [rv]
    if k >= len(slots):
        return None
    e = slots[k]
    return _expr_target(model, kf, e, depth)


def _expr_target(model, kf, e, depth):
    if isinstance(e, ast.Call):
        d = model.resolve(kf.mod, e.func)
        if d == 'synapgrad.cpu_ops.unbroadcast' and len(e.args) == 2:
            s = e.args[1]
            if isinstance(s, ast.Attribute) and s.attr == 'shape' and isinstance(s.value, ast.Name):
                return ('shape-of', s.value.id)
            if isinstance(s, ast.Name):
                return ('shape-param', s.id)
            return ('expr', norm(s))
        return None
    if isinstance(e, ast.Name):
        # bound by (destructuring of) a call to another backward kernel, or by a single assignment
        for n in body_walk(kf.node):
            if isinstance(n, ast.Assign) and len(n.targets) == 1:
                t = n.targets[0]
                if isinstance(t, ast.Name) and t.id == e.id:
                    return _expr_target(model, kf, n.value, depth)
                if isinstance(t, ast.Tuple) and isinstance(n.value, ast.Call):
                    names = [x.id if isinstance(x, ast.Name) else None for x in t.elts]
                    if e.id in names:
                        j = names.index(e.id)
                        d = model.resolve(kf.mod, n.value.func)
                        callee = model.funcs.get(d) if d else None
                        if callee is None:
                            return None
                        tt = _slot_target(model, callee, j, depth + 1)
                        if tt is None:
                            return None
                        b, _ = bind_call(n.value, callee)
                        arg = b.get(tt[1])
                        if arg is None:
                            return None
                        if tt[0] == 'shape-param':
                            if isinstance(arg, ast.Attribute) and arg.attr == 'shape' and isinstance(arg.value, ast.Name):
                                return ('shape-of', arg.value.id)
                            if isinstance(arg, ast.Name):
                                return ('shape-param', arg.id)
                            return ('expr', norm(arg))
                        if tt[0] == 'shape-of':
                            if isinstance(arg, ast.Name):
                                return ('shape-of', arg.id)
                            return ('expr', norm(arg))
                        return tt
    return None


def broadcasting_forward(kf):
    """forward kernel combines >= 2 array parameters with a broadcasting binary operator"""
    arr = [a.arg for a in kf.node.args.args if a.annotation is not None and 'ndarray' in norm(a.annotation)]
    if len(arr) < 2:
        return None
    for n in ast.walk(kf.node):
        if isinstance(n, ast.BinOp) and isinstance(n.op, (ast.Add, ast.Sub, ast.Mult, ast.Div, ast.MatMult)):
            ns = names_in(n)
            if len([a for a in arr if a in ns]) >= 2:
                return arr
    return None


def check_unbroadcast(model, R, ops, P):
    R.rule(P + '.UNBROADCAST', 'every result slot of the backward kernel of a broadcasting op is reduced with unbroadcast(.., shape of THAT operand)', floor=4 if P == 'C01' else 0)
    for op in ops:
        for (fd, fcall) in op.fwd_calls:
            fkf = kernel_func(model, fd)
            arr = broadcasting_forward(fkf)
            if not arr:
                continue
            bname = fd.replace('_forward', '_backward')
            bkf = model.funcs.get(bname)
            if bkf is None:
                continue
            for k, p in enumerate(arr):
                t = _slot_target(model, bkf, k)
                ok = t in (('shape-of', p), ('shape-param', p + '_shape'))
                R.ob(P + '.UNBROADCAST', bkf.qualname, 'slot %d -> %s' % (k, t), ok,
                     'slot %d is the gradient of operand %s and must be un-broadcast to %s.shape (got %s)' % (k, p, p, t), bkf.loc)
    # the helper itself
    ub = model.func('synapgrad.cpu_ops.unbroadcast')
    cfg = CFG(ub.node)
    sums = [n for n in body_walk(ub.node) if isinstance(n, ast.Call) and isinstance(n.func, ast.Attribute) and n.func.attr == 'sum']
    lead = [n for n in sums if any(k.arg == 'axis' and isinstance(k.value, ast.Constant) and k.value.value == 0 for k in n.keywords)
            and any(isinstance(l, ast.While) for l in cfg.in_loop(_stmt(ub, n)))]
    R.ob(P + '.UNBROADCAST', ub.qualname, 'leading-dims reduction', len(lead) >= 1,
         'extra leading dimensions must be summed away in a loop (sum(axis=0) while rank exceeds the target rank)', ub.loc)
    inner = [n for n in sums if n not in lead]
    ok_inner = bool(inner)
    for n in inner:
        kd = [k for k in n.keywords if k.arg == 'keepdims']
        ax = [k for k in n.keywords if k.arg == 'axis']
        if not kd or not (isinstance(kd[0].value, ast.Constant) and kd[0].value.value is True):
            ok_inner = False
        # guarded by an extent comparison of the same axis
        fs = [t for t, p, _ in facts_at(cfg, _stmt(ub, n))]
        if not any('shape[' in t and '!=' in t for t in fs):
            ok_inner = False
    R.ob(P + '.UNBROADCAST', ub.qualname, 'size-1 dims reduction', ok_inner,
         'broadcast size-1 dimensions must be summed with keepdims=True under an extent comparison (otherwise later axes shift / equal axes are summed)', ub.loc)


def _stmt(f, node):
    for s in body_walk(f.node):
        if isinstance(s, ast.stmt) and not isinstance(s, (ast.If, ast.For, ast.While, ast.With, ast.Try, ast.FunctionDef)):
            if any(n is node for n in ast.walk(s)):
                return s
    return f.node.body[0]


# ------------------------------------------------------------------------------------------------ REDUCE
def _reduce_eval(model, f, a_shape, axis, keepdims):
    """evaluate a reduction backward kernel on a concrete operand shape / axis / keepdims with a symbolic gradient G:
    -> (outcomes, did the gradient pass through an axis re-insertion, with which axis)"""
    from .peval import PE, Opaque
    from .poly import P as Pol
    G = Pol.atom('G')
    rec = []

    def hook(pe, name, e, args, kw, env, func, depth):
        n = name or ''
        if n in ('numpy.expand_dims', 'synapgrad.cpu_ops.unsqueeze_forward') and len(args) >= 2:
            rec.append((args[0], args[1]))
            return Pol.atom('unsq(%s)' % (args[0].canon() if isinstance(args[0], Pol) else args[0]))
        if n == 'numpy.zeros':
            return Pol.const(0)
        if n == 'numpy.zeros_like':
            return Pol.atom('mask')          # a buffer that is filled in place afterwards (arg-max mask)
        if n in ('numpy.ones', 'numpy.ones_like'):
            return Pol.const(1)
        if n in ('numpy.argmax', 'numpy.argmin', 'numpy.unravel_index'):
            return Opaque(n)
        if n == 'numpy.put_along_axis':
            return None
        return NotImplemented
    atoms = {'a.shape': tuple(a_shape), 'len(a.shape)': len(a_shape), 'a.ndim': len(a_shape)}
    args = {}
    for p_ in f.pos_params:
        if p_ == 'a_shape':
            args[p_] = tuple(a_shape)
        elif p_ == 'axis':
            args[p_] = axis
        elif p_ == 'keepdims':
            args[p_] = keepdims
        elif p_ == f.pos_params[0]:
            args[p_] = G
        elif p_ == 'a':
            args[p_] = Pol.atom('a')
    outs = PE(model, atoms=atoms, call_hook=hook, atoms_not_none=True).paths(f, args)
    return outs, rec


def check_reduce(model, R, P, kernels):
    """reduction backward kernels re-insert the reduced axes iff `not keepdims and axis is not None`: evaluated on concrete (shape, axis, keepdims) cases"""
    from .poly import P as Pol
    R.rule(P + '.REDUCE', 'reduction backward kernels re-insert the reduced axes (unsqueeze of the upstream gradient along `axis`) exactly when `not keepdims and axis is not None`; '
                          'mean additionally divides by the number of averaged elements  [kernels evaluated on concrete shape / axis / keepdims cases]', floor=len(kernels))
    cases = [((2, 3, 4), ax, kd) for ax in (None, 0, -1, 1) for kd in (False, True)]
    for q in kernels:
        f = model.func(q)
        tuple_ok = 'tuple' in norm(f.node.args.args[[a_.arg for a_ in f.node.args.args].index('axis')].annotation or ast.Constant(value='')) if 'axis' in [a_.arg for a_ in f.node.args.args] else False
        cs = list(cases) + ([((2, 3, 4), (0, 2), False), ((2, 3, 4), (-1, -2), False), ((2, 3, 4), (1,), True)] if tuple_ok else [])
        bad = []
        for shape, ax, kd in cs:
            try:
                outs, rec = _reduce_eval(model, f, shape, ax, kd)
            except Incomplete as u:
                R.incomplete_at(P + '.REDUCE', f.qualname, '%s: %s' % ((shape, ax, kd), u))
                bad = None
                break
            want = (not kd) and ax is not None
            rets = [o for o in outs if o.kind == 'return']
            if len(rets) != 1 or len(outs) != 1:
                bad.append('%s: %d paths' % ((ax, kd), len(outs)))
                continue
            v = rets[0].value
            used = isinstance(v, Pol) and any(n.startswith('unsq(') for n in v.atoms())
            plain = isinstance(v, Pol) and 'G' in v.atoms()
            if want != used or (not want and not plain) or (want and plain):
                bad.append('axis=%r keepdims=%r -> %s' % (ax, kd, v.canon() if isinstance(v, Pol) else repr(v)[:60]))
            elif want and not (len(rec) == 1 and rec[0][1] == ax and isinstance(rec[0][0], Pol) and rec[0][0] == Pol.atom('G')):
                bad.append('axis=%r keepdims=%r: re-insertion %s' % (ax, kd, [(str(r[0]), r[1]) for r in rec]))
        if bad is None:
            continue
        R.ob(P + '.REDUCE', f.qualname, 're-insertion of reduced axes over %d (axis, keepdims) cases' % len(cs), not bad,
             'the upstream gradient must be unsqueezed along the reduced axes iff `not keepdims and axis is not None`: %s' % bad[:3], f.loc)


def check_mean_divisor(model, R, P):
    """mean_backward divides the broadcast gradient by the number of averaged elements: evaluated on concrete shapes / axes"""
    from .poly import P as Pol
    from fractions import Fraction
    f = model.func('synapgrad.cpu_ops.mean_backward')
    shape = (2, 3, 5)
    bad = []
    for ax in (None, 0, 1, -1, (0, 2), (-1, -3), [1], (0, 1, 2)):
        for kd in (False, True):
            try:
                outs, rec = _reduce_eval(model, f, shape, ax, kd)
            except Incomplete as u:
                R.incomplete_at(P + '.REDUCE', f.qualname, 'divisor, axis=%r: %s' % (ax, u))
                return
            axes = range(len(shape)) if ax is None else ([ax] if isinstance(ax, int) else list(ax))
            n = 1
            for a_ in {x % len(shape) for x in axes}:
                n *= shape[a_]
            rets = [o for o in outs if o.kind == 'return']
            v = rets[0].value if len(rets) == 1 else None
            ok = isinstance(v, Pol) and len(v.t) == 1 and list(v.t.values())[0] == Fraction(1, n)
            if not ok:
                bad.append('axis=%r keepdims=%r -> %s (expected gradient / %d)' % (ax, kd, v.canon() if isinstance(v, Pol) else repr(v)[:50], n))
    R.ob(P + '.REDUCE', f.qualname, 'divisor of mean_backward', not bad, 'the divisor must be the product of the operand extents over the reduced axes: %s' % bad[:3], f.loc)


# ------------------------------------------------------------------------------------------------ DEP
# Frozen table (confirmed by reading each kernel against its forward sibling): the parameters every returned
# gradient slot must data-depend on, on EVERY path.  A kernel that stops using a saved value (a dropped factor,
# an ignored geometry argument, an eval-mode branch without the 1/sqrt(var+eps) scale) is wrong for some input.
DEP = {
    'add_backward': [{'grad', 'a_shape'}, {'grad', 'b_shape'}],
    'mul_backward': [{'grad', 'b'}, {'grad', 'a'}],
    'matmul_backward': [{'grad', 'b'}, {'grad', 'a'}],
    'addmm_backward': [{'grad', 'a'}, {'grad', 'c'}, {'grad', 'b'}],
    'pow_backward': [{'grad', 'a', 'n'}],
    'rpow_backward': [{'grad', 'exp_n_a', 'n'}],
    'neg_backward': [{'grad'}], 'clone_backward': [{'grad'}],
    'slice_backward': [{'grad', 's', 'a_shape'}],
    'concat_backward': [{'grad', 'sections', 'axis'}],
    'stack_backward': [{'grad', 'axis'}],
    'unbind_backward': [{'grad', 'a_shape', 'axis'}],
    'exp_backward': [{'grad', 'exp_a'}], 'log_backward': [{'grad', 'a'}], 'sqrt_backward': [{'grad', 'sqrt_a'}],
    'sum_backward': [{'grad', 'a_shape'}], 'mean_backward': [{'grad', 'a_shape'}],
    'max_backward': [{'grad', 'a'}], 'min_backward': [{'grad', 'a'}],
    'squeeze_backward': [{'grad', 'a_shape'}], 'reshape_backward': [{'grad', 'a_shape'}], 'unsqueeze_backward': [{'grad', 'axis'}],
    'movedim_backward': [{'grad', 'source', 'destination'}], 'transpose_backward': [{'grad', 'axis0', 'axis1'}],
    'unfold_dim_backward': [{'grad', 'a_shape', 'dimension', 'size', 'step'}],
    'relu_backward': [{'grad', 'a'}], 'leaky_relu_backward': [{'grad', 'a', 'neg_slope'}], 'selu_backward': [{'grad', 'a', 'alpha', 'scale'}],
    'tanh_backward': [{'grad', 'tanh_a'}], 'sigmoid_backward': [{'grad', 'sigmoid_a'}],
    'softmax_backward': [{'grad', 'softmax_a', 'axis'}], 'log_softmax_backward': [{'grad', 'log_softmax_a', 'axis'}],
    'mse_loss_backward': [{'grad', 'y_pred', 'y_true'}], 'nll_loss_backward': [{'grad', 'y_pred', 'y_true'}],
    'bce_loss_backward': [{'grad', 'y_pred', 'y_true'}], 'bce_with_logits_loss_backward': [{'grad', 'y_pred', 'y_true'}],
    'cross_entropy_loss_backward': [{'grad', 'y_pred', 'y_true'}],
    'max_pool1d_backward': [{'grad', 'a_shape', 'kernel_size', 'stride', 'padding', 'dilation', 'windows'}],
    'max_pool2d_backward': [{'grad', 'a_shape', 'kernel_size', 'stride', 'padding', 'dilation', 'windows'}],
    'avg_pool1d_backward': [{'grad', 'a_shape', 'kernel_size', 'stride', 'padding', 'dilation', 'windows'}],
    'avg_pool2d_backward': [{'grad', 'a_shape', 'kernel_size', 'stride', 'padding', 'dilation', 'windows'}],
    'conv1d_backward': [{'grad', 'weight', 'a_shape', 'stride', 'padding', 'dilation'}, {'grad', 'windows'}, {'grad'}],
    'conv2d_backward': [{'grad', 'weight', 'a_shape', 'stride', 'padding', 'dilation'}, {'grad', 'windows'}, {'grad'}],
    'batch_norm_backward': [{'grad', 'variance', 'eps'}, {'grad', 'x', 'mean', 'variance', 'eps'}, {'grad'}],
}


def check_dep(model, R, P, kernel_funcs):
    from .domains.dep import MustDep, DepInterp
    R.rule(P + '.DEP', 'on every path each returned gradient slot data-depends on the saved values / arguments its closed form needs '
                       '(frozen table, must-dependence analysis: join = intersection)', floor=len(kernel_funcs))
    for kf in kernel_funcs:
        if kf.mod.modname == 'synapgrad.conv_tools':
            # the conv_tools routines are decided term by term on evaluated paths (sa/rules_convpe.py: C06 / C16), which subsumes a dependence table
            R.ob(P + '.DEP', kf.qualname, 'decided by the evaluated conv_tools rules (OUTSIZE / PADCROP / PAIR-FAST / STRIDED)', True, '', kf.loc)
            continue
        want = DEP.get(kf.name)
        if want is None:
            R.incomplete_at(P + '.DEP', kf.qualname, 'backward kernel has no entry in the dependence table')
            continue
        dom = MustDep()
        I = DepInterp(model, kf, dom)
        try:
            ret = I.run()
        except Incomplete as e:
            R.incomplete_at(P + '.DEP', kf.qualname, str(e))
            continue
        slots = ret.items if isinstance(ret, Tup) else [ret]
        params = set(kf.params)
        for k, w in enumerate(want):
            stale = w - params
            if stale:
                R.incomplete_at(P + '.DEP', kf.qualname, 'table names parameter(s) %s that no longer exist' % sorted(stale))
                continue
            if k >= len(slots):
                R.ob(P + '.DEP', kf.qualname, 'slot %d' % k, False, 'kernel returns %d slots, table expects %d' % (len(slots), len(want)), kf.loc)
                continue
            have = dom.c(slots[k])
            missing = w - have
            R.ob(P + '.DEP', kf.qualname, 'slot %d depends on %s' % (k, sorted(w)), not missing,
                 'on some path slot %d does not depend on %s (must-dependence set: %s)' % (k, sorted(missing), sorted(have)), kf.loc)


# ------------------------------------------------------------------------------------------------ AXISGEN
REDUCERS = {'sum', 'max', 'min', 'mean', 'argmax', 'argmin', 'prod', 'cumsum', 'expand_dims', 'squeeze', 'any', 'all', 'std', 'var', 'logsumexp', 'stack', 'concatenate'}


def check_axisgen(model, R, P, kernel_quals):
    """kernels with an `axis` parameter must be generic in it: no literal axis in a reduction over an array operand, no Python iteration over an array operand"""
    R.rule(P + '.AXISGEN', 'a kernel taking an axis parameter uses that parameter (not a literal axis, not Python iteration over rows) in every reduction', floor=len(kernel_quals))
    for q in kernel_quals:
        f = model.func(q)
        axp = [p for p in f.params if p in ('axis', 'dim')]
        if not axp:
            R.incomplete_at(P + '.AXISGEN', q, 'kernel no longer has an axis parameter')
            continue
        ax = axp[0]
        arrays = {a.arg for a in f.node.args.args if a.annotation is not None and 'ndarray' in norm(a.annotation)}
        # derived arrays: any local assigned from an expression mentioning an array
        changed = True
        while changed:
            changed = False
            for n in body_walk(f.node):
                if isinstance(n, ast.Assign) and len(n.targets) == 1 and isinstance(n.targets[0], ast.Name):
                    if names_in(n.value) & arrays and n.targets[0].id not in arrays:
                        arrays.add(n.targets[0].id)
                        changed = True
        n_red = 0
        for n in ast.walk(f.node):
            if isinstance(n, ast.Call):
                name = n.func.attr if isinstance(n.func, ast.Attribute) else (n.func.id if isinstance(n.func, ast.Name) else None)
                if name in REDUCERS and (names_in(n) & arrays):
                    kws = [k for k in n.keywords if k.arg == 'axis']
                    if kws:
                        n_red += 1
                        v = kws[0].value
                        ok = isinstance(v, ast.Name) and v.id == ax
                        R.ob(P + '.AXISGEN', q, norm(n)[:90], ok, 'reduction over an array operand must use the kernel\'s `%s` parameter, found axis=%s' % (ax, norm(v)), _loc(f, n))
                    elif name in ('expand_dims',) and len(n.args) > 1:
                        n_red += 1
                        v = n.args[1]
                        R.ob(P + '.AXISGEN', q, norm(n)[:90], isinstance(v, ast.Name) and v.id == ax, 'axis argument must be the axis parameter', _loc(f, n))
            if isinstance(n, (ast.For, ast.comprehension)) and isinstance(n.iter, ast.Name) and n.iter.id in arrays:
                n_red += 1
                R.ob(P + '.AXISGEN', q, 'iteration over ' + n.iter.id, False, 'Python iteration over an array operand walks axis 0, whatever `%s` is' % ax, f.loc)
            if isinstance(n, ast.Subscript) and isinstance(n.value, ast.Attribute) and n.value.attr == 'shape' and isinstance(n.slice, ast.Constant) \
                    and isinstance(n.value.value, ast.Name) and n.value.value.id in arrays:
                n_red += 1
                R.ob(P + '.AXISGEN', q, norm(n), False, 'literal-axis extent of an array operand in an axis-generic kernel', _loc(f, n))
        if n_red == 0:
            R.ob(P + '.AXISGEN', q, 'no reduction found', False, 'an axis-taking kernel must reduce along its axis parameter', f.loc)


def check_window_axis(model, R, P):
    """unfold_dim: sliding_window_view appends the window axis LAST (moved there from `dimension`); the backward brings each window block back
    with moveaxis(block, -1, dimension) - a swap of the two axes is only equal when `dimension` is one of the last two"""
    fq, bq = 'synapgrad.cpu_ops.unfold_dim_forward', 'synapgrad.cpu_ops.unfold_dim_backward'
    fk, bk = model.func(fq), model.func(bq)
    swv = [c for c in ast.walk(fk.node) if isinstance(c, ast.Call) and norm(c.func).endswith('sliding_window_view')]
    ok_f = len(swv) == 1 and any(k.arg == 'axis' and norm(k.value) == 'dimension' for k in swv[0].keywords)
    R.ob(P + '.PERM', fq, norm(swv[0])[:90] if swv else 'no sliding_window_view', ok_f, 'windows are taken along `dimension` (NumPy appends the window axis last)', fk.loc)
    moves = [c for c in ast.walk(bk.node) if isinstance(c, ast.Call) and model.resolve(bk.mod, c.func) in ('numpy.moveaxis', 'numpy.swapaxes', 'numpy.transpose', 'numpy.rollaxis')]
    meth = [c for c in ast.walk(bk.node) if isinstance(c, ast.Call) and isinstance(c.func, ast.Attribute) and c.func.attr in ('swapaxes', 'transpose') and not norm(c.func).startswith('np.')]
    ok = len(moves) == 1 and not meth and model.resolve(bk.mod, moves[0].func) == 'numpy.moveaxis'
    if ok:
        sig = ('a', 'source', 'destination')
        b = {}
        for i, a in enumerate(moves[0].args):
            b[sig[i]] = a
        for k in moves[0].keywords:
            b[k.arg] = k.value
        ok = norm(b.get('source')) == '-1' and norm(b.get('destination')) == 'dimension' and bk.pos_params[0] in names_in(b.get('a'))
    R.ob(P + '.PERM', bq, norm(moves[0])[:90] if moves else 'no axis move', ok,
         'each window block must be realigned with moveaxis(block, -1, dimension): the inverse of "window axis appended last"; swapaxes also moves the other trailing axes unless dimension >= ndim - 2', bk.loc)
