"""Expected-zero hygiene rules added after the fifth round of seeded changes.  Each rule names a construct that has no legitimate instance in the numeric
modules today and that breaks a property for inputs the tests do not sample:

  DIM-TRUTH      a dim / axis parameter used for its truth value (`axis or -1`, `if not dim`): 0 is a legal dim and is conflated with "not given"
  DIM-MOD        `dim % rank` on a raw dim parameter: an out-of-range dim wraps around instead of being rejected
  SQUEEZE-ALL    squeeze() without an axis on a kernel result: every size-1 dimension disappears, not only the reduced ones
  GLOBAL-STATE   a function of the numeric modules writes module-level state (a counter, a cache whose key does not determine the cached value): results depend on the history of calls
  DIM-MOD applies to wrappers and forward kernels (a backward kernel only sees dims its forward kernel accepted); MEMO-MUTABLE ignores comprehension-scoped names.
  MEMO-MUTABLE   a memoised function (lru_cache / cache) whose result is a fresh mutable container: every caller shares - and may change - one object
  RESULT-NAME    the Tensor built by an op wrapper gets a name derived from its operands: the text of the computation history is kept alive in every result

All of them walk the normalised program of /repo on every run and report file:line of the construct.  Because the expected count is zero, each rule registers
the number of sites it scanned as its instances (so that a vanished module fails the floor) and the self-test keeps a positive example per rule (the seeded change
that motivated it)."""
import ast
from .core import norm

DIM_PARAMS = {'axis', 'dim', 'dimension', 'source', 'destination', 'axis0', 'axis1', 'dim0', 'dim1', 'start_dim', 'end_dim'}
NUMERIC_MODULES = ('synapgrad.cpu_ops', 'synapgrad.conv_tools', 'synapgrad.functional', 'synapgrad.nn.functional')


def _loc(f, n):
    return '%s:%d' % (f.mod.relpath, getattr(n, 'lineno', f.node.lineno))


def _own_walk(fnode):
    stack = list(fnode.body)
    while stack:
        n = stack.pop()
        yield n
        if isinstance(n, (ast.FunctionDef, ast.AsyncFunctionDef, ast.ClassDef)):
            continue
        stack.extend(ast.iter_child_nodes(n))


def check_dim_tests(model, R, P, scope='all', modules=('synapgrad.cpu_ops', 'synapgrad.functional', 'synapgrad.nn.functional'), floor=20):
    R.rule(P + '.DIM-TRUTH', 'a dim / axis parameter is never used for its truth value (`axis or d`, `if not dim`, `x if dim else y`): 0 is a legal dimension and must not be treated as "absent"', floor=floor)
    R.rule(P + '.DIM-MOD', 'a raw dim / axis parameter is never reduced modulo the rank (`dim % ndim`): an out-of-range dim must be rejected, not wrapped around', floor=floor)
    n = 0
    for m in modules:
        for f in model.module_functions(m):
            dims = set(f.params) & DIM_PARAMS
            if not dims:
                continue
            if scope == 'backward' and m == 'synapgrad.cpu_ops' and not (f.name.endswith('_backward') or f.name == 'unbroadcast'):
                continue
            if scope == 'forward' and m == 'synapgrad.cpu_ops' and f.name.endswith('_backward'):
                continue
            n += 1
            rebound = {x.id for x in ast.walk(f.node) if isinstance(x, ast.Name) and isinstance(x.ctx, ast.Store)}
            truth, mods = [], []
            parents = {}
            for x in ast.walk(f.node):
                for c in ast.iter_child_nodes(x):
                    parents[id(c)] = x
            for x in ast.walk(f.node):
                if not (isinstance(x, ast.Name) and x.id in dims and isinstance(x.ctx, ast.Load)):
                    continue
                par = parents.get(id(x))
                if isinstance(par, ast.BoolOp) or (isinstance(par, ast.UnaryOp) and isinstance(par.op, ast.Not)) or (isinstance(par, (ast.If, ast.While, ast.IfExp)) and par.test is x) \
                        or (isinstance(par, ast.Call) and isinstance(par.func, ast.Name) and par.func.id == 'bool' and par.args == [x]):
                    truth.append(par)
                if isinstance(par, ast.BinOp) and isinstance(par.op, ast.Mod) and par.left is x:
                    mods.append(par)
                if isinstance(par, ast.AugAssign) and isinstance(par.op, ast.Mod) and par.target is x:
                    mods.append(par)
            for x in ast.walk(f.node):
                if isinstance(x, ast.AugAssign) and isinstance(x.op, ast.Mod) and isinstance(x.target, ast.Name) and x.target.id in dims:
                    mods.append(x)
            R.ob(P + '.DIM-TRUTH', f.qualname, 'truth tests of %s: %s' % (sorted(dims), [norm(t)[:50] for t in truth][:3]), not truth,
                 'dim 0 is falsy: the test treats it like a missing / None dim', _loc(f, truth[0]) if truth else f.loc)
            if m == 'synapgrad.cpu_ops' and (f.name.endswith('_backward') or f.name == 'unbroadcast'):
                mods = []           # a backward kernel only ever sees dims its forward kernel has already accepted (NumPy rejected the others there)
            R.ob(P + '.DIM-MOD', f.qualname, 'modulo on %s: %s' % (sorted(dims), [norm(t)[:50] for t in mods][:3]), not mods,
                 'dim %% rank maps an out-of-range dim onto a legal one instead of raising (NumPy / PyTorch reject it)', _loc(f, mods[0]) if mods else f.loc)
    R.analysed['dim_test_functions'] = n


def check_squeeze_all(model, R, P, modules=('synapgrad.cpu_ops', 'synapgrad.functional', 'synapgrad.nn.functional', 'synapgrad.conv_tools')):
    R.rule(P + '.SQUEEZE-ALL', 'no kernel / wrapper drops dimensions with an axis-less squeeze (np.squeeze(x) / x.squeeze()): that removes EVERY size-1 dimension, also those the operation must keep '
                               '(only squeeze_forward, whose axis is the user\'s argument, squeezes)', floor=100)
    n = 0
    for m in modules:
        for f in model.module_functions(m):
            n += 1
            bad = []
            for c in ast.walk(f.node):
                if not isinstance(c, ast.Call):
                    continue
                is_np = model.resolve(f.mod, c.func) == 'numpy.squeeze'
                is_m = isinstance(c.func, ast.Attribute) and c.func.attr == 'squeeze' and not is_np
                if not (is_np or is_m):
                    continue
                nargs = len(c.args) - (1 if is_np else 0)
                has_axis = nargs >= 1 or any(k.arg in ('axis', 'dim') for k in c.keywords)
                if is_m and isinstance(c.func.value, ast.Name) and c.func.value.id in ('np', 'numpy'):
                    continue
                if not has_axis:
                    bad.append(c)
            R.ob(P + '.SQUEEZE-ALL', f.qualname, 'axis-less squeezes: %s' % [norm(b)[:50] for b in bad][:3], not bad,
                 'an axis-less squeeze also removes size-1 dimensions that are not being reduced', _loc(f, bad[0]) if bad else f.loc)
    R.analysed['squeeze_functions'] = n


def check_global_state(model, R, P, modules=NUMERIC_MODULES + ('synapgrad.nn.init', 'synapgrad.nn.utils.data'), floor=100):
    R.rule(P + '.GLOBAL-STATE', 'no function of the numeric modules writes module-level state (stores into / mutates a module-level container, or re-binds a global); the one exception is a memo table whose key '
                                'determines the stored value (backward slice: every parameter / array attribute the value can depend on is one the key depends on) - a value cached under a key that omits '
                                'something it depends on (item size, dtype) is returned for other inputs, and a cached array / list is one object shared by all callers', floor=floor)
    n = 0
    for m in modules:
        mod = model.modules.get(m) if hasattr(model, 'modules') and isinstance(model.modules, dict) else None
        for f in model.module_functions(m):
            n += 1
            gl = set(f.mod.globals) if hasattr(f.mod, 'globals') else set()
            local = set(f.params) | {x.id for x in ast.walk(f.node) if isinstance(x, ast.Name) and isinstance(x.ctx, ast.Store)} | {a.arg for a in ast.walk(f.node) if isinstance(a, ast.arg)}
            declared = {nm for x in ast.walk(f.node) if isinstance(x, (ast.Global, ast.Nonlocal)) for nm in x.names}
            bad = []
            for x in ast.walk(f.node):
                if isinstance(x, ast.Global):
                    bad.append(x)
                base = None
                if isinstance(x, (ast.Subscript, ast.Attribute)) and isinstance(x.ctx, (ast.Store, ast.Del)):
                    base = x.value
                elif isinstance(x, ast.Call) and isinstance(x.func, ast.Attribute) and x.func.attr in ('append', 'extend', 'update', 'setdefault', 'pop', 'clear', 'add', 'insert', 'remove', 'popitem', '__setitem__'):
                    base = x.func.value
                if base is None:
                    continue
                while isinstance(base, (ast.Subscript, ast.Attribute)):
                    base = base.value
                if isinstance(base, ast.Name) and base.id in gl and (base.id not in local or base.id in declared) and not isinstance(f.mod.globals.get(base.id), (ast.Constant,)):
                    # a module-level name that is not an imported module alias
                    if base.id in getattr(f.mod, 'aliases', {}):
                        continue
                    if _complete_memo_store(f, x, base.id) and _memo_value_immutable(model, f, x):
                        continue        # a memo table whose key determines the stored, immutable value: the table is not observable state
                    bad.append(x)
            R.ob(P + '.GLOBAL-STATE', f.qualname, 'writes to module-level state: %s' % [norm(b)[:60] for b in bad][:3], not bad,
                 'module-level state makes the result depend on earlier calls (and on whatever the cache key leaves out)', _loc(f, bad[0]) if bad else f.loc)
    R.analysed['global_state_functions'] = n


SHAPE_ATTRS = {'shape', 'ndim', 'size', 'dtype', 'itemsize', 'strides', 'nbytes', 'flags'}


def _stmt_positions(f):
    """node id -> (pre-order index of its statement, ids of the loops around it)"""
    cache = getattr(f, '_sa_positions', None)
    if cache is not None:
        return cache
    pos = {}
    counter = [0]

    def visit(stmts, loops):
        for st in stmts:
            counter[0] += 1
            here = counter[0]
            inner = loops + ((id(st),) if isinstance(st, (ast.For, ast.While)) else ())
            own = [st]
            for fld in ('body', 'orelse', 'finalbody'):
                sub = getattr(st, fld, None)
                if isinstance(sub, list) and sub and isinstance(sub[0], ast.stmt):
                    pass
            # expressions of this statement (not of nested statements)
            stack = [c for c in ast.iter_child_nodes(st) if not isinstance(c, ast.stmt)]
            pos[id(st)] = (here, inner)
            while stack:
                n = stack.pop()
                if isinstance(n, ast.stmt):
                    continue
                pos[id(n)] = (here, inner)
                stack.extend(ast.iter_child_nodes(n))
            for fld in ('body', 'orelse', 'finalbody'):
                sub = getattr(st, fld, None)
                if isinstance(sub, list) and sub and isinstance(sub[0], ast.stmt):
                    visit(sub, inner)
            if isinstance(st, ast.Try):
                for h in st.handlers:
                    visit(h.body, inner)
    visit(f.node.body, ())
    try:
        f._sa_positions = pos
    except Exception:
        pass
    return pos


def _reaches(f, bind_node, use_node):
    """may the binding statement run before the use?  (earlier in program order, or both inside one loop)"""
    pos = _stmt_positions(f)
    b, u = pos.get(id(bind_node)), pos.get(id(use_node))
    if b is None or u is None:
        return True
    if b[0] < u[0]:
        return True
    return bool(set(b[1]) & set(u[1]))


def _input_atoms(f, e, seen=None, depth=0):
    """the inputs of f that the value of expression e can depend on: parameter names (the whole object) or `param.attr` for the array metadata attributes;
    locals are followed through all of their bindings (flow-insensitive); module-level names and constants contribute nothing"""
    seen = set() if seen is None else seen
    out = set()
    if e is None or depth > 12:
        return out
    if isinstance(e, ast.Attribute):
        chain, x = [], e
        while isinstance(x, ast.Attribute):
            chain.append(x.attr)
            x = x.value
        if isinstance(x, ast.Name) and x.id in f.params and chain[-1] in SHAPE_ATTRS:
            return {'%s.%s' % (x.id, chain[-1])}
        return _input_atoms(f, e.value, seen, depth + 1)
    if isinstance(e, ast.Name):
        if e.id in f.params:
            rebound = [n for n in ast.walk(f.node) if isinstance(n, ast.Name) and n.id == e.id and isinstance(n.ctx, ast.Store)]
            out.add(e.id)
            if not rebound:
                return out
        if (e.id, _stmt_positions(f).get(id(e), (0,))[0]) in seen:
            return out
        seen = seen | {(e.id, _stmt_positions(f).get(id(e), (0,))[0])}
        for n in ast.walk(f.node):
            if isinstance(n, (ast.Assign, ast.AugAssign, ast.For, ast.NamedExpr)) and not _reaches(f, n, e):
                continue            # a binding that can only run after this read does not feed it
            if isinstance(n, ast.Assign) and any(isinstance(y, ast.Name) and y.id == e.id for t in n.targets for y in ast.walk(t)):
                out |= _input_atoms(f, n.value, seen, depth + 1)
            elif isinstance(n, ast.AugAssign) and isinstance(n.target, ast.Name) and n.target.id == e.id:
                out |= _input_atoms(f, n.value, seen, depth + 1)
            elif isinstance(n, (ast.For, ast.comprehension)) and any(isinstance(y, ast.Name) and y.id == e.id for y in ast.walk(n.target)):
                out |= _input_atoms(f, n.iter, seen, depth + 1)
            elif isinstance(n, ast.withitem) and n.optional_vars is not None and any(isinstance(y, ast.Name) and y.id == e.id for y in ast.walk(n.optional_vars)):
                out |= _input_atoms(f, n.context_expr, seen, depth + 1)
            elif isinstance(n, ast.NamedExpr) and isinstance(n.target, ast.Name) and n.target.id == e.id:
                out |= _input_atoms(f, n.value, seen, depth + 1)
        return out
    for ch in ast.iter_child_nodes(e):
        if isinstance(ch, ast.expr):
            out |= _input_atoms(f, ch, seen, depth + 1)
        elif isinstance(ch, ast.comprehension):
            out |= _input_atoms(f, ch.iter, seen, depth + 1)
            for c_ in ch.ifs:
                out |= _input_atoms(f, c_, seen, depth + 1)
        elif isinstance(ch, ast.keyword):
            out |= _input_atoms(f, ch.value, seen, depth + 1)
    return out


def _complete_memo_store(f, node, table):
    """node is `TABLE[key] = value` (or TABLE.setdefault(key, value)) in f: True when everything the value can depend on is determined by the key"""
    key = value = None
    if isinstance(node, ast.Subscript) and isinstance(node.ctx, ast.Store) and isinstance(node.value, ast.Name) and node.value.id == table:
        key = node.slice
        for n in ast.walk(f.node):
            if isinstance(n, ast.Assign) and any(t is node for t in n.targets):
                value = n.value
    elif isinstance(node, ast.Call) and isinstance(node.func, ast.Attribute) and node.func.attr == 'setdefault' and len(node.args) == 2 and isinstance(node.func.value, ast.Name) and node.func.value.id == table:
        key, value = node.args
    if key is None or value is None:
        return False
    katoms, vatoms = _input_atoms(f, key), _input_atoms(f, value)

    def covered(a):
        return a in katoms or a.split('.')[0] in katoms
    return all(covered(a) for a in vatoms)


def _memo_value_immutable(model, f, node):
    """the object put into the table cannot be changed by whoever gets it back later (numbers, strings, tuples of such): a cached array / list is one object shared by all callers"""
    value = None
    if isinstance(node, ast.Subscript):
        for n in ast.walk(f.node):
            if isinstance(n, ast.Assign) and any(t is node for t in n.targets):
                value = n.value
    elif isinstance(node, ast.Call) and len(node.args) == 2:
        value = node.args[1]
    return value is not None and _immutable_result(model, f, value)


IMMUTABLE_CALLS = {'tuple', 'str', 'int', 'float', 'bool', 'frozenset', 'len', 'min', 'max', 'sum', 'abs', 'round', 'repr', 'format', 'math.sqrt', 'sqrt', 'divmod', 'pow', 'hash'}


def _immutable_result(model, f, e, depth=0):
    if e is None or isinstance(e, (ast.Constant, ast.JoinedStr, ast.Compare, ast.BoolOp)):
        return all(_immutable_result(model, f, v, depth + 1) for v in e.values) if isinstance(e, ast.BoolOp) else True
    if isinstance(e, ast.Tuple):
        return all(_immutable_result(model, f, x, depth + 1) for x in e.elts)
    if isinstance(e, ast.UnaryOp):
        return _immutable_result(model, f, e.operand, depth + 1)
    if isinstance(e, ast.BinOp):
        return _immutable_result(model, f, e.left, depth + 1) and _immutable_result(model, f, e.right, depth + 1)
    if isinstance(e, ast.IfExp):
        return _immutable_result(model, f, e.body, depth + 1) and _immutable_result(model, f, e.orelse, depth + 1)
    if isinstance(e, ast.Call):
        t = norm(e.func)
        if t in IMMUTABLE_CALLS or t.split('.')[0] == 'math':
            return True
        if t == 'tuple':
            return True
        if t in ('np.prod', 'np.sum', 'np.max', 'np.min', 'np.size', 'np.ndim', 'numpy.prod', 'numpy.sum') and len(e.args) == 1 and not e.keywords:
            return True         # a full reduction: a NumPy scalar
        return False
    if isinstance(e, ast.Name):
        # a parameter (hashable, hence immutable by the cache's own contract) or a local bound to immutable expressions only
        if e.id in f.params:
            return True
        binds = [n for n in ast.walk(f.node) if isinstance(n, ast.Assign) and any(isinstance(t, ast.Name) and t.id == e.id for t in n.targets)]
        comp_scope = {id(y) for c in ast.walk(f.node) if isinstance(c, ast.comprehension) for y in ast.walk(c.target)}
        others = [n for n in ast.walk(f.node) if isinstance(n, ast.Name) and n.id == e.id and isinstance(n.ctx, ast.Store) and id(n) not in comp_scope]
        if binds and len(binds) == len(others) and depth < 12:
            return all(_immutable_result(model, f, b.value, depth + 1) for b in binds)
        return False
    if isinstance(e, ast.Attribute):
        return e.attr in ('ndim', 'size', 'shape', 'dtype', 'itemsize')
    if isinstance(e, ast.Subscript):
        return _immutable_result(model, f, e.value, depth + 1) and isinstance(e.value, (ast.Attribute, ast.Name, ast.Tuple))
    return False


def check_memo(model, R, P):
    R.rule(P + '.MEMO-MUTABLE', 'a memoised function (functools.lru_cache / cache) only returns immutable values (numbers, strings, tuples of such): a cached list / dict / array is ONE object shared by every '
                                'caller, and an in-place change by one of them (shuffle, +=) shows up in all later results', floor=1)
    n = 0
    found = 0
    for f in model.funcs.values():
        if not f.mod.modname.startswith('synapgrad') or f.mod.modname.startswith('synapgrad.visual'):
            continue
        n += 1
        decos = [norm(d.func if isinstance(d, ast.Call) else d).split('.')[-1] for d in f.node.decorator_list]
        memo = getattr(f.node, '_sa_memoised', False) or any(d in ('lru_cache', 'cache', 'cached_property') for d in decos)
        if not memo:
            continue
        found += 1
        rets = [x for x in _own_walk(f.node) if isinstance(x, ast.Return)]
        bad = [r for r in rets if not _immutable_result(model, f, r.value)]
        R.ob(P + '.MEMO-MUTABLE', f.qualname, 'memoised; returns %s' % [norm(r.value)[:50] if r.value is not None else None for r in rets][:3], not bad,
             'the cached object is shared by all callers; it must be immutable', _loc(f, bad[0]) if bad else f.loc)
    R.ob(P + '.MEMO-MUTABLE', 'synapgrad', '%d memoised function(s) among %d functions' % (found, n), True, '', '')
    R.analysed['memo_functions'] = found


def check_result_name(model, R, P, ops):
    R.rule(P + '.RESULT-NAME', 'the result Tensor of an op wrapper carries no text derived from its operands (no name= built from operand names): otherwise the history of a long computation is kept alive, '
                               'and grows, inside every result - tracked or not', floor=40)
    for op in ops:
        func = op.func
        bad = []
        for c in op.tensor_calls:
            for k in c.keywords:
                if k.arg == 'name' and not isinstance(k.value, ast.Constant):
                    bad.append(k.value)
            # positional name (6th parameter of Tensor.__init__) is not used anywhere; any attribute store of .name on the result counts too
        for x in ast.walk(func.node):
            if isinstance(x, ast.Attribute) and isinstance(x.ctx, ast.Store) and x.attr in ('name', '_name') and isinstance(x.value, ast.Name) and x.value.id == getattr(op, 'out_name', None):
                bad.append(x)
        R.ob(P + '.RESULT-NAME', op.qual, 'result name: %s' % [norm(b)[:50] for b in bad][:2], not bad,
             'a name computed from the operands stores the expression text of the whole history in the result', _loc(func, bad[0]) if bad else func.loc)


def _doc_args(fnode):
    """parameter names in the order the docstring's Args / Parameters section lists them"""
    doc = ast.get_docstring(fnode) or ''
    out, on = [], False
    import re
    for line in doc.splitlines():
        t = line.strip()
        if re.match(r'^(Args|Arguments|Parameters)\s*:?\s*$', t):
            on = True
            continue
        if on:
            if re.match(r'^(Returns?|Raises|Examples?|Reference|Notes?)\s*:?', t) or t.startswith('>>>'):
                break
            m = re.match(r'^([A-Za-z_][A-Za-z_0-9]*)\s*(\([^)]*\))?\s*:', t)
            if m:
                out.append(m.group(1))
    return out


def check_signature_order(model, R, P, quals, synonyms=None, siblings=()):
    """the positional order of the parameters is part of the contract (callers pass hyper-parameters positionally): it must be the order the docstring documents, and
    sibling constructors / initialisers must agree with each other on names, order and defaults"""
    synonyms = synonyms or {}
    R.rule(P + '.SIGNATURE', 'positional parameters come in the documented order (the Args section of the docstring, which cites the reference API) and sibling functions agree on the order and the defaults of the '
                             'parameters they share: a swapped pair binds positional arguments to the wrong role without any error', floor=len(quals))
    sig = {}
    for q in quals:
        f = model.funcs.get(q)
        if f is None:
            R.incomplete_at(P + '.SIGNATURE', q, 'function not found')
            continue
        a = f.node.args
        params = [x.arg for x in a.posonlyargs + a.args if x.arg not in ('self', 'cls')]
        defaults = dict(zip([x.arg for x in (a.posonlyargs + a.args)][len(a.posonlyargs + a.args) - len(a.defaults):], [norm(d) for d in a.defaults]))
        sig[q] = (params, defaults)
        doc = [synonyms.get(d, d) for d in _doc_args(f.node)]
        doc = [d for d in doc if d in params]
        listed = [p for p in params if p in doc]
        ok = bool(doc) and listed == doc
        R.ob(P + '.SIGNATURE', q, 'signature %s / documented %s' % (params, doc), ok or not doc,
             'the documented parameter order is %s; positional callers following the documentation (or the reference API it cites) get %s' % (doc, params), f.loc)
    for group in siblings:
        have = [q for q in group if q in sig]
        for q in have[1:]:
            p0, d0 = sig[have[0]]
            p1, d1 = sig[q]
            shared = [p for p in p0 if p in p1]
            same_order = shared == [p for p in p1 if p in p0]
            same_defaults = all(d0.get(p) == d1.get(p) for p in shared)
            R.ob(P + '.SIGNATURE', q, 'agrees with %s on %s' % (have[0].split('.')[-2] if have[0].endswith('__init__') else have[0].split('.')[-1], shared), same_order and same_defaults,
                 'sibling signatures differ: %s %s vs %s %s' % (p0, {p: d0.get(p) for p in shared}, p1, {p: d1.get(p) for p in shared}), model.funcs[q].loc)
