"""Module-tree rules on an evaluated world (C12 / C13.MODE / the Module.zero_grad part of RESET).

nn/modules.py is partially evaluated (sa/peval.py) on a small heap of rule-defined objects - Module instances whose registries are real ordered
dicts, Parameter objects with a concrete requires_grad flag and a symbolic size - so that what is compared is the RESULT of parameters(),
num_params(), train() / eval(), zero_grad(), freeze(), register_*(), __setattr__() and Sequential, never the spelling of their loops:

    root   parameters  w (trainable), b (frozen)            submodules  A, B, A2 (= the same object as A, registered a second time)
    A      parameters  aw (trainable), shared (= root's w)   submodules  C
    C      parameters  cw (trainable)
    B      parameters  bw (frozen)

The tree contains a parameter shared by two modules and a module shared by two names: every aggregate must see each object once.
"""
import ast
from .core import norm
from .peval import PE, Opaque, Raised
from .poly import P
from .report import Incomplete

MOD = 'synapgrad.nn.modules.Module'
SEQ = 'synapgrad.nn.modules.Sequential'
A = P.atom
_ids = [1000]
WRITES = []         # (object name, attribute) for every attribute assignment on a module / parameter object of the world during the current evaluation


def _next_id():
    _ids[0] += 1
    return _ids[0]


class PObj:
    """a Parameter"""
    eq_overridden = False       # set by World: does Tensor / Parameter define __eq__ (then `in` / == are not identity tests)?

    def __init__(self, name, requires_grad):
        self.name = self.text = name
        self.requires_grad = requires_grad
        self.pe_id = _next_id()
        self.zeroed = 0
        self.flag_writes = []
        self.pe_eq_overridden = PObj.eq_overridden

    def pe_getattr(self, pe, attr):
        if attr == 'requires_grad':
            return self.requires_grad
        if attr in ('size',):
            return A('size(%s)' % self.name)
        if attr in ('data', 'grad', '_grad', 'shape', 'dtype', 'device'):
            return A('%s.%s' % (self.name, attr))
        return NotImplemented

    def pe_hasattr(self, attr):
        return attr in ('requires_grad', 'size', 'data', 'grad', '_grad', 'shape', 'zero_')

    def pe_setattr(self, pe, attr, value, stmt, env, func, depth):
        WRITES.append((self.name, attr))
        if attr in ('requires_grad', '_requires_grad'):
            self.flag_writes.append(value)
            self.requires_grad = value
            return True
        return NotImplemented

    def pe_call_method(self, pe, attr, args, kw, depth, node):
        if attr == 'zero_':
            self.zeroed += 1
            return None
        if attr in ('numel',):
            return A('size(%s)' % self.name)
        if attr == 'requires_grad_':
            self.requires_grad = args[0] if args else True
            return self
        return NotImplemented

    def pe_isinstance(self, names):
        return any(n.split('.')[-1] in ('Parameter', 'Tensor') for n in names)

    def __repr__(self):
        return 'PObj(%s)' % self.name


class MObj:
    """a Module instance; cls is the model class whose methods run on it"""
    def __init__(self, world, name, cls, initialised=True):
        self.world, self.name, self.text, self.pe_cls = world, name, name, cls
        self.pe_id = _next_id()
        self.attrs = {}
        if initialised:
            self.attrs.update(_submodules={}, _parameters={}, _initialized=True, training=A('%s.training0' % name))
        self.foreign_writes = []

    def add_param(self, key, p):
        self.attrs['_parameters'][key] = p
        self.attrs[key] = p

    def add_module(self, key, m):
        self.attrs['_submodules'][key] = m
        self.attrs[key] = m

    def pe_getattr(self, pe, attr):
        if attr == '__dict__':
            return self.attrs
        if attr == '__class__':
            return A('%s.__class__' % self.name)
        if attr in self.attrs:
            return self.attrs[attr]
        m = self.world.model.find_method(self.pe_cls, attr)
        if m is not None:
            from .peval import Bound
            return Bound(m, self, '%s.%s' % (self.name, attr))
        raise Raised('AttributeError(%s)' % attr)

    def pe_hasattr(self, attr):
        return attr in self.attrs or self.world.model.find_method(self.pe_cls, attr) is not None

    def pe_setattr(self, pe, attr, value, stmt, env, func, depth):
        WRITES.append((self.name, attr))
        # attribute assignment goes through Module.__setattr__ (the code under analysis) - except inside __setattr__'s own helpers, which use object.__setattr__
        sa = self.world.model.find_method(self.pe_cls, '__setattr__')
        if sa is not None and depth < pe.max_depth + 2:
            kind, val, _ = pe._run(sa, dict(zip(sa.pos_params, [self, attr, value])), None, depth + 1)
            if kind == 'raise':
                raise Raised(val)
            return True
        self.attrs[attr] = value
        return True

    def pe_call_method(self, pe, attr, args, kw, depth, node):
        m = self.world.model.find_method(self.pe_cls, attr)
        if m is None:
            if attr in self.attrs and hasattr(self.attrs[attr], 'pe_call'):
                return self.attrs[attr].pe_call(pe, args, kw, depth, node)
            return NotImplemented
        if depth >= pe.max_depth + 6:
            raise Incomplete('module tree deeper than the evaluation bound at %s.%s' % (self.name, attr))
        a = dict(zip(m.pos_params, [self] + list(args)))
        a.update(kw)
        va = m.node.args.vararg
        if va is not None:
            a[va.arg] = tuple(args[len(m.pos_params) - 1:])
        kind, val, _ = pe._run(m, a, None, depth + 1)
        if kind == 'raise':
            raise Raised(val)
        return val

    def pe_call(self, pe, args, kw, depth, node):
        # module(x): the layers of the world are opaque functions  name(x)
        fw = self.world.model.find_method(self.pe_cls, 'forward')
        if fw is not None and fw.cls.qualname not in (MOD,) and self.pe_cls.qualname == SEQ:
            return self.pe_call_method(pe, 'forward', args, kw, depth, node)
        return A('%s(%s)' % (self.name, ', '.join(a.canon() if isinstance(a, P) else repr(a) for a in args)))

    def pe_isinstance(self, names):
        mine = {c.qualname.split('.')[-1] for c in self.world.model.mro(self.pe_cls)}
        return any(n.split('.')[-1] in mine for n in names)

    def __repr__(self):
        return 'MObj(%s)' % self.name


class World:
    def __init__(self, model):
        self.model = model
        self.mcls = model.cls(MOD)
        PObj.eq_overridden = any('__eq__' in c.methods for q in ('synapgrad.nn.modules.Parameter',) for c in model.mro(model.cls(q)))
        mk = lambda n: MObj(self, n, self.mcls)
        self.root, self.A, self.B, self.C = mk('root'), mk('A'), mk('B'), mk('C')
        self.w, self.b, self.aw, self.cw, self.bw = PObj('w', True), PObj('b', False), PObj('aw', True), PObj('cw', True), PObj('bw', False)
        self.root.add_param('w', self.w)
        self.root.add_param('b', self.b)
        self.root.add_module('A', self.A)
        self.root.add_module('B', self.B)
        self.root.add_module('A2', self.A)          # one module object under two names
        self.A.add_param('aw', self.aw)
        self.A.add_param('shared', self.w)          # one parameter object in two modules
        self.A.add_module('C', self.C)
        self.C.add_param('cw', self.cw)
        self.B.add_param('bw', self.bw)
        self.modules = [self.root, self.A, self.C, self.B]
        self.params = [self.w, self.b, self.aw, self.cw, self.bw]           # documented order: own first, then the submodules in registration order, depth first
        self.sizes = {p.name: A('size(%s)' % p.name) for p in self.params}

    def hook(self, pe, name, e, args, kw, env, func, depth):
        t = norm(e.func)
        if t == 'object.__setattr__' and len(args) == 3 and isinstance(args[0], MObj) and isinstance(args[1], str):
            args[0].attrs[args[1]] = args[2]
            return None
        if t in ('OrderedDict', 'collections.OrderedDict', 'dict') and not args and not kw:
            return {}
        if t in ('super().__init__',) and func.cls is not None and func.pos_params and isinstance(env.get(func.pos_params[0]), MObj):
            for b in self.model.mro(func.cls)[1:]:
                if '__init__' in b.methods:
                    ob = env[func.pos_params[0]]
                    bi = b.methods['__init__']
                    a = dict(zip(bi.pos_params, [ob] + list(args)))
                    a.update(kw)
                    kind, val, _ = pe._run(bi, a, None, depth + 1)
                    if kind == 'raise':
                        raise Raised(val)
                    return None
            return None
        return NotImplemented

    def pe(self, **kw):
        return PE(self.model, call_hook=self.hook, atoms_not_none=True, max_depth=8, **kw)

    def snapshot(self, extra=()):
        """the attribute tables (and registry contents) of every module of the world"""
        snap = {}
        for m in list(self.modules) + list(extra):
            snap[m.name] = {k: (('dict', [(kk, id(vv)) for kk, vv in v.items()]) if isinstance(v, dict) else ('val', id(v) if not isinstance(v, (bool, int, str, type(None))) else v))
                            for k, v in m.attrs.items()}
        return snap

    def changes(self, before, extra=()):
        after = self.snapshot(extra)
        out = []
        for name, tab in after.items():
            b = before.get(name, {})
            for k in sorted(set(tab) | set(b)):
                if tab.get(k) != b.get(k):
                    out.append('%s.%s' % (name, k))
        return out

    def run(self, obj, method, args=(), kw=None, max_paths=32):
        del WRITES[:]
        self.before = self.snapshot()
        f = self.model.find_method(obj.pe_cls, method)
        if f is None:
            raise Incomplete('%s has no method %s' % (obj.pe_cls.qualname, method))
        a = dict(zip(f.pos_params, [obj] + list(args)))
        a.update(kw or {})
        va = f.node.args.vararg
        if va is not None:
            a[va.arg] = tuple(args[len(f.pos_params) - 1:])
        return f, self.pe().paths(f, a, max_paths=max_paths)


def _names(xs):
    return [getattr(x, 'name', repr(x)) for x in xs] if isinstance(xs, (list, tuple)) else repr(xs)


def check_world(model, R, P_='C12', rules=('ONCE', 'MODE', 'ORDER', 'REG', 'SEQ')):
    """all rules below run one method on a fresh world and compare the outcome"""
    def fresh():
        return World(model)

    def single(f, outs, rule, what):
        rets = [o for o in outs if o.kind in ('return', 'fall')]
        if len(outs) != 1 or len(rets) != 1:
            R.ob(rule, f.qualname, what, False, 'the evaluation on the module tree must follow one path to the end: %s' % [(o.kind, o.value if o.kind == 'raise' else '', o.conds[:3]) for o in outs][:3], f.loc)
            return None
        return rets[0]

    if 'ONCE' in rules:
        rule = P_ + '.ONCE'
        try:
            w = fresh()
            f, outs = w.run(w.root, 'parameters')
            o = single(f, outs, rule, 'parameters() of the tree')
            if o is not None:
                got = o.value
                ok = isinstance(got, list) and len(got) == len(w.params) and all(x is y for x, y in zip(got, w.params)) and not o.user.get('unordered')
                R.ob(rule, f.qualname, 'parameters() of a tree with a shared parameter and a shared submodule = %s' % _names(got), ok,
                     'parameters() must list own parameters first, then every submodule\'s in registration order, each object once (expected %s): a shared parameter reported twice is '
                     'double-counted by num_params and updated twice per optimizer step' % _names(w.params), f.loc)
                # attribute assignments on / changed attribute tables of the modules and parameters of the tree (helper objects of the call are not state)
                writes = sorted(set(['%s.%s' % x for x in WRITES] + w.changes(w.before)))
                R.ob(rule, f.qualname, 'parameters() keeps no state on the modules: %s' % (writes or 'no writes'), not writes,
                     'a parameter list cached on the module is not invalidated when a descendant registers / replaces a parameter later', f.loc)
            for kwargs, sel, tag in (({}, lambda p: True, 'all'), ({'trainable': True}, lambda p: p.requires_grad, 'trainable'), ({'non_trainable': True}, lambda p: not p.requires_grad, 'non-trainable')):
                w = fresh()
                f, outs = w.run(w.root, 'num_params', kw=kwargs)
                o = single(f, outs, rule, 'num_params(%s)' % tag)
                if o is None:
                    continue
                want = P.const(0)
                for p in w.params:
                    if sel(p):
                        want = want + w.sizes[p.name]
                got = o.value
                gp = got if isinstance(got, P) else (P.const(got) if isinstance(got, int) and not isinstance(got, bool) else None)
                R.ob(rule, f.qualname, 'num_params(%s) = %s' % (tag, gp.canon() if gp is not None else repr(got)), gp is not None and gp == want,
                     'each parameter element must be counted once, in exactly one of trainable / non-trainable (expected %s)' % want.canon(), f.loc)
        except Incomplete as u:
            R.incomplete_at(rule, MOD + '.parameters', str(u))

    if 'MODE' in rules:
        rule = P_ + '.MODE'
        for name, val in (('train', True), ('eval', False)):
            try:
                w = fresh()
                f, outs = w.run(w.root, name)
                o = single(f, outs, rule, '%s() on the tree' % name)
                if o is None:
                    continue
                flags = {m.name: m.attrs.get('training') for m in w.modules}
                ok = all(v is val for v in flags.values()) and o.value is w.root
                other = sorted(set(['%s.%s' % x for x in WRITES if x[1] != 'training'] + [c for c in w.changes(w.before) if not c.endswith('.training')]))
                R.ob(rule, f.qualname, '%s(): training flags %s, returns %s' % (name, flags, getattr(o.value, 'name', o.value)), ok and not other,
                     '%s() must set the flag of every module of the tree to %s (whatever it was), change nothing else and return self' % (name, val), f.loc)
            except Incomplete as u:
                R.incomplete_at(rule, '%s.%s' % (MOD, name), str(u))
        for name in ('zero_grad', 'freeze', 'unfreeze'):
            try:
                w = fresh()
                f, outs = w.run(w.root, name)
                o = single(f, outs, rule, '%s() on the tree' % name)
                if o is None:
                    continue
                if name == 'zero_grad':
                    got = {p.name: p.zeroed for p in w.params}
                    want = {p.name: (1 if p.requires_grad else 0) for p in w.params}
                    ok = got == want and not any(p.flag_writes for p in w.params)
                    R.ob(rule, f.qualname, 'zero_grad(): zero_() calls %s' % got, ok,
                         'zero_grad must reset exactly the parameters of parameters() that require grad, each once (a frozen parameter must not acquire a buffer): expected %s' % want, f.loc)
                else:
                    val = name == 'unfreeze'
                    got = {p.name: p.requires_grad for p in w.params}
                    ok = all(v is val for v in got.values()) and not any(p.zeroed for p in w.params)
                    R.ob(rule, f.qualname, '%s(): requires_grad %s' % (name, got), ok, '%s must set requires_grad = %s on exactly the parameters reported by parameters()' % (name, val), f.loc)
            except Incomplete as u:
                R.incomplete_at(rule, '%s.%s' % (MOD, name), str(u))

    if 'ORDER' in rules:
        rule = P_ + '.ORDER'
        # register_*: refused before __init__ ran and for the wrong type; otherwise name -> value appended to the right registry, removed from the other
        for name, good, bad, reg, other in (('register_module', 'mod', 'par', '_submodules', '_parameters'), ('register_parameter', 'par', 'mod', '_parameters', '_submodules')):
            try:
                for case in ('uninitialised', 'wrong type', 'plain value', 'ok'):
                    w = fresh()
                    tgt = MObj(w, 'fresh', w.mcls, initialised=(case != 'uninitialised'))
                    if case != 'uninitialised':
                        tgt.add_param('old_p', PObj('old_p', True))
                        tgt.add_module('old_m', MObj(w, 'old_m', w.mcls))
                    vals = {'mod': MObj(w, 'newmod', w.mcls), 'par': PObj('newpar', True), 'plain': 7}
                    value = vals[good] if case in ('ok', 'uninitialised') else (vals[bad] if case == 'wrong type' else vals['plain'])
                    key = 'old_p' if name == 'register_module' else 'old_m'      # the name is taken by an entry of the OTHER registry
                    f, outs = w.run(tgt, name, [key, value])
                    if case == 'ok':
                        o = single(f, outs, rule, '%s(name, value)' % name)
                        if o is None:
                            continue
                        # ... and registering an already registered, non-last name again replaces the entry in place
                        w2 = fresh()
                        t2 = MObj(w2, 'fresh2', w2.mcls)
                        mk2 = (lambda n_: MObj(w2, n_, w2.mcls)) if good == 'mod' else (lambda n_: PObj(n_, True))
                        (t2.add_module if good == 'mod' else t2.add_param)('first', mk2('first'))
                        (t2.add_module if good == 'mod' else t2.add_param)('second', mk2('second'))
                        newv = mk2('replacement')
                        f2, outs2 = w2.run(t2, name, ['first', newv])
                        r2 = t2.attrs.get(reg, {})
                        ok2 = len(outs2) == 1 and outs2[0].kind in ('fall', 'return') and list(r2.keys()) == ['first', 'second'] and r2.get('first') is newv
                        R.ob(rule, f.qualname, '%s of an already registered name: %s' % (name, list(r2.keys())), ok2,
                             'registering a name again must replace the entry in place (the registration order decides the order of parameters() and of Sequential)', f.loc)
                        r, ot = tgt.attrs.get(reg, {}), tgt.attrs.get(other, {})
                        ok = list(r.keys())[-1:] == [key] and r.get(key) is value and key not in ot and tgt.attrs.get(key) is value and len(r) == 2
                        R.ob(rule, f.qualname, '%s(%r, value): %s = %s, %s = %s' % (name, key, reg, list(r), other, list(ot)), ok,
                             'registration must append name -> value to %s (insertion order), remove the name from %s and set the attribute' % (reg, other), f.loc)
                    else:
                        ok = bool(outs) and all(o.kind == 'raise' for o in outs)
                        untouched = case == 'uninitialised' or (list(tgt.attrs['_parameters']) == ['old_p'] and list(tgt.attrs['_submodules']) == ['old_m'])
                        R.ob(rule, f.qualname, '%s with %s: %s' % (name, case, [o.kind for o in outs]), ok and untouched,
                             'registration must be refused (raise, registries untouched) before super().__init__() ran and for values of the wrong type', f.loc)
            except Incomplete as u:
                R.incomplete_at(rule, '%s.%s' % (MOD, name), str(u))
        try:
            w = fresh()
            f, outs = w.run(w.root, 'submodules')
            o = single(f, outs, rule, 'submodules()')
            if o is not None:
                want = [w.A, w.B, w.A]
                ok = isinstance(o.value, list) and len(o.value) == 3 and all(x is y for x, y in zip(o.value, want))
                R.ob(rule, f.qualname, 'submodules() = %s' % _names(o.value), ok, 'submodules() must list every registered submodule in registration order', f.loc)
            w = fresh()
            fi = model.find_method(w.mcls, '__init__')
            blank = MObj(w, 'blank', w.mcls, initialised=False)
            outs = w.pe().paths(fi, {fi.pos_params[0]: blank})
            o = single(fi, outs, rule, 'Module.__init__')
            if o is not None:
                at = blank.attrs
                ok = at.get('_parameters') == {} and at.get('_submodules') == {} and isinstance(at.get('_parameters'), dict) and at.get('_parameters') is not at.get('_submodules') \
                    and at.get('training') is True and bool(at.get('_initialized')) is True
                R.ob(rule, fi.qualname, '__init__: %s' % {k: (v if not isinstance(v, dict) else 'dict') for k, v in at.items()}, ok,
                     'a new module starts with two empty insertion-ordered registries, in training mode, marked initialised', fi.loc)
        except Incomplete as u:
            R.incomplete_at(rule, MOD + '.submodules', str(u))

    if 'REG' in rules:
        rule = P_ + '.REG-EXCLUSIVE'
        sa = model.find_method(model.cls(MOD), '__setattr__')
        for before in ('parameter', 'submodule', 'plain', 'absent'):
            for kind in ('Module', 'Parameter', 'plain'):
                try:
                    w = fresh()
                    tgt = MObj(w, 'holder', w.mcls)
                    if before == 'parameter':
                        tgt.add_param('x', PObj('old', True))
                    elif before == 'submodule':
                        tgt.add_module('x', MObj(w, 'oldm', w.mcls))
                    elif before == 'plain':
                        tgt.attrs['x'] = 'oldplain'
                    tgt.add_param('bw', w.bw)           # registered AFTER x: a same-kind replacement must keep x in front
                    value = MObj(w, 'newm', w.mcls) if kind == 'Module' else (PObj('newp', True) if kind == 'Parameter' else 7)
                    outs = w.pe().paths(sa, dict(zip(sa.pos_params, [tgt, 'x', value])), max_paths=32)
                    o = single(sa, outs, rule, 'self.x = <%s> where x was %s' % (kind, before))
                    if o is None:
                        continue
                    in_p, in_m = 'x' in tgt.attrs['_parameters'], 'x' in tgt.attrs['_submodules']
                    want = (kind == 'Parameter', kind == 'Module')
                    order_p = list(tgt.attrs['_parameters'])
                    want_order = ['x', 'bw'] if (kind == 'Parameter' and before == 'parameter') else (['bw', 'x'] if kind == 'Parameter' else ['bw'])
                    ok = (in_p, in_m) == want and tgt.attrs.get('x') is value and order_p == want_order \
                        and (not want[0] or tgt.attrs['_parameters']['x'] is value) and (not want[1] or tgt.attrs['_submodules']['x'] is value)
                    R.ob(rule, sa.qualname, 'self.x = <%s> where x was a %s: in _parameters %s, in _submodules %s' % (kind, before, in_p, in_m), ok,
                         'after the assignment the name is registered in exactly the registry of its new kind (and in neither for a plain value) and the attribute holds the new value: '
                         'otherwise a replaced attribute stays registered (still returned by parameters() / submodules())', sa.loc)
                except Incomplete as u:
                    R.incomplete_at(rule, sa.qualname, '%s over %s: %s' % (kind, before, u))

    if 'SEQ' in rules:
        rule = P_ + '.SEQ'
        scls = model.cls(SEQ)
        try:
            for form in ('positional', 'mapping', 'empty'):
                w = fresh()
                seq = MObj(w, 'seq', scls, initialised=False)
                layers = [MObj(w, 'L%d' % i, w.mcls) for i in range(3)]
                if form == 'positional':
                    args, keys = layers, ['0', '1', '2']
                elif form == 'mapping':
                    args, keys = [{'first': layers[0], 'second': layers[1], 'third': layers[2]}], ['first', 'second', 'third']
                else:
                    args, keys, layers = [], [], []
                f, outs = w.run(seq, '__init__', args)
                o = single(f, outs, rule, 'Sequential(%s)' % form)
                if o is None:
                    continue
                reg = seq.attrs.get('_submodules', {})
                ok = list(reg.keys()) == keys and all(reg[k] is l for k, l in zip(keys, layers)) and not seq.attrs.get('_parameters')
                R.ob(rule, f.qualname, 'Sequential(%s): registry %s' % (form, list(reg.keys())), ok, 'submodules must be registered in argument / mapping order under distinct names', f.loc)
                ff, outs = w.run(seq, 'forward', [A('x')])
                o = single(ff, outs, rule, 'Sequential(%s).forward' % form)
                if o is None:
                    continue
                want = A('x')
                for l in layers:
                    want = A('%s(%s)' % (l.name, want.canon()))
                ok = isinstance(o.value, P) and o.value == want
                R.ob(rule, ff.qualname, 'Sequential(%s).forward(x) = %s' % (form, o.value.canon() if isinstance(o.value, P) else repr(o.value)), ok,
                     'forward must apply the submodules in registration order to one threaded value (identity when empty): expected %s' % want.canon(), ff.loc)
        except Incomplete as u:
            R.incomplete_at(rule, SEQ, str(u))


def zero_grad_outcome(model, qualname):
    """(ok, description) for Module.zero_grad / Optimizer.zero_grad evaluated on concrete parameter objects: zero_() is called exactly once on every
    owned parameter that requires grad, never on a frozen one, and nothing else is written"""
    w = World(model)
    if qualname.endswith('Module.zero_grad'):
        f, outs = w.run(w.root, 'zero_grad')
        params = w.params
    else:
        del WRITES[:]
        ocls = model.cls(qualname.rsplit('.', 1)[0])
        opt = MObj(w, 'opt', ocls, initialised=False)
        params = [PObj('p0', True), PObj('p1', False), PObj('p2', True)]
        opt.attrs['parameters'] = list(params)
        f = model.find_method(ocls, 'zero_grad')
        outs = w.pe().paths(f, {f.pos_params[0]: opt}, max_paths=32)
    if len(outs) != 1 or outs[0].kind not in ('fall', 'return'):
        return False, 'paths: %s' % [(o.kind, o.conds[:2]) for o in outs][:3]
    got = {p.name: p.zeroed for p in params}
    want = {p.name: (1 if p.requires_grad else 0) for p in params}
    other = sorted(set(['%s.%s' % x for x in WRITES] + (w.changes(w.before) if qualname.endswith('Module.zero_grad') else [])))
    flags = [p.name for p in params if p.flag_writes]
    return got == want and not other and not flags, 'zero_() calls %s%s%s' % (got, ', other writes %s' % other if other else '', ', requires_grad written on %s' % flags if flags else '')


def check_optimizer_ctor(model, R, P_):
    """the constructors of the optimizers evaluated on a parameter list with trainable and frozen members and symbolic hyper-parameters:
       - self.parameters holds exactly the given objects, in order (the trainable / frozen decision is taken on every step, not once at construction)
       - every per-parameter state list has one slot per given parameter
       - every hyper-parameter is stored as given: no constructor path replaces a legal value (0, False) by a default
       - the non-raising outcome does not depend on the hyper-parameters"""
    R.rule(P_ + '.CTOR', 'optimizer constructors keep the parameter list as given (all members, same order, same objects), size every state list to it and store every hyper-parameter unchanged '
                        '[constructors evaluated on trainable + frozen parameter objects with symbolic hyper-parameters]', floor=3)
    w = World(model)
    base = model.cls('synapgrad.optim.optimizers.Optimizer')
    for cls in [c for c in model.subclasses('synapgrad.optim.optimizers.Optimizer')]:
        ini = model.find_method(cls, '__init__')
        if ini is None:
            continue
        params = [PObj('p0', True), PObj('p1', False), PObj('p2', True)]
        opt = MObj(w, 'opt', cls, initialised=False)
        hyper = [p for p in ini.pos_params[2:]] + [a.arg for a in ini.node.args.kwonlyargs]
        args = {ini.pos_params[0]: opt, ini.pos_params[1]: list(params)}
        for h in hyper:
            args[h] = A(h)
        try:
            outs = w.pe(default_pred=lambda t: None).paths(ini, args, max_paths=256)
        except Incomplete as u:
            R.incomplete_at(P_ + '.CTOR', ini.qualname, str(u))
            continue
        good = [o for o in outs if o.kind in ('fall', 'return')]
        bad = []
        if not good:
            bad.append('no constructor path completes')
        # the stored state must be the same on every completing path (validation guards only raise)
        snaps = []
        for o in good:
            # re-run this path alone to read the object it built (the world objects are shared between paths): compare through the recorded stores
            st = {}
            for k, v, stmt in o.stores:
                if k.startswith('self.') or k.startswith('opt.'):
                    st[k.split('.', 1)[1]] = v
            snaps.append(st)
        for st in snaps:
            got = st.get('parameters')
            if not (isinstance(got, list) and len(got) == 3 and all(x is y for x, y in zip(got, params))):
                bad.append('self.parameters = %s' % _names(got))
            for k, v in st.items():
                if isinstance(v, list) and k != 'parameters' and len(v) != 3:
                    bad.append('state list %s has %d slots for 3 parameters' % (k, len(v)))
            for h in hyper:
                if not any(isinstance(v, P) and (v == A(h) or v.canon().startswith(h + '[')) for v in st.values()):
                    bad.append('hyper-parameter %s is not stored as given (stored: %s)' % (h, sorted(k for k in st)))
        if len(good) > 1:
            keys = [tuple(sorted((k, v.canon() if isinstance(v, P) else repr(v)) for k, v in st.items() if not isinstance(v, list))) for st in snaps]
            if len(set(keys)) > 1:
                bad.append('the stored hyper-parameters depend on a test of their values: %s' % [c for c in good[0].conds][:3])
        R.ob(P_ + '.CTOR', ini.qualname, '%s(parameters=[trainable, frozen, trainable], %s): %d completing path(s)' % (cls.qualname.split('.')[-1], ', '.join(hyper), len(good)), not bad,
             'constructor state: %s' % sorted(set(bad))[:3], ini.loc)
