"""conv_tools rules on evaluated paths (C06 / C16).  Every routine of synapgrad/conv_tools.py is partially evaluated (sa/peval.py) on a symbolic
(N, C, H, W) input with symbolic int geometry; NumPy shape functions are interpreted on shapes only (Arr = symbolic array: base, layout ops, shape).
What is compared are the resulting terms - window counts, slices, strides, pad widths, reshape targets, permutations - in polynomial normal form,
never the spelling of the source.

  OUTSIZE    every window count (helper results, loop bounds, ndindex extents, strided-view shape, allocation sizes) equals floor((L + 2p - d(k-1) - 1)/s) + 1
  EMPTY      when the window-count product is 0 every entry point raises before it builds an array
  GEOM       an int geometry argument is never subscripted before np.broadcast_to expanded it (the int form is what is passed)
  PAIR-SLICE loop variants read / accumulate the window rows i*s .. step d (k elements) and use column i*lW + j; place_windows adds window (i, j) at the same rows
  STRIDED    the strided view has shape (lH, lW, N, C, kH, kW) and the byte strides of padded[n, c, i*s0 + m*d0, j*s1 + l*d1] of a C-contiguous array
  PADCROP    every pad is ((0,0),(0,0),(p,p)...) constant with the caller's pad_value; every col2im-side routine returns the crop p : size + p of its padded buffer
  LAYOUT2D   2-D layout = transpose(1,2,0).reshape(C*kH*kW, -1); inverse reshape(C*kH*kW, -1, N).transpose(2,0,1); strided variants use the mutually inverse pairs
  PAIR-INDEX gather and np.add.at scatter use the same index triple, computed by the same helper from equal geometry, on buffers of equal padded shape
"""
import ast
from .core import norm
from .peval import PE, Opaque, Vec, p_floor
from .poly import P, as_p
from .report import Incomplete

CT = 'synapgrad.conv_tools'
A = P.atom
GEOMN = ('kernel_size', 'dilation', 'stride', 'padding', 'step')
S_ = ('slice', None, None, None)


class Arr:
    """symbolic ndarray: where it came from, which layout ops were applied, and its shape when known"""
    def __init__(self, base, ops=(), shape=None):
        self.base, self.ops, self.shape = base, tuple(ops), (tuple(shape) if shape is not None else None)
        self.text = self.loc_text = '%s%s' % (base, ''.join('.%s' % (o[0],) for o in self.ops))

    def op(self, o, shape=None):
        return Arr(self.base, self.ops + (o,), shape)

    def __eq__(self, o):
        return isinstance(o, Arr) and self.base == o.base and eq(self.ops, o.ops)

    def __hash__(self):
        return hash(self.base)

    def __repr__(self):
        return 'Arr(%s%s)' % (self.base, ''.join(' > %s%s' % (o[0], show(o[1:])) for o in self.ops))


def show(v):
    if isinstance(v, P):
        return v.canon()
    if isinstance(v, (list, tuple)):
        return '(' + ', '.join(show(x) for x in v) + ')'
    return repr(v)


def eq(a, b):
    """structural equality of evaluated values with polynomial comparison at the leaves"""
    if isinstance(a, (list, tuple)) and isinstance(b, (list, tuple)):
        return len(a) == len(b) and all(eq(x, y) for x, y in zip(a, b))
    if isinstance(a, (int, P)) and isinstance(b, (int, P)) and not isinstance(a, bool) and not isinstance(b, bool):
        return as_p(a) == as_p(b)
    if isinstance(a, Arr) or isinstance(b, Arr):
        return isinstance(a, Arr) and isinstance(b, Arr) and a.base == b.base and eq(a.ops, b.ops)
    return a == b


def arr(v, pe=None):
    if isinstance(v, Arr):
        return v
    if isinstance(v, P) and len(v.t) == 1:
        (m, c), = v.t.items()
        if c == 1 and len(m) == 1 and m[0][1] == 1:
            nm = m[0][0]
            shp = pe.atoms.get(nm + '.shape') if pe is not None else None
            return Arr(nm, (), shp if isinstance(shp, tuple) else None)
    return Arr(getattr(v, 'text', repr(v)))


def ref(L, p, d, k, s):
    return p_floor((L + 2 * p - d * (k - 1) - 1) / s) + 1


class Frame:
    """one evaluation of one routine; per-path observations are in Outcome.user"""
    def __init__(self, model, fname, args, atoms=None, preds=None, empty=False, Lref=None, contiguous=True):
        self.model, self.f = model, model.func(fname if '.' in fname else CT + '.' + fname)
        self.empty, self.Lref = empty, Lref
        me = self

        def U(pe, k):
            return pe.user.setdefault(k, [])

        def call_hook(pe, name, e, args, kw, env, func, depth):
            n = name or ''
            if n == 'numpy.transpose' and len(args) == 2 and isinstance(args[1], (tuple, list)):
                return arr(args[0], pe).op(('transpose', tuple(args[1])))
            if n == 'numpy.reshape' and len(args) >= 2:
                shp = tuple(args[1]) if isinstance(args[1], (tuple, list)) else tuple(args[1:])
                known = all(isinstance(x, (int, P)) and not (isinstance(x, int) and x < 0) for x in shp)
                return arr(args[0], pe).op(('reshape', shp), shp if known else None)
            if n == 'numpy.moveaxis' and len(args) == 3:
                return arr(args[0], pe).op(('moveaxis', args[1], args[2]))
            if n == 'numpy.ascontiguousarray' and args:
                a0 = arr(args[0], pe)
                return Arr(a0.base, a0.ops + (('contiguous',),), a0.shape)
            if n == 'numpy.pad' and len(args) >= 2:
                a0 = arr(args[0], pe)
                widths = args[1]
                shp = None
                if a0.shape is not None and isinstance(widths, (tuple, list)) and len(widths) == len(a0.shape) and all(isinstance(w, (tuple, list)) and len(w) == 2 for w in widths):
                    shp = tuple(as_p(s_) + as_p(w[0]) + as_p(w[1]) for s_, w in zip(a0.shape, widths))
                U(pe, 'pads').append((func.name, a0, widths, kw))
                return Arr(a0.base, a0.ops + (('pad',),), shp)
            if n in ('numpy.zeros', 'numpy.empty', 'numpy.ones', 'numpy.full', 'numpy.zeros_like') and args:
                U(pe, 'allocs').append((func.name, n, args[0]))
                return Arr(n.split('.')[-1], (), args[0] if isinstance(args[0], (tuple, list)) else None)
            if n.endswith('as_strided') and args:
                U(pe, 'allocs').append((func.name, 'as_strided', None))
                shp = kw.get('shape', args[1] if len(args) > 1 else None)
                U(pe, 'strided').append((func.name, arr(args[0], pe), shp, kw.get('strides', args[2] if len(args) > 2 else None), kw))
                return Arr('windows', (), shp if isinstance(shp, (tuple, list)) else None)
            if n in ('numpy.repeat', 'numpy.tile', 'numpy.arange'):
                U(pe, 'allocs').append((func.name, n, None))
                return NotImplemented
            if n in ('numpy.max', 'numpy.amax', 'numpy.mean', 'numpy.min', 'numpy.amin', 'numpy.sum') and args and isinstance(args[0], (Arr, P)):
                a0 = arr(args[0], pe)
                ax = kw.get('axis', args[1] if len(args) > 1 else None)
                U(pe, 'reducers').append((func.name, n.split('.')[-1].replace('amax', 'max').replace('amin', 'min'), a0, ax, sorted(k for k in kw if k != 'axis')))
                return a0.op(('reduce', n.split('.')[-1], ax))
            if n == 'numpy.add.at' and len(args) == 3:
                U(pe, 'scatters').append((func.name, args[0], args[1], args[2]))
                return None
            if name is None and isinstance(e.func, ast.Attribute) and e.func.attr == 'ravel':
                return arr(pe.expr(e.func.value, env, func, depth), pe).op(('ravel',))
            return NotImplemented

        def attr_hook(pe, e, key, env, func, depth):
            if isinstance(e, ast.Attribute):
                v = pe.expr(e.value, env, func, depth)
                if e.attr == 'T':
                    return arr(v, pe).op(('T',))
                if e.attr == 'shape' and isinstance(v, Arr) and v.shape is not None:
                    return tuple(v.shape)
            return NotImplemented

        def sub_hook(pe, e, base, idx):
            if isinstance(base, Arr) or (isinstance(base, P) and arr(base, pe).base in ('a', 'windows', 'x', 'cols')):
                return arr(base, pe).op(('index', idx))
            return NotImplemented

        def loop_hook(pe, s, env):
            it = s.iter
            loops = U(pe, 'loops')
            if isinstance(it, ast.Call) and norm(it.func) == 'range' and isinstance(s.target, ast.Name) and len(it.args) == 1:
                bound = pe.expr(it.args[0], env, me.f, 0)
                if isinstance(bound, int):
                    return False
                env[s.target.id] = A('i%d' % len(loops))
                loops.append(('range', bound))
                return True
            if isinstance(it, ast.Call) and norm(it.func) in ('np.ndindex', 'numpy.ndindex') and isinstance(s.target, ast.Name) and len(it.args) == 1:
                ext = pe.expr(it.args[0], env, me.f, 0)
                if not isinstance(ext, (tuple, list)):
                    ext = (ext,)
                env[s.target.id] = tuple(A('i%d' % (len(loops) + k)) for k in range(len(ext)))
                for b in ext:
                    loops.append(('ndindex', b))
                return True
            return False

        def compare_hook(pe, op, a, b):
            # emptiness test of the window-count product: decided by the scenario (L == 0, or L >= 2)
            if me.Lref is not None and isinstance(a, (P, int)) and not isinstance(a, bool) and as_p(a) == me.Lref and isinstance(b, int) and not isinstance(b, bool) and b in (0, 1):
                U(pe, 'empties').append((type(op).__name__, b))
                nm = type(op).__name__
                if me.empty:
                    return {'LtE': 0 <= b, 'Lt': 0 < b, 'Eq': 0 == b, 'GtE': 0 >= b, 'Gt': 0 > b, 'NotEq': 0 != b}[nm]
                return {'LtE': False, 'Lt': False, 'Eq': False, 'GtE': True, 'Gt': True, 'NotEq': True}[nm]
            return NotImplemented

        def default_pred(t):
            if 'flags' in t or 'contiguous' in t.lower():
                neg = t.startswith('not ')
                return contiguous != neg if ('C_CONTIGUOUS' in t or 'c_contiguous' in t) else None
            return None
        self.pe = PE(model, atoms=atoms or {}, preds=preds or {}, call_hook=call_hook, attr_hook=attr_hook, loop_hook=loop_hook, compare_hook=compare_hook,
                     default_pred=default_pred, sub_hook=sub_hook, atoms_not_none=True, max_depth=5)
        self.outs = self.pe.paths(self.f, args)
        self.label = '%s%s' % (fname, ' [L = 0]' if empty else '')

    def returns(self):
        return [o for o in self.outs if o.kind == 'return']


def geom_args(f):
    return {p: A(p) for p in f.params if p in GEOMN}


NCHW = (A('N'), A('C'), A('H'), A('W'))
NCW = (A('N'), A('C'), A('W'))


def G(stride='stride'):
    """geometry atoms after broadcast_to: k, d, s, p per axis"""
    return ([A('kernel_size[%d]' % i) for i in (0, 1)], [A('dilation[%d]' % i) for i in (0, 1)], [A('%s[%d]' % (stride, i)) for i in (0, 1)], [A('padding[%d]' % i) for i in (0, 1)])


def counts(stride='stride', dims=2):
    k, d, s, p = G(stride)
    if dims == 1:
        return (ref(A('W'), p[0], d[0], k[0], s[0]),)
    return (ref(A('H'), p[0], d[0], k[0], s[0]), ref(A('W'), p[1], d[1], k[1], s[1]))


def window_ok(sl, start, count, step):
    """slice selects start, start + step, ..., start + (count-1)*step: the end is one of the two exact forms (last + 1, or start + count*step)"""
    if not (isinstance(sl, tuple) and len(sl) == 4 and sl[0] == 'slice') or sl[1] is None or sl[2] is None:
        return False
    st = sl[3] if sl[3] is not None else 1
    if not (eq(sl[1], start) and eq(st, step)):
        return False
    span = as_p(sl[2]) - as_p(start)
    return span == as_p(step) * (as_p(count) - 1) + 1 or span == as_p(step) * as_p(count)


def loopvars(o):
    return [A('i%d' % k) for k in range(len(o.user.get('loops', [])))]


def check_conv_pe(model, R, P_):
    R.rule(P_ + '.OUTSIZE', 'every window count (helper results, loop bounds, ndindex extents, strided-view shape, allocation sizes) equals floor((L + 2p - d(k-1) - 1)/s) + 1 as a term', floor=10)
    R.rule(P_ + '.EMPTY', 'with a window-count product of 0 every entry point raises before it builds an array', floor=4)
    R.rule(P_ + '.GEOM', 'an int geometry argument is expanded by np.broadcast_to before it is subscripted (every routine evaluated with the int form)', floor=8)
    R.rule(P_ + '.PADCROP', 'every pad is ((0,0),(0,0),(p,p)..) constant with the caller\'s pad_value (crops: see the col2im-side obligations)', floor=4)
    R.rule(P_ + '.STRIDED', 'the strided view has shape (counts..., N, C, k...) and the byte strides of padded[n, c, i*s + m*d, ...] of a C-contiguous array (made contiguous when the input is not)', floor=4)
    mf = lambda n: model.func(CT + '.' + n)
    frames = {}

    def frame(key, *a, **k):
        try:
            frames[key] = Frame(model, *a, **k)
        except Incomplete as u:
            R.incomplete_at(P_ + '.OUTSIZE', CT + '.' + a[0], 'path evaluation (%s): %s' % (key, u))
            frames[key] = None
        return frames[key]

    # ---------------------------------------------------------------- helpers
    f = mf('get_conv1d_output_size')
    fr = frame('size1d', 'get_conv1d_output_size', {p: A(p) for p in f.params})
    if fr:
        want = ref(A('input_length'), A('padding'), A('dilation'), A('kernel_size'), A('stride'))
        rs = fr.returns()
        R.ob(P_ + '.OUTSIZE', f.qualname, 'returns %s' % [show(o.value) for o in fr.outs][:2], len(fr.outs) == 1 and len(rs) == 1 and isinstance(rs[0].value, (P, int)) and eq(rs[0].value, want),
             'documented output length: %s' % want.canon(), f.loc)
    f = mf('get_conv2d_output_size')
    fr = frame('size2d', 'get_conv2d_output_size', dict(geom_args(f), shape=NCHW))
    if fr:
        rs = fr.returns()
        R.ob(P_ + '.OUTSIZE', f.qualname, 'returns %s' % [show(o.value)[:150] for o in fr.outs][:2], len(fr.outs) == 1 and len(rs) == 1 and isinstance(rs[0].value, (tuple, list)) and eq(tuple(rs[0].value), counts()),
             'documented output size per axis: %s' % show(counts()), f.loc)
        _geompe(R, P_, fr)
    # ---------------------------------------------------------------- extract_windows (strided view), 2-D and 1-D, contiguous or not
    f = mf('extract_windows')
    for dims, shape in ((2, NCHW), (1, NCW)):
        cn = counts('step', dims)
        L = cn[0] * cn[1] if dims == 2 else cn[0]
        k, d, s, p = G('step')
        for contig in (True, False):
            fr = frame(('ew', dims, contig), 'extract_windows', dict(geom_args(f), a=A('a'), pad_value=A('pad_value')), atoms={'a.shape': shape, 'len(a.shape)': len(shape)}, Lref=L, contiguous=contig)
            if not fr:
                continue
            tag = '%d-D%s' % (dims, '' if contig else ', non-contiguous input')
            rs = fr.returns()
            st = [x for o in rs for x in o.user.get('strided', [])]
            if len(rs) != 1 or len(fr.outs) != 1 or len(st) != 1:
                R.ob(P_ + '.STRIDED', f.qualname, '[%s] one as_strided construction' % tag, False, 'expected one returning path with one as_strided call, got %s paths / %d calls' % ([o.kind for o in fr.outs], len(st)), f.loc)
                continue
            _, base, shp, strides, kw = st[0]
            sp = shape[2:]
            padded = tuple(as_p(x) + 2 * p[i] for i, x in enumerate(sp))
            want_shape = tuple(cn) + tuple(shape[:2]) + tuple(k[:dims])
            R.ob(P_ + '.OUTSIZE', f.qualname, '[%s] view shape %s' % (tag, show(shp)[:200]), isinstance(shp, (tuple, list)) and eq(tuple(shp), want_shape),
                 'the sliding-window view has shape (window counts..., N, C, kernel...) = %s' % show(want_shape)[:300], f.loc)
            # byte strides for element size b of a C-contiguous (N, C, padded...) array
            ok, bs = False, None
            for bname in ('%s.strides[-1]' % base.loc_text, '%s.itemsize' % base.loc_text, '%s.dtype.itemsize' % base.loc_text, 'a.itemsize', 'a.dtype.itemsize'):
                b = A(bname)
                inner = [b]
                for x in reversed(padded[1:] if dims == 2 else ()):
                    inner.insert(0, inner[0] * x)          # strides of the spatial axes (row stride, element stride)
                sp_str = inner                                # [Wp*b, b] for 2-D ; [b] for 1-D
                plane = sp_str[0] * padded[0]
                want_str = tuple(s[i] * sp_str[i] for i in range(dims)) + (shape[1] * plane, plane) + tuple(d[i] * sp_str[i] for i in range(dims))
                if isinstance(strides, (tuple, list)) and eq(tuple(strides), want_str):
                    ok, bs = True, bname
            R.ob(P_ + '.STRIDED', f.qualname, '[%s] strides %s' % (tag, show(strides)[:200]), ok,
                 'element (i.., n, c, m..) of the view must address padded[n, c, i*s + m*d, ..]: strides (s*row, .., C*plane, plane, d*row, ..) x itemsize of the padded C-contiguous array', f.loc)
            opn = [o_[0] for o_ in base.ops]
            R.ob(P_ + '.STRIDED', f.qualname, '[%s] strided array = %r' % (tag, base), opn[-1:] == ['pad'] and base.base == 'a' and (contig or 'contiguous' in opn) and kw.get('writeable', True) is not None,
                 'hand-computed row-major strides are only valid for a C-contiguous array: a non-contiguous input must go through np.ascontiguousarray (np.pad keeps Fortran order)', f.loc)
            _geompe(R, P_, fr, tag)
            _pads(R, P_, fr, 'extract_windows', dims, tag)
        fe = frame(('ew-empty', dims), 'extract_windows', dict(geom_args(f), a=A('a'), pad_value=A('pad_value')), atoms={'a.shape': shape, 'len(a.shape)': len(shape)}, Lref=L, empty=True)
        if fe:
            _empty(R, P_, fe, 'extract_windows', '%d-D' % dims)
    # ---------------------------------------------------------------- index variant
    L2 = counts()[0] * counts()[1]
    k, d, s, p = G()
    f = mf('get_im2col_indices')
    fr = frame('idx', 'get_im2col_indices', dict(geom_args(f), a_shape=NCHW), Lref=L2)
    if fr:
        emp = [x for o in fr.outs for x in o.user.get('empties', [])]
        R.ob(P_ + '.OUTSIZE', f.qualname, 'emptiness test on lH*lW (%s)' % emp[:1], bool(emp) and len(fr.returns()) == 1, 'the index helper must count windows with the shared formula (its L is compared with 0)', f.loc)
        _geompe(R, P_, fr)
    fe = frame('idx-empty', 'get_im2col_indices', dict(geom_args(f), a_shape=NCHW), Lref=L2, empty=True)
    if fe:
        _empty(R, P_, fe, 'get_im2col_indices', '')
    # ---------------------------------------------------------------- loop variants
    for nm, args, atoms in (('im2col_v2', dict(a=A('a'), pad_value=A('pad_value')), {'a.shape': NCHW, 'len(a.shape)': 4}), ('col2im_v2', dict(a=A('a'), output_shape=NCHW), {'len(a.shape)': 2})):
        f = mf(nm)
        fr = frame(nm, nm, dict(geom_args(f), **args), atoms=atoms, Lref=L2, preds={'as_unfold': False})
        if not fr:
            continue
        rs = fr.returns()
        bounds = sorted({show(tuple(b for _, b in o.user.get('loops', []))) for o in rs})
        ok = bool(rs) and len(rs) == len(fr.outs) and all(eq(tuple(b for _, b in o.user.get('loops', [])), counts()) for o in rs)
        R.ob(P_ + '.OUTSIZE', f.qualname, 'loop bounds %s' % bounds[0][:200] if bounds else 'no loops', ok, 'the window loops must run over range(lH) x range(lW) with the shared output-size formula: %s' % show(counts())[:300], f.loc)
        _geompe(R, P_, fr)
    f = mf('im2col_v2')
    fe = frame('v2-empty', 'im2col_v2', dict(geom_args(f), a=A('a'), pad_value=A('pad_value')), atoms={'a.shape': NCHW, 'len(a.shape)': 4}, Lref=L2, empty=True, preds={'as_unfold': False})
    if fe:
        _empty(R, P_, fe, 'im2col_v2', '')
    # ---------------------------------------------------------------- place_windows
    f = mf('place_windows')
    for dims, shape, nd in ((2, NCHW, 6), (1, NCW, 4)):
        fr = frame(('pw', dims), 'place_windows', dict(geom_args(f), windows=A('windows'), out_shape=shape), atoms={'len(windows.shape)': nd})
        if not fr:
            continue
        rs = fr.returns()
        cn = counts('step', dims)
        ok = bool(rs) and len(rs) == len(fr.outs) and all(eq(tuple(b for _, b in o.user.get('loops', [])), cn) for o in rs)
        R.ob(P_ + '.OUTSIZE', f.qualname, '[%d-D] ndindex extents %s' % (dims, sorted({show(tuple(b for _, b in o.user.get('loops', [])))[:160] for o in rs})[:1]), ok,
             'window positions must be enumerated over the shared output-size formula: %s' % show(cn)[:300], f.loc)
        _geompe(R, P_, fr, '%d-D' % dims)
    # ---------------------------------------------------------------- fast variants: window counts of the reshape
    f = mf('col2im_fast')
    fr = frame('c2f', 'col2im_fast', dict(geom_args(f), a=A('a'), output_shape=NCHW), atoms={'len(a.shape)': 2})
    if fr:
        _geompe(R, P_, fr)
    f = mf('im2col_fast')
    fr = frame('i2f', 'im2col_fast', dict(geom_args(f), a=A('a'), pad_value=A('pad_value')), atoms={'a.shape': NCHW, 'len(a.shape)': 4}, Lref=L2, preds={'as_unfold': False})
    if fr:
        _geompe(R, P_, fr)
    for nm in ('im2col', 'col2im'):
        f = mf(nm)
        a = dict(geom_args(f), a=A('a'), col_indices=None, return_indices=False)
        if nm == 'im2col':
            a.update(pad_value=A('pad_value'), as_unfold=False)
            fr = frame(nm, nm, a, atoms={'a.shape': NCHW, 'len(a.shape)': 4}, Lref=L2)
        else:
            a.update(output_shape=NCHW)
            fr = frame(nm, nm, a, atoms={'len(a.shape)': 2}, Lref=L2)
        if fr:
            _geompe(R, P_, fr)
    return frames


def _geompe(R, P_, fr, tag=''):
    """no subscript of a bare int geometry argument on any path"""
    bad = sorted({'%s[%s]' % (b, show(i)) for o in fr.outs for b, i, n, bv in o.subloads if b in GEOMN or b == 'output_size'})
    R.ob(P_ + '.GEOM', fr.f.qualname, '%sint-form geometry subscripted before broadcast_to: %s' % ('[%s] ' % tag if tag else '', bad or 'never'), not bad,
         'the documented int form of a geometry argument is subscripted (%s) without np.broadcast_to on some path' % bad, fr.f.loc)


def _empty(R, P_, fr, entry, tag):
    kinds = [o.kind for o in fr.outs]
    allocs = sorted({a[1] for o in fr.outs for a in o.user.get('allocs', [])})
    emp = [x for o in fr.outs for x in o.user.get('empties', [])]
    ok = bool(fr.outs) and all(k == 'raise' for k in kinds) and not allocs and bool(emp)
    R.ob(P_ + '.EMPTY', fr.f.qualname, '%swith L = 0: paths end in %s, arrays built first: %s' % ('[%s] ' % tag if tag else '', sorted(set(kinds)), allocs or 'none'), ok,
         'a geometry with no window must raise before any array is built (emptiness test seen: %s)' % emp[:2], fr.f.loc)


def _pads(R, P_, fr, fname, dims, tag=''):
    k, d, s, p = G()
    want = ((0, 0), (0, 0)) + tuple((p[i], p[i]) for i in range(dims))
    for o in fr.returns():
        pads = [x for x in o.user.get('pads', []) if x[0] == fname]
        ok = len(pads) == 1
        if ok:
            _, a0, widths, kw = pads[0]
            ok = eq(widths, want) and kw.get('mode', 'constant') == 'constant' and isinstance(kw.get('constant_values'), P) and kw['constant_values'] == A('pad_value') and a0.base == 'a' \
                and not [o_ for o_ in a0.ops if o_[0] not in ('contiguous',)]
        R.ob(P_ + '.PADCROP', fr.f.qualname, '%spad widths %s, %s' % ('[%s] ' % tag if tag else '', show(pads[0][2]) if pads else None, {k_: show(v) for k_, v in (pads[0][3] if pads else {}).items()}), ok,
             'symmetric constant padding (p, p) of the spatial axes only, filled with the caller\'s pad_value', fr.f.loc)


def check_pairs_pe(model, R, P_, frames):
    R.rule(P_ + '.PAIR-INDEX', 'im2col gathers and col2im scatter-adds (np.add.at) with the same index triple from the same helper called with equal geometry, on buffers of the padded shape', floor=3)
    R.rule(P_ + '.PAIR-SLICE', 'loop variants address window (i, j) as rows i*s .. step d (k elements) and column i*lW + j; place_windows adds window (i, j) at the same rows', floor=4)
    R.rule(P_ + '.PAIR-FAST', 'im2col_fast / col2im_fast hand the same geometry to extract_windows / place_windows and use mutually inverse reshapes / axis moves', floor=4)
    R.rule(P_ + '.PADCROP', 'every pad is ((0,0),(0,0),(p,p)..) constant with pad_value; every col2im-side routine returns the crop p : size + p of its (size + 2p) zero buffer', floor=8)
    R.rule(P_ + '.LAYOUT2D', 'the 2-D column layout is transpose(1,2,0).reshape(C*kH*kW, -1) of the unfold layout and is inverted by reshape(C*kH*kW, -1, N).transpose(2,0,1)', floor=4)
    mf = lambda n: model.func(CT + '.' + n)
    k, d, s, p = G()
    N, C, H, W = NCHW
    CKK = C * k[0] * k[1]
    lH, lW = counts()
    padded_shape = (N, C, H + 2 * p[0], W + 2 * p[1])
    crop = (S_, S_, ('slice', p[0], H + p[0], None), ('slice', p[1], W + p[1], None))

    def crop_ok(o, dims=2, names=('padding',)):
        """returned array = crop p : size + p of a zeros buffer of the padded shape, or that buffer itself on a path where every p is 0"""
        v = o.value
        if not isinstance(v, Arr) or v.base != 'zeros':
            return False, 'returns %r' % (v,)
        zs = [a for a in o.user.get('allocs', []) if a[1] == 'numpy.zeros']
        zshape_ok = any(isinstance(a[2], (tuple, list)) and eq(tuple(a[2]), padded_shape if dims == 2 else (N, C, W + 2 * p[0])) for a in zs)
        if not zshape_ok:
            return False, 'buffer shape %s' % [show(a[2]) for a in zs]
        false_conds = {t for t, b in o.conds if not b}
        true_conds = {t for t, b in o.conds if b}
        if not v.ops:
            zero = all(('padding[%d] > 0' % i in false_conds) or ('padding[%d]' % i in false_conds) or ('padding[%d] != 0' % i in false_conds) or ('padding[%d] == 0' % i in true_conds) for i in range(dims)) \
                or 'sum(padding)' in false_conds or 'any(padding)' in false_conds
            return zero, 'uncropped buffer returned under %s' % sorted(o.conds)[-3:]
        if len(v.ops) != 1 or v.ops[0][0] != 'index':
            return False, 'returns %r' % (v,)
        idx = v.ops[0][1]
        sizes = (H, W) if dims == 2 else (W,)
        comp = [x for x in idx if x is not Ellipsis and x != S_]
        lead = [x for x in idx if x is Ellipsis or x == S_]
        if len(comp) != dims or len(lead) not in (1, 2):
            return False, 'crop %s' % show(idx)
        for i, sl in enumerate(comp):
            if not (isinstance(sl, tuple) and sl and sl[0] == 'slice' and sl[3] is None and eq(sl[1], p[i])):
                return False, 'crop %s' % show(idx)
            hi = sl[2]
            pz = ('padding[%d]' % i in false_conds) or ('padding[%d] > 0' % i in false_conds)
            pnz = ('padding[%d]' % i in true_conds) or ('padding[%d] > 0' % i in true_conds)
            if hi is None:
                if not pz:
                    return False, 'open upper bound although p may be non-zero: %s' % show(idx)
            elif isinstance(hi, (P, int)) and eq(hi, sizes[i] + p[i]):
                pass
            elif isinstance(hi, (P, int)) and eq(hi, -p[i]) and pnz:
                pass
            else:
                return False, 'crop %s' % show(idx)
        return True, show(idx)

    # ---------------------------------------------------------------- PADCROP
    for key, fname in (('im2col', 'im2col'), ('im2col_v2', 'im2col_v2')):
        fr = frames.get(key)
        if fr:
            _pads(R, P_, fr, fname, 2)
    for key, dims in (('col2im', 2), ('col2im_v2', 2), (('pw', 2), 2), (('pw', 1), 1)):
        fr = frames.get(key)
        if not fr:
            continue
        res = [crop_ok(o, dims) for o in fr.returns()]
        bad = [w for ok, w in res if not ok]
        R.ob(P_ + '.PADCROP', fr.f.qualname, '%scrop on %d paths: %s' % ('[%d-D] ' % dims if isinstance(key, tuple) else '', len(res), sorted({w for ok, w in res if ok})[:1]), bool(res) and not bad and len(res) == len(fr.outs),
             'the result must be the crop p : size + p (per spatial axis) of the zero buffer allocated with size + 2p: %s' % bad[:2], fr.f.loc)
    # ---------------------------------------------------------------- PAIR-INDEX
    fi, fc = frames.get('im2col'), frames.get('col2im')
    if fi and fc:
        ri, rc = fi.returns(), fc.returns()
        gi = [v for o in ri for v in [o.value] if isinstance(v, Arr)]
        hc_i = [c for o in ri for c in o.calls if c[0] == CT + '.get_im2col_indices']
        hc_c = [c for o in rc for c in o.calls if c[0] == CT + '.get_im2col_indices']
        helper = mf('get_im2col_indices')

        def bound(c):
            b = dict(zip(helper.pos_params, c[1]))
            b.update(c[2])
            return b
        ok = bool(hc_i) and bool(hc_c) and all(set(bound(x)) == set(bound(hc_i[0])) and all(eq(bound(x)[kk], bound(hc_i[0])[kk]) for kk in bound(x)) for x in hc_i + hc_c)
        R.ob(P_ + '.PAIR-INDEX', fc.f.qualname, 'index helper arguments %s' % {kk: show(v) for kk, v in (bound(hc_i[0]) if hc_i else {}).items()}, ok,
             'gather and scatter must use the index set of the same geometry (same un-padded shape and the same argument in every role)', fc.f.loc)
        sc = [x for o in rc for x in o.user.get('scatters', [])]
        gidx = None
        if gi:
            ix = [o_ for o_ in gi[0].ops if o_[0] == 'index']
            gidx = ix[0][1] if ix else None
        ok = len(ri) == 1 and gidx is not None and bool(sc) and all(eq(x[2], gidx) for x in sc) and isinstance(gidx, tuple) and len(gidx) == 4 and gidx[0] == S_ \
            and all(isinstance(x[1], Arr) and x[1].base == 'zeros' and not x[1].ops for x in sc) and len({len(o.user.get('scatters', [])) for o in rc}) == 1 and len(rc[0].user.get('scatters', [])) == 1
        R.ob(P_ + '.PAIR-INDEX', fc.f.qualname, 'gather index = scatter index (%d scatter paths)' % len(sc), ok, 'np.add.at must accumulate into the zero buffer at exactly the (:, k, i, j) positions the gather read', fc.f.loc)
        gbase = gi[0] if gi else None
        ok = gbase is not None and gbase.base == 'a' and [o_[0] for o_ in gbase.ops][:2] == ['pad', 'index']
        zs = [a for o in rc for a in o.user.get('allocs', []) if a[1] == 'numpy.zeros']
        ok = ok and bool(zs) and all(isinstance(a[2], (tuple, list)) and eq(tuple(a[2]), padded_shape) for a in zs)
        R.ob(P_ + '.PAIR-INDEX', fc.f.qualname, 'gather from the padded input / scatter into zeros%s' % show(padded_shape), ok, 'both sides index an array of the padded shape (N, C, H + 2p, W + 2p)', fc.f.loc)
        # LAYOUT2D
        want_i = [('transpose', (1, 2, 0)), ('reshape', (CKK, -1))]
        ok = bool(gi) and eq(list(gi[0].ops[2:]), want_i)
        R.ob(P_ + '.LAYOUT2D', fi.f.qualname, '2-D layout %r' % (gi[0] if gi else None), ok, 'the (C*kH*kW, N*L) matrix is transpose(1, 2, 0).reshape(C*kH*kW, -1) of the gathered (N, C*kH*kW, L) block', fi.f.loc)
        fu = _try(R, P_ + '.LAYOUT2D', lambda: Frame(model, 'im2col', dict(geom_args(fi.f), a=A('a'), col_indices=None, return_indices=False, pad_value=A('pad_value'), as_unfold=True), atoms={'a.shape': NCHW, 'len(a.shape)': 4}, Lref=lH * lW))
        if fu:
            vu = [o.value for o in fu.returns()]
            R.ob(P_ + '.LAYOUT2D', fi.f.qualname, 'unfold layout %r' % (vu[:1],), len(vu) == 1 and isinstance(vu[0], Arr) and [o_[0] for o_ in vu[0].ops] == ['pad', 'index'], 'with as_unfold the gathered block is returned as is', fi.f.loc)
        want_c = [('reshape', (CKK, -1, N)), ('transpose', (2, 0, 1))]
        ok = bool(sc) and all(isinstance(x[3], Arr) and x[3].base == 'a' and eq(list(x[3].ops), want_c) for x in sc)
        R.ob(P_ + '.LAYOUT2D', fc.f.qualname, 'inverse 2-D layout %r' % (sc[0][3] if sc else None), ok, 'the column matrix is brought back by reshape(C*kH*kW, -1, N).transpose(2, 0, 1) (inverse of transpose(1, 2, 0))', fc.f.loc)
        ff = _try(R, P_ + '.LAYOUT2D', lambda: Frame(model, 'col2im', dict(geom_args(fc.f), a=A('a'), col_indices=None, return_indices=False, output_shape=NCHW), atoms={'len(a.shape)': 3, 'len(output_shape)': 4}, Lref=lH * lW))
        if ff:
            sc3 = [x for o in ff.returns() for x in o.user.get('scatters', [])]
            R.ob(P_ + '.LAYOUT2D', fc.f.qualname, 'fold mode scatters %r' % (sc3[0][3] if sc3 else None), bool(sc3) and all(isinstance(x[3], (Arr, P)) and arr(x[3]).base == 'a' and not arr(x[3]).ops for x in sc3),
                 'a 3-D (N, C*kH*kW, L) input is already in the gathered layout', fc.f.loc)
    # ---------------------------------------------------------------- PAIR-SLICE (loop variants)
    fi, fc = frames.get('im2col_v2'), frames.get('col2im_v2')
    for fr in (fi, fc):
        if not fr:
            continue
        is_im = fr is fi
        bad = []
        n = 0
        for o in fr.returns():
            lv = loopvars(o)
            if len(lv) != 2:
                bad.append('loops %d' % len(lv))
                continue
            i, j = lv
            col = i * lW + j
            wins = [(b, ix, bv) for b, ix, nd, bv in o.subloads if isinstance(ix, tuple) and len(ix) == 4 and all(isinstance(x, tuple) for x in ix) and ix[2][1] is not None and _mentions(ix[2][1], i)]
            if is_im:
                ok = bool(wins) and all(isinstance(bv, Arr) and bv.base == 'a' and [o_[0] for o_ in bv.ops] == ['pad'] and ix[:2] == (S_, S_) and window_ok(ix[2], i * s[0], k[0], d[0]) and window_ok(ix[3], j * s[1], k[1], d[1]) for b, ix, bv in wins)
                st = [(b, ix) for b, ix, v, nd in o.substores if isinstance(ix, tuple)]
                ok = ok and len(st) == 1 and st[0][0] == 'zeros' and len(st[0][1]) == 3 and st[0][1][:2] == (S_, S_) and eq(st[0][1][2], col)
                zs = [a for a in o.user.get('allocs', []) if a[1] == 'numpy.zeros']
                ok = ok and len(zs) == 1 and isinstance(zs[0][2], (tuple, list)) and eq(tuple(zs[0][2]), (N, CKK, lH * lW))
            else:
                ok = bool(wins) and all(isinstance(bv, Arr) and bv.base == 'zeros' and not bv.ops and ix[:2] == (S_, S_) and window_ok(ix[2], i * s[0], k[0], d[0]) and window_ok(ix[3], j * s[1], k[1], d[1]) for b, ix, bv in wins)
                st = [(b, ix) for b, ix, v, nd in o.substores if isinstance(ix, tuple)]
                ok = ok and len(st) == 1 and st[0][0] == 'zeros' and bool(wins) and eq(st[0][1], wins[0][1])
                src = [(ix, bv) for b, ix, nd, bv in o.subloads if isinstance(bv, Arr) and bv.base == 'a']
                ok = ok and len(src) == 1 and len(src[0][0]) == 4 and src[0][0][:3] == (S_, S_, S_) and eq(src[0][0][3], col) \
                    and eq(list(src[0][1].ops), [('reshape', (CKK, -1, N)), ('transpose', (2, 0, 1)), ('reshape', (N, C, k[0] * k[1], lH * lW))])
            n += 1
            if not ok:
                bad.append('window %s / stores %s' % ([show(w[1]) for w in wins][:1], [show(x[1]) for x in st][:1]))
        R.ob(P_ + '.PAIR-SLICE', fr.f.qualname, 'window (i, j) = rows i*s .. step d (k elements), column i*lW + j on %d path(s)' % n, n > 0 and not bad,
             'window i, j must cover rows i*s, i*s + d, .., i*s + (k-1)d of the padded array and use column i*lW + j (row-major block order): %s' % bad[:1], fr.f.loc)
        if is_im:
            vs = [o.value for o in fr.returns()]
            ok = bool(vs) and all(isinstance(v, Arr) and v.base == 'zeros' and eq(list(v.ops), [('transpose', (1, 2, 0)), ('reshape', (CKK, -1))]) for v in vs)
            R.ob(P_ + '.LAYOUT2D', fr.f.qualname, '2-D layout %r' % (vs[:1],), ok, 'the (C*kH*kW, N*L) matrix is transpose(1, 2, 0).reshape(C*kH*kW, -1) of the (N, C*kH*kW, L) block', fr.f.loc)
    # place_windows: accumulating store of window (i, j) at rows i*s .. step d
    for dims in (2, 1):
        fr = frames.get(('pw', dims))
        if not fr:
            continue
        kk, dd, ss, pp = G('step')
        bad = []
        for o in fr.returns():
            lv = loopvars(o)
            st = [(b, ix, v) for b, ix, v, nd in o.substores if isinstance(ix, tuple)]
            ok = len(lv) == dims and len(st) == 1 and st[0][0] == 'zeros' and st[0][1][0] is Ellipsis and len(st[0][1]) == dims + 1 and all(window_ok(st[0][1][1 + a], lv[a] * ss[a], kk[a], dd[a]) for a in range(dims))
            src = [(ix, bv) for b, ix, nd, bv in o.subloads if isinstance(bv, Arr) and bv.base == 'windows']
            ok = ok and len(src) == 1 and eq(list(src[0][1].ops), [('moveaxis', dims, 0)]) and len(src[0][0]) == dims + 2 and src[0][0][0] == S_ and src[0][0][-1] is Ellipsis and eq(tuple(src[0][0][1:-1]), tuple(lv))
            back = [(ix, bv) for b, ix, nd, bv in o.subloads if isinstance(bv, Arr) and bv.base == 'zeros' and isinstance(ix, tuple) and st and eq(ix, st[0][1])]
            ok = ok and len(back) == 1
            if not ok:
                bad.append('store %s <- windows%s' % ([show(x[1]) for x in st][:1], [show(x[0]) for x in src][:1]))
        R.ob(P_ + '.PAIR-SLICE', fr.f.qualname, '[%d-D] window (i..) of the moved view is added at rows i*s .. step d (k elements)' % dims, bool(fr.returns()) and not bad,
             'place_windows must add windows[:, i.., ...] (window axes moved behind the batch axis) into exactly the rows the strided view read: %s' % bad[:1], fr.f.loc)
    # ---------------------------------------------------------------- PAIR-FAST
    fi, fc = frames.get('i2f'), frames.get('c2f')
    if fi and fc:
        ew = [c for o in fi.returns() for c in o.calls if c[0] == CT + '.extract_windows']
        pw = [c for o in fc.returns() for c in o.calls if c[0] == CT + '.place_windows']
        fe, fp = mf('extract_windows'), mf('place_windows')
        if len(ew) >= 1 and len(pw) >= 1:
            eb = dict(zip(fe.pos_params, ew[0][1])); eb.update(ew[0][2])
            pb = dict(zip(fp.pos_params, pw[0][1])); pb.update(pw[0][2])
            roles = {r: (eb.get(r), pb.get(r)) for r in ('kernel_size', 'step', 'padding', 'dilation')}
            want = {'kernel_size': Vec([k[0], k[1]]), 'step': A('stride'), 'padding': (A('padding'), Vec([p[0], p[1]])), 'dilation': A('dilation')}
            ok = all(a is not None and b is not None for a, b in roles.values()) and eq(roles['kernel_size'][0], want['kernel_size']) and eq(roles['kernel_size'][1], want['kernel_size']) \
                and eq(roles['step'][0], A('stride')) and eq(roles['step'][1], A('stride')) and eq(roles['dilation'][0], A('dilation')) and eq(roles['dilation'][1], A('dilation')) \
                and any(eq(roles['padding'][0], w) for w in want['padding']) and any(eq(roles['padding'][1], w) for w in want['padding'])
            R.ob(P_ + '.PAIR-FAST', fc.f.qualname, 'geometry roles %s' % {r: (show(a), show(b)) for r, (a, b) in roles.items()}, ok, 'extract_windows and place_windows must receive the same argument in each role (step = stride)', fc.f.loc)
            R.ob(P_ + '.PAIR-FAST', fi.f.qualname, 'pad_value forwarded: %s' % show(eb.get('pad_value')), isinstance(eb.get('pad_value'), P) and eb['pad_value'] == A('pad_value'), 'the caller\'s pad value must reach the extractor', fi.f.loc)
            R.ob(P_ + '.PAIR-FAST', fc.f.qualname, 'place_windows target shape %s' % show(pb.get('out_shape')), isinstance(pb.get('out_shape'), (tuple, list)) and eq(tuple(pb['out_shape']), NCHW), 'the windows are placed back into the un-padded (N, C, H, W) shape', fc.f.loc)
        else:
            R.incomplete_at(P_ + '.PAIR-FAST', fc.f.qualname, 'extract_windows / place_windows calls not found on the evaluated paths')
        wshape = (lH, lW, N, C, k[0], k[1])
        vi = [o.value for o in fi.returns()]
        ok = len(vi) == 1 and isinstance(vi[0], Arr) and vi[0].base == 'windows' and eq(list(vi[0].ops), [('reshape', (N * lH * lW, CKK)), ('T',)])
        R.ob(P_ + '.PAIR-FAST', fi.f.qualname, '2-D layout %r' % (vi[:1],), ok, 'column matrix = windows.reshape(N*L, C*kH*kW).T', fi.f.loc)
        wc = [pwc[1][0] if pwc[1] else pwc[2].get('windows') for pwc in pw]
        ok = bool(wc) and all(isinstance(w, Arr) and w.base == 'a' and eq(list(w.ops), [('T',), ('reshape', wshape)]) for w in wc)
        R.ob(P_ + '.PAIR-FAST', fc.f.qualname, 'inverse 2-D layout %r' % (wc[:1],), ok, 'windows = a.T.reshape(lH, lW, N, C, kH, kW): the inverse of reshape(N*L, C*kH*kW).T with the shared window counts', fc.f.loc)
        fu = _try(R, P_ + '.PAIR-FAST', lambda: Frame(model, 'im2col_fast', dict(geom_args(fi.f), a=A('a'), pad_value=A('pad_value'), as_unfold=True), atoms={'a.shape': NCHW, 'len(a.shape)': 4}))
        fd = _try(R, P_ + '.PAIR-FAST', lambda: Frame(model, 'col2im_fast', dict(geom_args(fc.f), a=A('a'), output_shape=NCHW), atoms={'len(a.shape)': 3, 'len(output_shape)': 4}))
        if fu and fd:
            vu = [o.value for o in fu.returns()]
            pw3 = [c for o in fd.returns() for c in o.calls if c[0] == CT + '.place_windows']
            w3 = [c[1][0] if c[1] else c[2].get('windows') for c in pw3]
            ok = len(vu) == 1 and isinstance(vu[0], Arr) and eq(list(vu[0].ops), [('reshape', (lH * lW, N, CKK)), ('moveaxis', 0, 2)]) \
                and bool(w3) and all(isinstance(w, Arr) and w.base == 'a' and eq(list(w.ops), [('moveaxis', 2, 0), ('reshape', wshape)]) for w in w3)
            R.ob(P_ + '.PAIR-FAST', fc.f.qualname, 'unfold layout %r / %r' % (vu[:1], w3[:1]), ok, 'the unfold layout reshape(L, N, C*kH*kW) + moveaxis(0 -> 2) is undone by moveaxis(2 -> 0) + reshape(lH, lW, N, C, kH, kW)', fc.f.loc)


def _mentions(p, atom):
    return isinstance(p, P) and any(n == list(atom.t)[0][0][0] for m in p.t for n, e in m)


def _try(R, rule, thunk):
    try:
        return thunk()
    except Incomplete as u:
        R.incomplete_at(rule, CT, str(u))
        return None


def check_pool_forward(model, R, P_):
    """pooling forward kernels evaluated on a symbolic input: padding value, window geometry roles, reducer over the WHOLE window, output layout"""
    R.rule(P_ + '.PAD', 'max pooling pads with -inf (padding never wins), average pooling with 0 (padded zeros are counted); the reducer runs over the whole window '
                        '(both kernel axes merged) and the result is laid out as (N, C, windows...)  [pooling kernels evaluated on symbolic shapes]', floor=4)
    k, d, s, p = G()
    for q, want_pad, red, dims in (('max_pool1d_forward', 'ninf', 'max', 1), ('max_pool2d_forward', 'ninf', 'max', 2), ('avg_pool1d_forward', 0, 'mean', 1), ('avg_pool2d_forward', 0, 'mean', 2)):
        f = model.func('synapgrad.cpu_ops.' + q)
        shape = NCHW if dims == 2 else NCW
        try:
            fr = Frame(model, 'synapgrad.cpu_ops.' + q, dict(geom_args(f), a=A('a')), atoms={'a.shape': shape, 'len(a.shape)': len(shape)})
        except Incomplete as u:
            R.incomplete_at(P_ + '.PAD', f.qualname, str(u))
            continue
        rs = fr.returns()
        ok = len(rs) >= 1
        why = []
        for o in rs:
            pads = o.user.get('pads', [])
            if len(pads) != 1:
                why.append('pads: %d' % len(pads))
                continue
            cv = pads[0][3].get('constant_values')
            if want_pad == 'ninf':
                okp = (isinstance(cv, P) and (cv == -A('np.inf') or cv == -A('numpy.inf') or cv == -A('math.inf'))) or (isinstance(cv, float) and cv == float('-inf'))
            else:
                okp = (isinstance(cv, (int, float)) and not isinstance(cv, bool) and cv == 0) or (isinstance(cv, P) and cv.is_const() and cv.const_value() == 0)
            if not okp:
                why.append('pad value %s' % show(cv))
            # geometry reaches extract_windows in its own role: the padded shape and window counts of the view
            st = o.user.get('strided', [])
            cn = counts('stride', dims)
            if len(st) != 1 or not isinstance(st[0][2], (tuple, list)) or not eq(tuple(st[0][2]), tuple(cn) + tuple(shape[:2]) + tuple(k[:dims])):
                why.append('window view shape %s' % (show(st[0][2])[:120] if st else None))
            reds = [r for r in o.user.get('reducers', []) if r[0] == q]
            if len(reds) != 1 or reds[0][1] != red or reds[0][4]:
                why.append('reducers %s' % [(r[1], r[4]) for r in reds])
                continue
            _, _, src, ax, _ = reds[0]
            rank_after = len(shape) + dims - (dims - 1)          # (counts.., N, C, k..) with the kernel axes merged into one
            merged = [o_ for o_ in src.ops if o_[0] == 'reshape']
            if dims == 2:
                want_shape = tuple(cn) + tuple(shape[:2])
                okm = len(merged) == 1 and isinstance(merged[0][1], tuple) and len(merged[0][1]) == len(want_shape) + 1 and eq(tuple(merged[0][1][:-1]), want_shape) \
                    and (merged[0][1][-1] == -1 or eq(merged[0][1][-1], k[0] * k[1])) and src.base == 'windows'
            else:
                okm = not merged and src.base == 'windows'
            if not okm or ax not in (-1, rank_after - 1):
                why.append('reduced array %r over axis %r' % (src, ax))
            v = o.value
            out = v[0] if isinstance(v, (tuple, list)) and v else v
            perm = (1, 2, 0) if dims == 1 else (2, 3, 0, 1)
            if not (isinstance(out, Arr) and out.ops and out.ops[-1] == ('transpose', perm)):
                why.append('output layout %r' % (out,))
        R.ob(P_ + '.PAD', f.qualname, 'pad %s, %s over the whole window, layout (N, C, windows..)' % ('-inf' if want_pad == 'ninf' else 0, red), ok and not why,
             'documented pooling: %s' % why[:3], f.loc)


def check_index_axes(model, R, P_):
    """get_im2col_indices evaluated with dependency-carrying atoms: the ROW index matrix is built from the row geometry (kernel / dilation / stride / count of axis 0) and
    the COLUMN index matrix from the column geometry - dilation and stride of the other axis do not occur in it (a swapped subscript is invisible for square geometry)"""
    R.rule(P_ + '.INDEX-AXES', 'in get_im2col_indices the row indices depend on dilation[0] and stride[0] and not on dilation[1] / stride[1]; the column indices the other way round '
                              '[evaluated with dependency-carrying terms]', floor=2)
    import re
    f = model.func(CT + '.get_im2col_indices')

    def leaves(v, acc):
        if isinstance(v, P):
            for m in v.t:
                for a_, _ in m:
                    for x in re.findall(r'(?:dilation|stride|step|kernel_size|padding)\[\d\]', a_):
                        acc.add(x)
        elif isinstance(v, (list, tuple, Vec)):
            for x in v:
                leaves(x, acc)
        elif hasattr(v, 'text'):
            for x in re.findall(r'(?:dilation|stride|step|kernel_size|padding)\[\d\]', str(v.text)):
                acc.add(x)
        return acc

    def hook(pe, name, e, args, kw, env, func, depth):
        n = name or ''
        if n.endswith('.get_conv2d_output_size'):
            return (A('lH'), A('lW'))          # the window counts are opaque here: their formula is decided by OUTSIZE; only the index ARITHMETIC is looked at
        if n in ('numpy.arange', 'numpy.repeat', 'numpy.tile', 'numpy.reshape', 'numpy.add.outer', 'numpy.array', 'numpy.asarray') or \
                (isinstance(e.func, ast.Attribute) and e.func.attr in ('reshape', 'astype', 'ravel', 'flatten') and not n.startswith('synapgrad')):
            acc = set()
            for a_ in list(args) + list(kw.values()):
                leaves(a_, acc)
            if isinstance(e.func, ast.Attribute) and not n.startswith('numpy.'):
                leaves(pe.expr(e.func.value, env, func, depth), acc)
            return A('idx{%s}' % ','.join(sorted(acc)))
        return NotImplemented
    try:
        args = dict(geom_args(f))
        first = f.pos_params[0]
        args[first] = NCHW
        outs = PE(model, call_hook=hook, atoms_not_none=True, default_pred=lambda t: False if ('<= 0' in t or '< 1' in t or '== 0' in t) else None).paths(f, args, max_paths=64)
    except Incomplete as u:
        R.incomplete_at(P_ + '.INDEX-AXES', f.qualname, str(u))
        return
    rets = [o for o in outs if o.kind == 'return' and isinstance(o.value, (tuple, list)) and len(o.value) == 3]
    if not rets:
        R.incomplete_at(P_ + '.INDEX-AXES', f.qualname, 'no path returns the (k, i, j) index triple: %s' % [o.kind for o in outs])
        return
    stride = 'stride' if 'stride' in f.params else 'step'
    for slot, axis, what in ((1, 0, 'row'), (2, 1, 'column')):
        bad = []
        for o in rets:
            got = leaves(o.value[slot], set())
            need = {'dilation[%d]' % axis, '%s[%d]' % (stride, axis)}
            forbid = {'dilation[%d]' % (1 - axis), '%s[%d]' % (stride, 1 - axis)}
            if not need <= got or (got & forbid):
                bad.append('depends on %s' % sorted(got))
        R.ob(P_ + '.INDEX-AXES', f.qualname, '%s indices: dilation / stride of axis %d only' % (what, axis), not bad,
             'the %s index matrix must be built from dilation[%d] and %s[%d] (and not from the other axis): %s' % (what, axis, stride, axis, bad[:1]), f.loc)
