"""Template rules over the op catalogue (C01/C02 WRAP, PAIR, BIND, SAVED, ACC, COVER; C03 SUM-OVER-PATHS/MIXED;
C07 PROP/ATTACH; C17 NOHISTORY(ii)).  Every rule is phrased over the extracted slots (def-use facts), not text."""
import ast
from .core import norm, dotted, names_in, body_walk, inline_expr, single_bindings
from .report import Incomplete
from . import opcat

# forward kernel -> backward kernel exceptions to the  X_forward <-> X_backward naming (confirmed by reading)
PAIR_EXCEPTIONS = {
    # wrapper: {forward kernel: backward kernel}
    'synapgrad.nn.functional.unfold': {'im2col_fast': 'col2im_fast'},     # unfold = im2col, its adjoint is col2im
    'synapgrad.nn.functional.fold': {'col2im_fast': 'im2col_fast'},       # fold = col2im, its adjoint is im2col
}

# parameters of backward kernels whose role is "the forward OUTPUT" (must receive out.data)
FORWARD_OUTPUT_PARAMS = {'exp_a', 'sqrt_a', 'tanh_a', 'sigmoid_a', 'softmax_a', 'log_softmax_a', 'exp_n_a'}

# one-sided backward-kernel parameters with a frozen expected argument (wrapper, param) -> checker
def _is_shape_of(expr, operand):
    return isinstance(expr, ast.Attribute) and expr.attr == 'shape' and isinstance(expr.value, ast.Name) and expr.value.id == operand

SYNONYMS = {'var': 'variance', 'dim': 'axis', 'negative_slope': 'neg_slope'}


def bind_call(call, callee):
    """map callee parameter -> argument expression for a call; returns (binding, star) where star is the
    name of a starred positional argument covering the remaining positional parameters (or None)"""
    params = callee.pos_params
    binding, star = {}, None
    i = 0
    for a in call.args:
        if isinstance(a, ast.Starred):
            if not isinstance(a.value, ast.Name):
                raise Incomplete('starred argument is not a name: %s' % norm(call))
            star = (a.value.id, params[i:])
            i = len(params)
            continue
        if i >= len(params):
            raise Incomplete('too many positional arguments for %s: %s' % (callee.qualname, norm(call)))
        binding[params[i]] = a
        i += 1
    for k in call.keywords:
        if k.arg is None:
            raise Incomplete('**kwargs in kernel call: %s' % norm(call))
        if k.arg in binding:
            raise Incomplete('parameter %s bound twice in %s' % (k.arg, norm(call)))
        binding[k.arg] = k.value
    return binding, star


def operand_of(expr, op, func, _depth=0):
    """which child operand an argument expression denotes: x.data / x.data.T / x.shape / local alias of those.
    returns (child name, accessor) or None"""
    if _depth > 8:
        return None
    e = inline_expr(func.node, expr) if isinstance(expr, ast.Name) and expr.id in single_bindings(func.node) and not isinstance(single_bindings(func.node)[expr.id], ast.IfExp) else expr
    acc = []
    while isinstance(e, ast.Attribute):
        acc.append(e.attr)
        e = e.value
    if isinstance(e, ast.Name):
        names = [c.name for c in op.children]
        if e.id in names:
            return e.id, '.'.join(reversed(acc))
        # local alias:  bias_data = bias.data if bias is not None else None
        for stmt, val, kind in opcat._assignments(func.node, e.id):
            if kind != 'assign':
                continue
            v = val.body if isinstance(val, ast.IfExp) else val
            r = operand_of(v, op, func, _depth + 1)
            if r:
                return r[0], (r[1] + ('.' + '.'.join(reversed(acc)) if acc else ''))
    if isinstance(e, ast.ListComp) and isinstance(e.elt, ast.Attribute):
        # [t.data for t in x]  (list ops)
        gen = e.generators[0]
        if isinstance(gen.iter, ast.Name) and any(c.name == gen.iter.id and c.is_list for c in op.children):
            return gen.iter.id, e.elt.attr
    return None


def kernel_func(model, dotted_name):
    return model.func(dotted_name)


def check_ops(model, R, ops, P):
    """P: property prefix 'C01' or 'C02'"""
    R.rule(P + '.WRAP', 'wrapper matches the op template: one forward kernel family on operand .data, Tensor(children = exactly the tensor operands), closure reads its own output gradient, grad passed as .data to the backward kernel', floor=len(ops))
    R.rule(P + '.PAIR', 'backward kernel is the sibling of the forward kernel (X_forward <-> X_backward, frozen exceptions)', floor=len(ops))
    R.rule(P + '.BIND', 'k-th operand of the forward kernel receives the k-th result of the backward kernel', floor=len(ops))
    R.rule(P + '.SAVED', 'backward kernel arguments are the bindings the forward kernel saw (same-named params equal; *_shape = operand.shape; forward-output role = out.data)', floor=len(ops))
    R.rule(P + '.ACC', 'every accumulation statement of a closure is an in-place += on <child>._grad of a child of this op (how often / under which flags it runs: COVER)', floor=len(ops))
    for op in ops:
        try:
            _check_op(model, R, op, P)
        except Incomplete as e:
            R.incomplete_at(P + '.WRAP', op.qual, str(e))


def _loc(op, node):
    return '%s:%d' % (op.func.mod.relpath, getattr(node, 'lineno', op.func.node.lineno))


def _check_op(model, R, op, P):
    func = op.func
    child_names = [c.name for c in op.children]
    # ---------------- WRAP: data argument is the forward kernel result
    data = op.data_expr
    data_src = None
    if isinstance(data, ast.Name):
        if op.multi_output:
            gen = op.out_stmt.value.args[0].generators[0]
            if isinstance(gen.target, ast.Name) and gen.target.id == data.id and isinstance(gen.iter, ast.Name):
                data_src = gen.iter.id
        else:
            data_src = data.id
    fwd_result_names = set()
    for d, call in op.fwd_calls:
        for n in body_walk(func.node):
            if isinstance(n, ast.Assign) and n.value is call:
                t = n.targets[0]
                if isinstance(t, ast.Name):
                    fwd_result_names.add(t.id)
                elif isinstance(t, (ast.Tuple, ast.List)) and t.elts and isinstance(t.elts[0], ast.Name):
                    fwd_result_names.add(t.elts[0].id)      # out_data, *bw_data = kernel(...)
    R.ob(P + '.WRAP', op.qual, 'Tensor(data=%s)' % norm(data), data_src in fwd_result_names,
         'the data of the result tensor must be the (first) result of the forward kernel call (%s)' % sorted(fwd_result_names), _loc(op, op.tensor_calls[0]))
    # WRAP: grad read is out.grad of the op's own output
    for cl, gname, gexpr in op.grad_reads:
        base = gexpr.value
        if op.multi_output:
            # out[<closure parameter>].grad : each output's closure instance reads its own output's gradient
            ok = isinstance(base, ast.Subscript) and isinstance(base.value, ast.Name) and base.value.id == op.out_name \
                and isinstance(base.slice, ast.Name) and base.slice.id in cl.params
        else:
            ok = isinstance(base, ast.Name) and base.id == op.out_name
        R.ob(P + '.WRAP', op.qual, norm(gexpr), ok and gexpr.attr == 'grad',
             'the closure must read the gradient of its own output (%s.grad)' % op.out_name, _loc(op, gexpr))
    R.ob(P + '.WRAP', op.qual, 'grad read count=%d' % len(op.grad_reads), len(op.grad_reads) == len(op.closures),
         'each backward closure reads the output gradient exactly once', func.loc)
    grad_names = {g for _, g, _ in op.grad_reads}

    # ---------------- forward kernel operands (ordered), per forward call
    fwd_info = []
    for d, call in op.fwd_calls:
        kf = kernel_func(model, d)
        binding, star = bind_call(call, kf)
        if star:
            raise Incomplete('starred args in forward kernel call')
        operands = []
        for p in kf.pos_params:
            if p in binding:
                r = operand_of(binding[p], op, func)
                if r and r[1].split('.')[0] == 'data':
                    operands.append((p, r[0], r[1]))
        fwd_info.append((d, call, kf, binding, operands))
    # children == tensor operands passed to forward kernels
    passed = set()
    for _, _, _, _, operands in fwd_info:
        passed |= {o for _, o, _ in operands}
    R.ob(P + '.WRAP', op.qual, 'children=%s' % child_names, passed == set(child_names),
         'children must be exactly the tensor operands whose .data is passed to the forward kernel (passed: %s)' % sorted(passed), _loc(op, op.tensor_calls[0]))

    # ---------------- PAIR / SAVED / BIND per backward call
    exc = PAIR_EXCEPTIONS.get(op.qual, {})
    fwd_by_name = {d.rsplit('.', 1)[1]: (d, call, kf, binding, operands) for d, call, kf, binding, operands in fwd_info}
    results_by_call = {}
    for d, call, cl in op.bwd_calls:
        bname = d.rsplit('.', 1)[1]
        # which forward kernel is its sibling
        sib = None
        for fname in fwd_by_name:
            expect = exc.get(fname, fname.replace('_forward', '_backward') if fname.endswith('_forward') else None)
            if expect == bname:
                sib = fname
        R.ob(P + '.PAIR', op.qual, '%s <- %s' % (bname, sorted(fwd_by_name)), sib is not None,
             'backward kernel %s is not the sibling of any forward kernel called by this wrapper' % bname, _loc(op, call))
        if sib is None:
            continue
        fd, fcall, fkf, fbinding, foperands = fwd_by_name[sib]
        # same presence predicate on both sides when the wrapper dispatches between kernels (linear: addmm | matmul)
        if len(op.fwd_calls) > 1:
            fc = opcat._cond_text(op.cfg, _stmt_of(func.node, fcall))
            bc = opcat._cond_text(op.closure_cfg[cl.qualname], _stmt_of(cl.node, call))
            f1 = opcat.cond_formula(func.node, op.cfg, _stmt_of(func.node, fcall))
            f2 = opcat.cond_formula(cl.node, op.closure_cfg[cl.qualname], _stmt_of(cl.node, call))
            same, how = (False, 'condition not parsed') if f1 is None or f2 is None else opcat.cond_equivalent(f1, f2)
            R.ob(P + '.PAIR', op.qual, '%s under [%s] / %s under [%s]' % (sib, fc, bname, bc), same,
                 'forward and backward kernels must be selected by the same predicate (%s)' % how, _loc(op, call))
        bkf = kernel_func(model, d)
        bbinding, bstar = bind_call(call, bkf)
        # ---- SAVED
        bparams = bkf.pos_params
        first = bparams[0]
        g = bbinding.get(first)
        ok = isinstance(g, ast.Attribute) and g.attr == 'data' and isinstance(g.value, ast.Name) and g.value.id in grad_names
        R.ob(P + '.SAVED', op.qual, '%s(%s=%s)' % (bname, first, norm(g) if g is not None else None), ok,
             'the upstream-gradient parameter must receive <out.grad>.data', _loc(op, call))
        fparams_norm = {SYNONYMS.get(p, p): p for p in fkf.pos_params}
        for p in bparams[1:]:
            if p not in bbinding:
                if bstar and p in bstar[1]:
                    continue
                if p in bkf.defaults():
                    continue
                raise Incomplete('backward kernel parameter %s of %s is not bound' % (p, bname))
            arg = bbinding[p]
            pn = SYNONYMS.get(p, p)
            if pn in fparams_norm and fparams_norm[pn] in fbinding:
                farg = fbinding[fparams_norm[pn]]
                same = _same_binding(func, op, farg, arg)
                R.ob(P + '.SAVED', op.qual, '%s(%s=%s) vs %s(%s=%s)' % (bname, p, norm(arg), sib, fparams_norm[pn], norm(farg)), same,
                     'same-named kernel parameters must receive the same binding in forward and backward', _loc(op, call))
            elif p in FORWARD_OUTPUT_PARAMS:
                ok = isinstance(arg, ast.Attribute) and arg.attr == 'data' and isinstance(arg.value, ast.Name) and arg.value.id == op.out_name
                R.ob(P + '.SAVED', op.qual, '%s(%s=%s)' % (bname, p, norm(arg)), ok,
                     'parameter %s holds the forward OUTPUT and must receive %s.data' % (p, op.out_name), _loc(op, call))
            elif p.endswith('_shape') and (p[:-6] in fkf.pos_params or p == 'output_shape'):
                src = p[:-6] if p != 'output_shape' else fkf.pos_params[0]
                farg = fbinding.get(src)
                r = operand_of(farg, op, func) if farg is not None else None
                ok = r is not None and _is_shape_of(arg, r[0])
                R.ob(P + '.SAVED', op.qual, '%s(%s=%s)' % (bname, p, norm(arg)), ok,
                     'shape parameter must be the shape of the operand passed as %s to %s' % (src, sib), _loc(op, call))
            elif (op.qual, p) in ONE_SIDED:
                ok, why = ONE_SIDED[(op.qual, p)](op, func, cl, arg)
                R.ob(P + '.SAVED', op.qual, '%s(%s=%s)' % (bname, p, norm(arg)), ok, why, _loc(op, call))
            else:
                el = _check_result_element(func, op, fcall, fkf, arg, p)
                if el is None:
                    raise Incomplete('backward kernel parameter %s of %s has no known role' % (p, bname))
                R.ob(P + '.SAVED', op.qual, '%s(%s=%s)' % (bname, p, norm(arg)), el[0], el[1], _loc(op, call))
        if bstar:
            # out_data, *bw_data = forward(...) ;  backward(..., *bw_data): trailing params named like the forward's trailing returns
            ok, why = _check_star(model, func, op, fcall, fkf, bstar)
            R.ob(P + '.SAVED', op.qual, '%s(*%s -> %s)' % (bname, bstar[0], bstar[1]), ok, why, _loc(op, call))
        for p in bbinding:
            if p not in bparams:
                raise Incomplete('unknown keyword %s for %s' % (p, bname))
        # ---- results of the backward call
        stmt = _stmt_of(cl.node, call)
        if not isinstance(stmt, ast.Assign) or stmt.value is not call or len(stmt.targets) != 1:
            raise Incomplete('backward kernel result is not bound by a simple assignment: %s' % norm(stmt))
        t = stmt.targets[0]
        if isinstance(t, ast.Name):
            res = [t.id]
            single = True
        elif isinstance(t, (ast.Tuple, ast.List)) and all(isinstance(e, ast.Name) for e in t.elts):
            res = [e.id for e in t.elts]
            single = False
        else:
            raise Incomplete('unrecognised result destructuring: %s' % norm(stmt))
        results_by_call[id(call)] = (res, single, foperands, bname, sib, fkf)

    # ---------------- ACC + BIND
    for c in op.children:
        accs = [a for a in op.accs if isinstance(a.target, ast.Name) and a.target.id == c.name]
        if c.is_list:
            continue
        if not accs:
            continue    # COVER decides whether a missing accumulation is legitimate
        # with kernel dispatch there may be one statement shared by both branches; exactly one statement expected
        for a in accs:
            R.ob(P + '.ACC', op.qual, norm(a.stmt), a.op == 'Add' and isinstance(a.stmt, ast.AugAssign) and a.target is not None and
                 isinstance(a.stmt.target, ast.Attribute) and a.stmt.target.attr == '_grad',
                 'contribution must be accumulated in place with += on %s._grad (assignment would overwrite other consumers)' % c.name, _loc(op, a.stmt))
            # (how often and under which flags the accumulation runs is decided by COVER over all flag valuations: sa/rules_flags.py)
            _bind(R, P, op, func, c, a, results_by_call)
    # list operands: for inp, grad in zip(inputs, results)
    for c in op.children:
        if not c.is_list:
            continue
        accs = [a for a in op.accs if a.loop is not None]
        ok = False
        detail = 'list operand needs `for inp, g in zip(<all inputs>, <kernel results>): if inp.requires_grad: inp._grad += g`'
        for a in accs:
            lp = a.loop
            if not (isinstance(lp, ast.For) and isinstance(lp.target, ast.Tuple) and len(lp.target.elts) == 2
                    and all(isinstance(e, ast.Name) for e in lp.target.elts)):
                continue
            tv, gv = lp.target.elts[0].id, lp.target.elts[1].id
            it = lp.iter
            if not (isinstance(it, ast.Call) and dotted(it.func) == 'zip' and len(it.args) == 2 and all(isinstance(x, ast.Name) for x in it.args)):
                continue
            inputs_name, res_name = it.args[0].id, it.args[1].id
            # the closure must pair the results with the SNAPSHOT of the operands that was stored as children (a tuple bound once),
            # not with the caller's mutable list object (which may have changed by the time backward runs)
            inputs_ok = isinstance(op.children_expr, ast.Name) and op.children_expr.id == inputs_name and \
                [k for st, v, k in opcat._assignments(func.node, inputs_name)] == ['assign'] and \
                isinstance(opcat._assignments(func.node, inputs_name)[0][1], ast.Call) and dotted(opcat._assignments(func.node, inputs_name)[0][1].func) == 'tuple'
            res_ok = any(res_name in r[0] and r[1] for r in results_by_call.values())
            facts = {(t, p) for t, p, _ in a.facts}
            tgt_ok = isinstance(a.target, ast.Name) and a.target.id == tv and isinstance(a.rhs, ast.Name) and a.rhs.id == gv
            R.ob(P + '.ACC', op.qual, norm(a.stmt), a.op == 'Add', 'in-place += required', _loc(op, a.stmt))
            R.ob(P + '.ACC', op.qual, 'guard of ' + norm(a.stmt), (tv + '.requires_grad', True) in facts,
                 'accumulation must be guarded by the same input\'s requires_grad', _loc(op, a.stmt))
            R.ob(P + '.BIND', op.qual, norm(lp.iter) + ' -> ' + norm(a.stmt), inputs_ok and res_ok and tgt_ok,
                 'zip must pair all inputs (in order) with the kernel results, and the loop must add the paired result to the paired input', _loc(op, lp))
            ok = True
        if not ok:
            R.ob(P + '.ACC', op.qual, 'list operand ' + c.name, False, detail, func.loc)
    # accumulations into something that is not a child
    for a in op.accs:
        tn = a.target.id if isinstance(a.target, ast.Name) else None
        if a.loop is not None and any(c.is_list for c in op.children):
            continue
        R.ob(P + '.ACC', op.qual, 'target of ' + norm(a.stmt), tn in child_names,
             'gradient is written into %s which is not an operand (child) of this op' % norm(a.target), _loc(op, a.stmt))


def _stmt_of(fnode, node):
    """the statement of fnode's body (any depth, not nested defs) containing `node`"""
    for s in body_walk(fnode):
        if isinstance(s, ast.stmt) and not isinstance(s, (ast.If, ast.For, ast.While, ast.With, ast.Try, ast.FunctionDef)):
            if any(n is node for n in ast.walk(s)):
                return s
    raise Incomplete('statement of %s not found' % norm(node))


def _same_binding(func, op, farg, barg):
    """forward and backward kernel receive the same value: same expression text over names that are not rebound
    between the two uses (closure variables captured from the wrapper: parameters / single-assignment locals /
    a normalisation `p += c` that precedes the forward call)"""
    if norm(farg) != norm(barg):
        # a temporary on one side, the expression itself on the other: compare after inlining single-assignment locals of the wrapper
        b = single_bindings(func.node)
        if norm(inline_expr(func.node, farg, bindings=b)) != norm(inline_expr(func.node, barg, bindings=b)):
            return False
    for name in names_in(barg):
        asg = opcat._assignments(func.node, name)
        for stmt, val, kind in asg:
            # a rebinding after the forward kernel call would make the closure see a different value
            if stmt.lineno > farg.lineno and not any(n is farg for n in ast.walk(stmt)):
                return False
    return True


def _check_result_element(func, op, fcall, fkf, arg, p):
    """a, b, c = forward(...) ; backward(..., p=c): the saved value passed for parameter p must be the forward kernel's return element of that name.
    None when the argument is not an element of the destructured forward result."""
    stmt = _stmt_of(func.node, fcall)
    t = stmt.targets[0] if isinstance(stmt, ast.Assign) else None
    if not isinstance(t, (ast.Tuple, ast.List)) or not isinstance(arg, ast.Name):
        return None
    idx = None
    for i, e in enumerate(t.elts):
        if isinstance(e, ast.Starred):
            break
        if isinstance(e, ast.Name) and e.id == arg.id:
            idx = i
    if idx is None:
        return None
    stores = [n for n in ast.walk(func.node) if isinstance(n, ast.Name) and n.id == arg.id and isinstance(n.ctx, ast.Store)]
    if len(stores) != 1:
        return None
    rets = [n for n in body_walk(fkf.node) if isinstance(n, ast.Return)]
    if len(rets) != 1 or not isinstance(rets[0].value, ast.Tuple) or idx >= len(rets[0].value.elts):
        raise Incomplete('forward kernel %s does not return a single tuple' % fkf.qualname)
    got = norm(rets[0].value.elts[idx]).replace('.', '_')
    got = SYNONYMS.get(got, got)
    want = SYNONYMS.get(p, p)
    return got == want, 'forward kernel returns %s at position %d, backward kernel parameter %s expects %s' % (got, idx, p, want)


def _check_star(model, func, op, fcall, fkf, bstar):
    star_name, bparams = bstar
    stmt = _stmt_of(func.node, fcall)
    t = stmt.targets[0] if isinstance(stmt, ast.Assign) else None
    if not isinstance(t, (ast.Tuple, ast.List)):
        return False, 'forward kernel result is not destructured'
    idx = None
    for i, e in enumerate(t.elts):
        if isinstance(e, ast.Starred) and isinstance(e.value, ast.Name) and e.value.id == star_name:
            idx = i
    if idx is None:
        return False, '*%s is not produced by the forward kernel call' % star_name
    if idx != len(t.elts) - 1:
        return False, 'starred target must be last'
    # forward kernel's return tuple
    rets = [n for n in body_walk(fkf.node) if isinstance(n, ast.Return)]
    if len(rets) != 1 or not isinstance(rets[0].value, ast.Tuple):
        raise Incomplete('forward kernel %s does not return a single tuple' % fkf.qualname)
    tail = rets[0].value.elts[idx:]
    tail_names = [SYNONYMS.get(norm(e).replace('.', '_'), norm(e).replace('.', '_')) for e in tail]
    want = [SYNONYMS.get(p, p) for p in bparams]
    return tail_names == want, 'forward kernel returns %s for *%s, backward kernel expects %s' % (tail_names, star_name, want)


def _bind(R, P, op, func, c, a, results_by_call):
    """operand c (accumulated by a) must get the result slot matching its position in the forward kernel call"""
    rhs_names = names_in(a.rhs)
    matched = False
    for res, single, foperands, bname, sib, fkf in results_by_call.values():
        pos = [i for i, (_, o, _) in enumerate(foperands) if o == c.name]
        if not pos:
            continue
        used = [r for r in res if r in rhs_names]
        if single and len(foperands) == 1:
            ok = used == res
            R.ob(P + '.BIND', op.qual, norm(a.stmt), ok and _wrapper_ok(a.rhs, foperands[pos[0]][2]),
                 'the accumulated value must be the backward kernel result (%s)' % res, _loc(op, a.stmt))
            matched = True
        elif single:
            # one result for several operands: only legal through the frozen antisymmetry exception (mse)
            exc_ok, why = _single_result_exception(op, func, c, a, res, foperands, sib, fkf)
            R.ob(P + '.BIND', op.qual, norm(a.stmt), exc_ok, why, _loc(op, a.stmt))
            matched = True
        else:
            want = res[pos[0]] if pos[0] < len(res) else None
            ok = used == [want]
            R.ob(P + '.BIND', op.qual, norm(a.stmt), ok and _wrapper_ok(a.rhs, foperands[pos[0]][2]),
                 'operand %s is argument #%d of %s and must receive result #%d (%s) of %s, possibly transposed back' % (c.name, pos[0], sib, pos[0], want, bname), _loc(op, a.stmt))
            matched = True
    if not matched:
        R.ob(P + '.BIND', op.qual, norm(a.stmt), False, 'operand %s is not an argument of any forward kernel call' % c.name, _loc(op, a.stmt))


def _wrapper_ok(rhs, accessor):
    """rhs is NAME, or NAME.T iff the operand was passed as .data.T"""
    transposed_in = accessor.endswith('.T')
    if isinstance(rhs, ast.Name):
        return not transposed_in
    if isinstance(rhs, ast.Attribute) and rhs.attr == 'T' and isinstance(rhs.value, ast.Name):
        return transposed_in
    return False


def _single_result_exception(op, func, c, a, res, foperands, sib, fkf):
    """mse-style: kernel returns d/d(first operand); the loss depends on the operands only through (first - second),
    so the second operand receives the negated result.  Checked structurally on the forward kernel."""
    first = foperands[0][1]
    if c.name == first:
        ok = isinstance(a.rhs, ast.Name) and a.rhs.id == res[0]
        return ok, 'first operand receives the kernel result unchanged'
    if len(foperands) != 2:
        return False, 'single backward result for %d operands' % len(foperands)
    neg = isinstance(a.rhs, ast.UnaryOp) and isinstance(a.rhs.op, ast.USub) and isinstance(a.rhs.operand, ast.Name) and a.rhs.operand.id == res[0]
    if not neg:
        return False, 'second operand of a difference-only kernel must receive the negated result'
    anti = antisymmetric_in(fkf, foperands[0][0], foperands[1][0])
    return anti, 'negated result for the subtrahend is only valid when the forward kernel uses its operands solely through (%s - %s): %s' % (foperands[0][0], foperands[1][0], anti)


def antisymmetric_in(kf, p0, p1):
    """forward kernel uses parameters p0, p1 only inside the expression (p0 - p1)"""
    uses = {p0: 0, p1: 0}
    in_diff = {p0: 0, p1: 0}
    for n in ast.walk(kf.node):
        if isinstance(n, ast.Name) and n.id in uses and isinstance(n.ctx, ast.Load):
            uses[n.id] += 1
        if isinstance(n, ast.BinOp) and isinstance(n.op, ast.Sub) and isinstance(n.left, ast.Name) and isinstance(n.right, ast.Name) \
                and n.left.id == p0 and n.right.id == p1:
            in_diff[p0] += 1
            in_diff[p1] += 1
    return uses == in_diff and uses[p0] > 0


# ---- frozen one-sided parameters (wrapper qualname, backward kernel param) -> checker(op, func, closure, arg)
def _unbind_index(op, func, cl, arg):
    ok = isinstance(arg, ast.Name) and arg.id in cl.params
    return ok, 'index must be the closure parameter that also selects the output whose gradient is read'

def _concat_sections(op, func, cl, arg):
    ok = isinstance(arg, ast.Name) and bool(opcat._assignments(func.node, arg.id))
    return ok, 'sections must be computed by the wrapper from the operands'

def _bn_track(op, func, cl, arg):
    """the flag handed to batch_norm_backward is True exactly when both running buffers were given: the closure is evaluated for the four
    combinations of (running_mean, running_var) in {None, a tensor}"""
    from .peval import PE
    from .poly import P
    from .report import Incomplete
    model = op.model
    kb = model.func('synapgrad.cpu_ops.batch_norm_backward')
    bad = []
    for rm in (False, True):
        for rv in (False, True):
            env = {p: P.atom(p) for p in func.params}
            env['running_mean'] = P.atom('running_mean') if rm else None
            env['running_var'] = P.atom('running_var') if rv else None
            try:
                pe = PE(model, atoms_not_none=True, default_pred=lambda t: True if 'Device.CPU' in t else (False if 'requires_grad' in t else None))
                outs = pe.paths(cl, {}, outer_env=env, max_paths=32)
            except Incomplete as u:
                return False, 'closure not evaluable: %s' % u
            seen = False
            for o in outs:
                for t, a_, kw, node in o.calls:
                    if t == kb.qualname:
                        bnd = dict(zip(kb.pos_params, a_))
                        bnd.update(kw)
                        v = bnd.get('track_running_stats')
                        seen = True
                        if not (isinstance(v, bool) and v == (rm and rv)):
                            bad.append('running_mean %s, running_var %s -> %r' % ('given' if rm else 'None', 'given' if rv else 'None', v))
            if not seen:
                bad.append('no batch_norm_backward call when running_mean %s, running_var %s' % ('given' if rm else 'None', 'given' if rv else 'None'))
    return not bad, 'track_running_stats must be (running_mean is not None and running_var is not None); got %s' % bad[:2]

ONE_SIDED = {
    ('synapgrad.functional.unbind', 'index'): _unbind_index,
    ('synapgrad.functional.concat', 'sections'): _concat_sections,
    ('synapgrad.nn.functional.batch_norm', 'track_running_stats'): _bn_track,
    ('synapgrad.nn.functional.fold', 'as_unfold'): lambda op, func, cl, arg: (isinstance(arg, ast.Constant) and arg.value is True, 'fold backward is unfold: as_unfold=True'),
}


# -------------------------------------------------------------------------------------------- COVER (C02)
def check_cover(model, R, ops, P):
    R.rule(P + '.COVER', 'every tensor in children has an accumulation site unless the forward kernel uses it only as an integer index', floor=len(ops))
    for op in ops:
        func = op.func
        for c in op.children:
            if c.is_list:
                has = any(a.loop is not None for a in op.accs)
            else:
                has = any(isinstance(a.target, ast.Name) and a.target.id == c.name for a in op.accs)
            if has:
                R.ob(P + '.COVER', op.qual, c.name, True, 'accumulated', func.loc)
                continue
            # legitimate iff index-only in every forward kernel
            idx_only = True
            for d, call in op.fwd_calls:
                kf = kernel_func(model, d)
                binding, _ = bind_call(call, kf)
                for p, arg in binding.items():
                    r = operand_of(arg, op, func)
                    if r and r[0] == c.name:
                        if not _index_only(model, kf, p, set()):
                            idx_only = False
            R.ob(P + '.COVER', op.qual, c.name, idx_only,
                 'operand %s is in children (so the result requires grad when only it does) but never receives a gradient contribution, and the kernel uses it arithmetically' % c.name, func.loc)


def _index_only(model, kf, param, seen):
    """parameter is used only inside subscript index positions (or passed on to a callee where that holds)"""
    if (kf.qualname, param) in seen:
        return True
    seen.add((kf.qualname, param))
    parents = {}
    for n in ast.walk(kf.node):
        for ch in ast.iter_child_nodes(n):
            parents[id(ch)] = n
    for n in ast.walk(kf.node):
        if isinstance(n, ast.Name) and n.id == param and isinstance(n.ctx, ast.Load):
            cur, ok = n, False
            while id(cur) in parents:
                p = parents[id(cur)]
                if isinstance(p, ast.Subscript) and p.slice is cur or (isinstance(p, ast.Subscript) and any(x is cur for x in ast.walk(p.slice)) and not any(x is cur for x in ast.walk(p.value))):
                    ok = True
                    break
                if isinstance(p, ast.Call) and cur in p.args:
                    d = model.resolve(kf.mod, p.func)
                    callee = model.funcs.get(d) if d else None
                    if callee is not None:
                        i = p.args.index(cur)
                        if i < len(callee.pos_params) and _index_only(model, callee, callee.pos_params[i], seen):
                            ok = True
                    break
                if isinstance(p, ast.stmt):
                    break
                cur = p
            if not ok:
                return False
    return True


# -------------------------------------------------------------------------------------------- C07 PROP / ATTACH
def check_prop_attach(model, R, ops, P='C07'):
    R.rule(P + '.PROP', 'requires_grad of the result is the disjunction of requires_grad over exactly the children', floor=len(ops))
    R.rule(P + '.ATTACH', 'grad_fn is assigned only under `if <that output>.requires_grad`, with the closure wrapped in BackwardFunction', floor=len(ops))
    for op in ops:
        func = op.func
        rg = op.rg_expr
        ok, why = _prop_ok(op, rg)
        R.ob(P + '.PROP', op.qual, 'requires_grad=%s over children %s' % (norm(rg), op.children), ok, why, _loc(op, op.tensor_calls[0]))
        for stmt, facts, bf in op.attach:
            fs = {(t, p) for t, p, _ in facts}
            tgt = stmt.targets[0].value
            if op.multi_output:
                # for i, o in enumerate(out): if o.requires_grad: o.grad_fn = ...
                ok = isinstance(tgt, ast.Name) and (tgt.id + '.requires_grad', True) in fs and _iterates(op, stmt, tgt.id)
            else:
                ok = isinstance(tgt, ast.Name) and tgt.id == op.out_name and (op.out_name + '.requires_grad', True) in fs
            R.ob(P + '.ATTACH', op.qual, norm(stmt), ok, 'grad_fn must be attached to the op output only when that output requires grad', _loc(op, stmt))
            R.ob(P + '.ATTACH', op.qual, 'value of ' + norm(stmt), bf is not None and isinstance(bf.args[0], ast.Name) and bf.args[0].id in [c.name for c in op.closures],
                 'grad_fn must be BackwardFunction(<the backward closure>, ...)', _loc(op, stmt))
            if op.multi_output and bf is not None:
                # closure index argument must be the enumerate index of the same loop
                R.ob(P + '.ATTACH', op.qual, 'index argument of ' + norm(bf), _index_arg_ok(op, stmt, bf),
                     'each output must carry its own index (the enumerate counter of the loop over the outputs)', _loc(op, stmt))


def _iterates(op, stmt, var):
    for p, field in op.cfg.enclosing(stmt):
        if isinstance(p, ast.For):
            it = p.iter
            names = names_in(p.target)
            if var in names and op.out_name in names_in(it):
                return True
    return False


def _index_arg_ok(op, stmt, bf):
    for p, field in op.cfg.enclosing(stmt):
        if isinstance(p, ast.For) and isinstance(p.iter, ast.Call) and dotted(p.iter.func) == 'enumerate' and isinstance(p.target, ast.Tuple):
            idx = p.target.elts[0]
            extra = bf.args[2:]
            return len(extra) == 1 and isinstance(extra[0], ast.Name) and isinstance(idx, ast.Name) and extra[0].id == idx.id
    return False


def _prop_ok(op, rg):
    kids = op.children
    if len(kids) == 1 and not kids[0].is_list and not kids[0].cond:
        ok = isinstance(rg, ast.Attribute) and rg.attr == 'requires_grad' and isinstance(rg.value, ast.Name) and rg.value.id == kids[0].name
        if ok:
            return True, 'single operand'
    # any(<elt>.requires_grad for <elt> in <children name | list operand>)
    if isinstance(rg, ast.Call) and dotted(rg.func) == 'any' and len(rg.args) == 1 and isinstance(rg.args[0], (ast.GeneratorExp, ast.ListComp)):
        comp = rg.args[0]
        if len(comp.generators) == 1 and not comp.generators[0].ifs:
            g = comp.generators[0]
            elt_ok = isinstance(comp.elt, ast.Attribute) and comp.elt.attr == 'requires_grad' and isinstance(comp.elt.value, ast.Name) \
                and isinstance(g.target, ast.Name) and comp.elt.value.id == g.target.id
            src = g.iter
            if isinstance(src, ast.Name):
                src_ok = (isinstance(op.children_expr, ast.Name) and src.id == op.children_expr.id) or \
                         (len(kids) == 1 and kids[0].is_list and src.id == kids[0].name)
            elif isinstance(src, ast.Tuple):
                src_ok = [norm(e) for e in src.elts] == [c.name for c in kids] and not any(c.cond for c in kids)
            else:
                src_ok = False
            if elt_ok and src_ok:
                return True, 'any() over the children'
            return False, 'any() must range over exactly the children tuple and test .requires_grad of each element'
    if isinstance(rg, ast.BoolOp) and isinstance(rg.op, ast.Or):
        names = []
        for v in rg.values:
            if isinstance(v, ast.Attribute) and v.attr == 'requires_grad' and isinstance(v.value, ast.Name):
                names.append(v.value.id)
            else:
                return False, 'unrecognised disjunct %s' % norm(v)
        ok = sorted(names) == sorted(c.name for c in kids) and not any(c.cond or c.is_list for c in kids)
        return ok, 'explicit disjunction must list exactly the children'
    return False, 'requires_grad must be <child>.requires_grad for one child or any(c.requires_grad for c in children); got %s' % norm(rg)
