"""Exp / log / axis-sum normal form on top of the polynomial normal form (sa/poly.py): decides definitional equalities such as
    softmax kernel (max-shifted)            ==  exp(a) / sum(exp(a))
    log_softmax kernel (log-sum-exp shift)  ==  a - log(sum(exp(a)))  ==  log(softmax kernel)
    BCE-with-logits kernel (relu shift)     ==  BCE(sigmoid(x), y)  ==  (1 - y) x + log(1 + exp(-x))
as identities of terms.  Nothing is evaluated numerically.  Rewriting rules (all exact over the reals, operands of log positive):

    exp(p) exp(q) = exp(p + q)      exp(p)^e = exp(e p)         exp(0) = 1
    log(c m u)    = log c + sum e_i log(atom_i) + log u          log(exp(p)) = p
    log(t_1 + .. + t_n) = log(t_k) + log(1 + sum_{i != k} t_i / t_k)      (pivot k chosen so that the remaining term is canonical:
                                                                           the choice is invariant under a common factor, i.e. under any shift)
    SUM_axis(c f) = c SUM_axis(f)   for c constant along the axis (scalars, axis maxima, axis sums); SUM is additive

Atoms:  exp{<p>}   log{<u>}   sum{<f>}   max{<f>} (opaque, axis-constant)   maximum{..} / minimum{..} (opaque elementwise).
"""
import ast
from fractions import Fraction
from .poly import P, as_p, Unsupported
from . import deriv            # registers P.power so that '(prim)' atoms keep their primitive polynomial (deriv.POLYATOM)
from .deriv import POLYATOM, rationalize


class XL:
    """one universe of exp / log / sum atoms (a rule creates one per comparison)"""
    def __init__(self, scalars=()):
        self.EXP, self.LOG, self.SUM = {}, {}, {}
        self.AC = set(scalars)        # atoms constant along the reduction axis

    # ---------------------------------------------------------------- helpers
    def is_ac_poly(self, p):
        return all(n in self.AC for n in as_p(p).atoms())

    def exp_atom(self, p):
        """exp of an already normalised polynomial"""
        p = as_p(p)
        if p.is_zero():
            return P.const(1)
        name = 'exp{%s}' % p.canon()
        self.EXP[name] = p
        deriv.FN[name] = ('exp', p)          # so that deriv.diff differentiates through it
        if self.is_ac_poly(p):
            self.AC.add(name)
        return P.atom(name)

    def norm(self, q):
        """merge the exp atoms of every monomial into one"""
        q = as_p(q)
        out = P()
        for mono, c in q.t.items():
            arg = P()
            rest = P.const(c)
            seen = False
            for n, e in mono:
                if n in self.EXP:
                    arg = arg + self.EXP[n] * P.const(e)
                    seen = True
                else:
                    rest = rest * P.atom(n, e)
            if seen:
                rest = rest * self.exp_atom(arg)
            out = out + rest
        return out

    # ---------------------------------------------------------------- constructors
    def exp(self, p):
        return self.exp_atom(self.norm(p))

    def _log_atom(self, n):
        if n in self.EXP:
            return self.EXP[n]
        if n in POLYATOM:
            return self.log(POLYATOM[n])
        name = 'log{%s}' % n
        self.LOG[name] = P.atom(n)
        deriv.FN[name] = ('log', P.atom(n))
        if n in self.AC:
            self.AC.add(name)
        return P.atom(name)

    def _log_mono(self, c, mono):
        c = Fraction(c)
        if c <= 0:
            raise Unsupported('log of a non-positive coefficient %s' % c)
        r = P()
        if c != 1:
            r = r + P.atom('log#%s' % c)
            self.AC.add('log#%s' % c)
        for n, e in mono:
            r = r + self._log_atom(n) * P.const(e)
        return r

    def _log_poly(self, u):
        """log of a polynomial without negative powers of '(prim)' atoms"""
        u = self.norm(u)
        if u.is_zero():
            raise Unsupported('log(0)')
        if len(u.t) == 1:
            (mono, c), = u.t.items()
            return self._log_mono(c, mono)
        # pivot: the term after whose removal the remaining polynomial 1 + ... has the smallest canonical text
        best = None
        for mono, c in u.t.items():
            t = P({mono: c})
            q = self.norm(u / t)
            key = q.canon()
            if best is None or key < best[0]:
                best = (key, q, mono, c)
        key, q, mono, c = best
        name = 'log{%s}' % key
        self.LOG[name] = q
        deriv.FN[name] = ('log', q)
        if self.is_ac_poly(q):
            self.AC.add(name)
        return self._log_mono(c, mono) + P.atom(name)

    def log(self, u):
        u = self.norm(u)
        if u.is_zero():
            return P.atom('log{0}')        # -inf marker (only ever compared, e.g. the clamp test of BCE with the guard epsilon pinned to 0)
        N, D = rationalize(u)
        r = self._log_poly(N)
        if not (D.is_const() and D.const_value() == 1):
            r = r - self._log_poly(D)
        return r

    def _split_ac(self, name):
        """exp{p} = exp{p_ac} * exp{p_rest}"""
        p = self.EXP[name]
        pa, pr = P(), P()
        for mono, c in p.t.items():
            t = P({mono: c})
            if all(n in self.AC for n, _ in mono):
                pa = pa + t
            else:
                pr = pr + t
        return pa, pr

    def sum(self, f):
        """SUM over the reduction axis (keepdims) of f"""
        f = self.norm(f)
        out = P()
        for mono, c in f.t.items():
            ac = P.const(c)
            rest = P.const(1)
            for n, e in mono:
                if n in self.EXP:
                    pa, pr = self._split_ac(n)
                    ac = ac * self.exp_atom(pa * P.const(e))
                    rest = rest * self.exp_atom(pr * P.const(e))
                elif n in self.AC:
                    ac = ac * P.atom(n, e)
                else:
                    rest = rest * P.atom(n, e)
            rest = self.norm(rest)
            name = 'sum{%s}' % rest.canon()
            self.SUM[name] = rest
            self.AC.add(name)
            out = out + self.norm(ac) * P.atom(name)
        return self.norm(out)

    def axis_max(self, f):
        name = 'max{%s}' % self.norm(f).canon()
        self.AC.add(name)
        return P.atom(name)

    def opaque(self, fn, *args):
        return P.atom('%s{%s}' % (fn, ','.join(self.norm(a).canon() if isinstance(a, P) else repr(a) for a in args)))

    def equal(self, p, q):
        n1, d1 = rationalize(self.norm(p))
        n2, d2 = rationalize(self.norm(q))
        return self.norm(n1 * d2) == self.norm(n2 * d1)         # exp atoms are merged again after cross-multiplication

    def diff(self, p, var):
        """d p / d var for a term over exp / log atoms (not through axis sums)"""
        p = self.norm(p)
        for n in p.atoms():
            self._no_sum(n, var)
        return self.norm(deriv.diff(p, var))

    def _no_sum(self, n, var, depth=0):
        if depth > 20:
            return
        if n in self.SUM and var in self._deep_atoms(self.SUM[n]):
            raise Unsupported('derivative through an axis sum')
        for reg in (self.EXP, self.LOG):
            if n in reg:
                for m in reg[n].atoms():
                    self._no_sum(m, var, depth + 1)
        if n in POLYATOM:
            for m in POLYATOM[n].atoms():
                self._no_sum(m, var, depth + 1)

    def _deep_atoms(self, p, depth=0):
        out = set()
        for n in as_p(p).atoms():
            out.add(n)
            if depth < 20:
                for reg in (self.EXP, self.LOG, self.SUM, POLYATOM):
                    if n in reg:
                        out |= self._deep_atoms(reg[n], depth + 1)
        return out

    # ---------------------------------------------------------------- hooks for the partial evaluator
    def hooks(self, axis_names=('axis',), compare_false=True):
        xl = self

        def is_axis(v, kw_name=None):
            return v is not None

        def call_hook(pe, name, e, args, kw, env, func, depth):
            n = name or ''
            if n == 'numpy.exp' and len(args) == 1 and isinstance(args[0], (P, int, float)):
                return xl.exp(as_p(args[0]))
            if n == 'numpy.log' and len(args) == 1 and isinstance(args[0], (P, int, float)):
                return xl.log(as_p(args[0]))
            if n in ('numpy.sum', 'numpy.max', 'numpy.amax') and args and isinstance(args[0], P):
                ax = kw.get('axis', args[1] if len(args) > 1 else None)
                kd = kw.get('keepdims', False)
                if ax is None and len(args) == 1:
                    # reduction over the whole array: a scalar, constant along every axis
                    name = '%s{%s}' % ('gsum' if n == 'numpy.sum' else 'gmax', xl.norm(args[0]).canon())
                    xl.AC.add(name)
                    return P.atom(name)
                if ax is None or kd is not True:
                    return NotImplemented
                return xl.sum(args[0]) if n == 'numpy.sum' else xl.axis_max(args[0])
            if n in ('numpy.maximum', 'numpy.minimum') and len(args) == 2:
                a = sorted((as_p(x) for x in args), key=lambda x: x.canon())
                return xl.opaque(n.split('.')[-1], *a)
            if n == 'numpy.where' and len(args) == 3 and isinstance(args[0], P) and all(isinstance(x, (P, int, float)) for x in args[1:]):
                return as_p(args[1]) * args[0] + as_p(args[2]) * (1 - args[0])
            if n == 'numpy.where' and len(args) == 3 and args[0] is False:
                return args[2]
            if n == 'numpy.where' and len(args) == 3 and args[0] is True:
                return args[1]
            return NotImplemented

        def compare_hook(pe, op, a, b):
            # elementwise comparisons of arrays with a clamp constant select a measure-zero region: the generic branch is evaluated
            if isinstance(a, P) and isinstance(b, (P, int, float)) and not isinstance(b, bool) and not a.is_const() and isinstance(op, (ast.Eq,)) and compare_false:
                return False
            if isinstance(a, P) and isinstance(b, (P, int, float)) and not isinstance(b, bool) and not a.is_const() and isinstance(op, (ast.Gt, ast.GtE, ast.Lt, ast.LtE)):
                # an elementwise ordering test of arrays is data (an indicator), not a decision
                return P.atom('ind{%s %s %s}' % (xl.norm(a).canon(), type(op).__name__, as_p(b).canon()))
            return NotImplemented
        return call_hook, compare_hook
