"""Regenerate /verif/MANIFEST.json from the per-property table below (keeps the file valid and in sync with sa/props)."""
import json, os, sys
HERE = os.path.dirname(os.path.abspath(__file__))
VERIF = os.path.dirname(HERE)

CLAIMS = {
 'C01': ('3/C01 and 8.2', 'op-template extraction + abstract interpretation (gradient linearity, must-dependence, axis typestate) + term differentiation + partial evaluation (flag valuations of wrapper and closure; reduction kernels on concrete axis cases) over the 26 tensor ops',
         'Decides the structural necessary conditions of the VJP property for all 26 tensor-op wrappers and their backward kernels (wiring, operand/result binding, accumulation, linearity of every returned gradient in g, un-broadcast targets, inverse permutations, accumulating scatters, reduced-axis re-insertion, dependence on saved values, axis normalisation); it does not decide the numerical value of any Jacobian.'),
 'C02': ('3/C02, 8.2 and 8.9', 'op-template extraction + abstract interpretation (linearity in the upstream gradient, degree-one homogeneity of bilinear kernels in the partner operand, must-dependence) + term differentiation of smooth kernels + partial evaluation of the batch-norm kernels under all mode valuations',
         'Same structural part as C01 for the 22 nn ops plus operand coverage (every child receives a gradient), axis-genericity of softmax kernels, forward/backward agreement of the batch-norm mode predicate, pooling geometry/permutation pairing and layer->op parameter plumbing; closed-form derivative values are not decided.'),
 'C03': ('3/C03 and 8.2', 'CFG dominance + traversal idiom recognition + template rules + partial evaluation of every op wrapper and backward closure over all flag valuations',
         'Decides the code-shape part of the chain rule on DAGs: topological (post-order) traversal with visited test-and-mark swept in reverse, one grad_fn call site executed once per node, identity keyed nodes, += accumulation per operand position in all 48 ops; gradient values are not decided.'),
 'C04': ('3/C04 and 8.9', 'who-may-write scan + path-condition truth tables (release predicate over requires_grad / grad_fn atoms, leafness from the evaluated definition of is_leaf) + freshness of the seed expression + zero_grad and optimizer constructors evaluated on trainable / frozen parameter objects',
         'Decides the gradient-buffer discipline over all histories: writers of Tensor._grad package-wide, truth tables of the zero-init guard (leaf: create iff absent; non-leaf: always reset), root seed (accumulate iff leaf with buffer; owned dtype-converted copy) and release predicate, reset paths; gradient values are not decided.'),
 'C05': ('3/C05, 8.2 and 8.9', 'call-binding against a frozen NumPy signature table + axis/dim typestate (sign facts, copies) + guard tables over raise sites and path conditions + operator composition trees + kernel and constructor evaluation on concrete shape cases + NumPy contract lints (memory order, np.dot rank)',
         'Decides argument plumbing of forward kernels and wrappers, dim normalisation, validation-before-kernel dominance, the operator/reflected-operator table, iteration protocol and constructor plumbing; NumPy value semantics are not decided.'),
 'C06': ('3/C06 and 8.2', 'partial evaluation with path enumeration over a shape-level abstract domain (symbolic arrays, polynomial normal form) for conv_tools and the Loss reduction dispatch + geometry typestate + call binding of layers',
         'Decides int-or-tuple geometry normalisation, the output-size formula at all sites, empty-output rejection, padding constants, per-element definitions of activations / losses as terms, batch-norm statistic choice and variance forms, exhaustive string-mode dispatch and layer->functional plumbing; window layout and value equality with PyTorch are not decided.'),
 'C07': ('3/C07, 8.2 and 8.9', 'partial evaluation of all 48 op wrappers over every flag valuation + guard tables over raise sites and path conditions + typestate of the context managers + truth tables + who-may-write of the stored flag',
         'Decides requires_grad propagation/attachment for all 48 ops, the constructor flag formula, the five flag guards, save-on-enter/restore-on-exit stack discipline of no_grad/retain_grads, no-buffer-without-requires_grad and the release predicate.'),
 'C08': ('3/C08, 8.2 and 8.9', 'may-alias abstract interpretation + control-dependence facts + partial evaluation of step() to polynomial normal forms under all flag valuations + constructors evaluated on parameter objects with symbolic hyper-parameters',
         'Decides ownership of optimizer state, in-place update, frozen-parameter guards, no_grad region, step counter, and equality of the SGD/Adam/AdamW updates with the published rules for every valuation of the configuration predicates; floating-point trajectories are not decided.'),
 'C09': ('3/C09 and 8.2', 'abstract interpretation over a sign/magnitude (overflow) domain of the 14 stability-critical kernels + exp/log term normal form (stabilised formula = mathematical definition)',
         'Decides absence of Inf/NaN hazards (exp of a possibly positive unbounded argument reaching a product with a possibly-zero value, a difference/quotient of unbounded values, a log or a result) and of epsilon-clipping of underflowing probabilities, and that each stabilised forward formula equals its mathematical definition as a term (shifts cancel exactly); accuracy to single precision is not decided.'),
 'C10': ('3/C10', 'abstract interpretation (dtype provenance lattice, NumPy-2 promotion) + def-use/dominance on Tensor.__init__ and the seed path',
         'Decides that NumPy-scalar results keep their dtype in the constructor, that every forward kernel result follows the operand dtype, and that gradient buffers take dtype/shape from the tensor (zeros_like, += only, converted and shape-checked seed); float32/float64 numerical agreement is not decided.'),
 'C11': ('3/C11', 'may-alias abstract interpretation of all kernels + who-may-write scan + positive-control fixture',
         'Decides that no kernel has an in-place effect on storage that may alias a parameter, who may write Tensor.data package-wide, purity of the 48 wrappers/closures, fresh storage of clone/detach and of every gradient buffer, absence of random/clock sources in ops.'),
 'C12': ('3/C12, 8.2 and 8.9', 'partial evaluation of nn/modules.py on a heap of module / parameter objects with shared members (registries as ordered dicts; results of parameters / num_params / train / eval / zero_grad / register_* / __setattr__ / Sequential compared) + who-may-write over the call graph + CFG dominance for subclass constructors',
         'Decides exclusive/replacing registration, registry ordering and writers, identity de-duplication of parameters(), num_params counters, train/eval recursion, parameter loops, base-class discipline of all Module subclasses and Sequential order/composition.'),
 'C13': ('3/C13 and 8.2', 'partial evaluation with path enumeration: layer, functional wrapper and kernel composed under 16 mode valuations, output / stored terms compared in polynomial normal form',
         'Decides Dropout eval identity / single draw / mask orientation / 1/(1-p) scale / product op, BatchNorm statistic choice and update predicate composed over layer, wrapper and kernel, single counter increment, documented moving-average forms; distributions and numerical statistics are not decided.'),
 'C14': ('3/C14 and 8.2', 'composition-tree extraction over the call graph and tree equality for the by-construction identities + exp/log term normal form of partially evaluated kernels for two native identities',
         'Decides the identities that hold by construction in this code base (one side implemented through the other); two native forward identities (log_softmax = log softmax, BCE-with-logits = BCE sigmoid) are decided as term identities; the other natively re-implemented sides are reported as undecided, numerical value equality is not decided.'),
 'C15': ('3/C15 and 8.2', 'partial evaluation of every initialiser to polynomial normal forms with rational exponents (sampler arguments by role) + effect scan',
         'Decides that the documented scale formulas reach the sampler parameters in the right role (std vs variance), fan computation, gain table, mode selection and object effects of every filler; sample statistics are not decided.'),
 'C16': ('3/C16 and 8.2', 'partial evaluation with path enumeration over a shape-level abstract domain (symbolic arrays: layout ops, shapes, strides, evaluated slices) + linearity-domain scatter rule',
         'Decides the shared-structure clauses whose violation makes the im2col/col2im variants disagree or breaks adjointness (window counts, geometry normalisation, accumulating scatter, gather/scatter index pairing, pad/crop, layout permutations); the addressing term (shape and byte strides) of the strided extractor is compared with the loop variants; numerical agreement of the results is not decided.'),
 'C17': ('3/C17', 'call-graph cycle detection + traversal idiom recognition + escape analysis of closures',
         'Decides that backward has no graph-depth recursion, invokes each op once from one call site with O(1) work per edge, that untracked results store no children and closures escape only through the guarded attach, and that intermediates are released.'),
 'C18': ('3/C18 and 8.2', 'partial evaluation with path enumeration over symbolic index sequences (slice trees, gathers) + polynomial normal form of sizes and bounds',
         'Decides complementary slice partitions with floor-rule sizes, single guarded shuffle, X/y pairing, aligned batch slices and iterator protocol, None-guarded transform and the one-hot index rule.'),
 'C19': ('3/C19 and 8.2', 'who-may-call scan over resolved callees + local inference of set-valued names + taint of id()/hash() + partial evaluation of constructors (uninitialised storage filled on every path)',
         'Decides the source discipline the repository controls: manual_seed seeds both global generators, every draw uses them, no iteration over hash-ordered sets, sweep order from a list, id()/hash() only for membership in call-local containers, empty() storage is filled on every constructor path; NumPy/BLAS cross-process identity is not decided.'),
 'C20': ('3/C20, 8.2 and 8.9', 'partial evaluation of the Trainer methods to ordered call traces (per-batch ordering, regions, modes) + fit evaluated for two concrete epochs (history) + definite-assignment dataflow + partial evaluation of the Evaluator per mode / prefix / callback valuation',
         'Decides the per-batch zero_grad -> backward -> step ordering, one training pass per epoch in train mode, eval-mode/no_grad regions without update calls, history bookkeeping, exhaustive evaluator dispatch and definite assignment.'),
}
NOTE = 'Static necessary-condition check (level "other"): every rule instance is enumerated from /repo\'s current source on each run; trusted base = CPython ast parser, the frozen NumPy-role tables and reference formulas in /verif/sa, and the rule definitions in DESIGN.md. It decides the structural part named in level_claimed.text, not the value-level behaviour.'


def main():
    props_dir = os.path.join(HERE, 'props')
    implemented = sorted(f[:-3].upper() for f in os.listdir(props_dir) if f.startswith('c') and f.endswith('.py') and f[1:3].isdigit())
    pending = [p for p in CLAIMS if p not in implemented]
    checks = []
    for p in implemented:
        ref, tech, text = CLAIMS[p]
        checks.append(dict(property_id=p, quick_cmd='/venv/bin/python /verif/sa/check.py %s --tier quick' % p, thorough_cmd='/venv/bin/python /verif/sa/check.py %s --tier thorough' % p,
                           evidence_file='/verif/evidence/%s.json' % p, replay_cmd_template='/venv/bin/python /verif/sa/check.py %s --explain {path}' % p, engine='sa',
                           level_claimed=dict(category='other', text=text, design_ref='DESIGN.md section ' + ref), level_note=NOTE, technique='static analysis: ' + tech))
    m = dict(version=1, setup_cmd='/venv/bin/python /verif/sa/bootstrap.py',
             hooks=dict(guard='PGMESA_SYNAPGRAD_VERIF', enable='none needed: the checks are static (they parse /repo\'s working tree; nothing in /repo is instrumented, imported or executed)',
                        baseline_off_cmd='cd /repo && /venv/bin/python -m pytest -ra -q -p no:cacheprovider --timeout=900 --continue-on-collection-errors', source_commits=[], add_only=True),
             engines=[dict(name='sa', path='/verif/sa', serves_properties=implemented,
                           kind_free_text='repo-specific static analyser: ast program model, statement CFG (networkx), 48-op template catalogue, source normalisation, small abstract interpreter with linearity / must-dependence / alias / dtype / overflow domains, polynomial normal form, term differentiation, partial evaluator with path enumeration over term / shape / index-sequence domains, truth-table comparison of path conditions, definite assignment; thorough tier adds a 252-variant mutant / twin self-test on scratch copies')],
             checks=checks,
             notes='All checks are level "other": sound static checks of structural necessary conditions (see DESIGN.md sections 4 and 8.6 for what is and is not decided per property). /repo carries only unguarded "fix:" commits (listed in known_findings.json), no hooks.',
             not_applicable=[dict(property_id=p, reason='check module not implemented yet in this round (planned static rules: DESIGN.md section %s)' % CLAIMS[p][0]) for p in pending])
    json.dump(m, open(os.path.join(VERIF, 'MANIFEST.json'), 'w'), indent=1)
    print('MANIFEST: %d checks, %d pending' % (len(checks), len(pending)))


if __name__ == '__main__':
    main()
