"""A small structured abstract interpreter over function bodies, parametric in the domain.

The interpreter walks the syntax tree (If -> join of both branches, For/While -> bounded fixpoint with join,
Return -> joined return value); it never evaluates anything concretely.  Domains (sa/domains/*.py) supply the
transfer functions.  Python-level structure the repo's kernels rely on is kept precise by two generic values:

  Tup(items)   a tuple / list with statically known elements (multiple returns, destructuring, *bw_data)
  Const(v)     a literal Python constant

Everything else is a domain value.  A construct the interpreter does not model raises Incomplete.
"""
import ast
from .core import norm, dotted
from .report import Incomplete


class Tup:
    __slots__ = ('items', 'kind')

    def __init__(self, items, kind='tuple'):
        self.items, self.kind = list(items), kind

    def __repr__(self):
        return 'Tup(%s)' % ', '.join(map(repr, self.items))

    def __eq__(self, o):
        return isinstance(o, Tup) and self.items == o.items

    def __hash__(self):
        return hash(('Tup', len(self.items)))


class Const:
    __slots__ = ('v',)

    def __init__(self, v):
        self.v = v

    def __repr__(self):
        return 'Const(%r)' % (self.v,)

    def __eq__(self, o):
        return isinstance(o, Const) and type(self.v) is type(o.v) and self.v == o.v

    def __hash__(self):
        return hash(('Const', repr(self.v)))


class FuncRef:
    """a reference to a function/module object (np.zeros, cpu_ops.add_forward, a local closure, a builtin)"""
    __slots__ = ('name',)

    def __init__(self, name):
        self.name = name

    def __repr__(self):
        return 'FuncRef(%s)' % self.name

    def __eq__(self, o):
        return isinstance(o, FuncRef) and self.name == o.name

    def __hash__(self):
        return hash(self.name)


BUILTINS = {'len', 'range', 'tuple', 'list', 'int', 'float', 'str', 'zip', 'enumerate', 'isinstance', 'sum', 'min', 'max', 'abs',
            'any', 'all', 'slice', 'reversed', 'sorted', 'print', 'type', 'bool', 'id', 'hash', 'set', 'dict', 'iter', 'next',
            'hasattr', 'getattr', 'round', 'map', 'filter', 'super', 'object', 'Ellipsis', 'ValueError', 'RuntimeError', 'TypeError',
            'IndexError', 'NotImplementedError', 'Exception', 'StopIteration', 'AssertionError', 'callable', 'divmod', 'pow'}


class Domain:
    name = 'abstract'

    # --- lattice
    def top(self): raise NotImplementedError
    def join(self, a, b): raise NotImplementedError
    # --- sources
    def literal(self, I, node): return Const(node.value)
    def param(self, I, func, name, index): return self.top()
    def global_name(self, I, name): return self.top()
    # --- transfer
    def attribute(self, I, base, attr, node): return self.top()
    def subscript(self, I, base, index, node): return self.top()
    def binop(self, I, op, l, r, node): return self.top()
    def unary(self, I, op, v, node): return self.top()
    def compare(self, I, node, vals): return self.top()
    def boolop(self, I, node, vals): return self.top()
    def call(self, I, callee, args, kwargs, node): return self.top()
    def method(self, I, recv, name, args, kwargs, node): return self.top()
    def iterate(self, I, val, node): return self.top()
    def ifexp(self, I, test, a, b, node): return self.join_any(a, b)
    def store_subscript(self, I, base, index, val, node, aug=None): return base
    def store_attr(self, I, base, attr, val, node, aug=None): return None
    def aug_name(self, I, op, old, new, node): return self.binop(I, op, old, new, node)
    def refine(self, I, test, polarity, env): return env
    def fstring(self, I, node): return self.top()
    def delete(self, I, target, node): pass

    # generic join that understands Tup / Const / FuncRef
    def join_any(self, a, b):
        if a is None: return b
        if b is None: return a
        if isinstance(a, Tup) and isinstance(b, Tup) and len(a.items) == len(b.items):
            return Tup([self.join_any(x, y) for x, y in zip(a.items, b.items)], a.kind)
        if isinstance(a, (Const, FuncRef)) and a == b:
            return a
        return self.join(a, b)


class Interp:
    def __init__(self, model, func, domain, max_iter=4, depth=0, stack=()):
        self.model, self.func, self.domain = model, func, domain
        self.mod = func.mod
        self.max_iter = max_iter
        self.depth = depth
        self.stack = stack + (func.qualname,)
        self.returns = []
        self.events = []        # domain-specific events (effects, hazards) as dicts
        self.nested = {}        # name -> ast.FunctionDef of local closures
        self.current_stmt = None
        self.rebind = {}

    # ------------------------------------------------------------ driver
    def run(self, env=None):
        fn = self.func.node
        env = dict(env or {})
        params = self.func.params
        for i, p in enumerate(params):
            if p not in env:
                env[p] = self.domain.param(self, self.func, p, i)
        a = fn.args
        if a.vararg and not isinstance(env.get(a.vararg.arg), Tup):
            pass
        out_env, term = self.block(fn.body, env)
        ret = None
        for r in self.returns:
            ret = self.domain.join_any(ret, r) if ret is not None else r
        self.final_env = out_env
        return ret

    def event(self, kind, node, **kw):
        kw.update(kind=kind, node=node, stmt=self.current_stmt, func=self.func.qualname,
                  loc='%s:%d' % (self.mod.relpath, getattr(node, 'lineno', 0)))
        self.events.append(kw)

    # ------------------------------------------------------------ statements
    def block(self, stmts, env):
        for s in stmts:
            env, term = self.stmt(s, env)
            if term:
                return env, True
        return env, False

    def join_env(self, a, b):
        out = {}
        for k in set(a) | set(b):
            if k in a and k in b:
                out[k] = self.domain.join_any(a[k], b[k])
            else:
                out[k] = a.get(k, b.get(k))
        return out

    def stmt(self, s, env):
        self.current_stmt = s
        D = self.domain
        if isinstance(s, ast.Expr):
            self.rebind = {}
            self.expr(s.value, env)
            if self.rebind:         # in-place library calls (np.add.at(buf, ...)) change the abstract value of a name
                env = dict(env)
                env.update(self.rebind)
                self.rebind = {}
            return env, False
        if isinstance(s, ast.Assign):
            v = self.expr(s.value, env)
            for t in s.targets:
                env = self.assign(t, v, env, s)
            return env, False
        if isinstance(s, ast.AnnAssign):
            if s.value is not None:
                env = self.assign(s.target, self.expr(s.value, env), env, s)
            return env, False
        if isinstance(s, ast.AugAssign):
            new = self.expr(s.value, env)
            t = s.target
            if isinstance(t, ast.Name):
                old = self.load_name(t.id, env, t)
                env = dict(env)
                env[t.id] = D.aug_name(self, s.op, old, new, s)
            elif isinstance(t, ast.Subscript):
                base = self.expr(t.value, env)
                idx = self.expr(t.slice, env)
                nb = D.store_subscript(self, base, idx, new, s, aug=s.op)
                env = self.rebind_base(t.value, nb, env)
            elif isinstance(t, ast.Attribute):
                base = self.expr(t.value, env)
                D.store_attr(self, base, t.attr, new, s, aug=s.op)
            return env, False
        if isinstance(s, ast.Return):
            self.current_stmt = s
            v = self.expr(s.value, env) if s.value is not None else Const(None)
            self.returns.append(v)
            self.event('return', s, value=v)
            return env, True
        if isinstance(s, ast.Raise):
            if s.exc is not None:
                self.expr(s.exc, env)
            return env, True
        if isinstance(s, ast.If):
            self.expr(s.test, env)
            dec = D.decide(self, s.test, env) if hasattr(D, 'decide') else None
            if dec is True:
                return self.block(s.body, D.refine(self, s.test, True, dict(env)))
            if dec is False:
                return self.block(s.orelse, D.refine(self, s.test, False, dict(env)))
            et, tt = self.block(s.body, D.refine(self, s.test, True, dict(env)))
            ef, tf = self.block(s.orelse, D.refine(self, s.test, False, dict(env)))
            if tt and tf:
                return env, True
            if tt:
                return ef, False
            if tf:
                return et, False
            return self.join_env(et, ef), False
        if isinstance(s, (ast.For, ast.AsyncFor)):
            it = self.expr(s.iter, env)
            cur = dict(env)
            for _ in range(self.max_iter):
                body_env = dict(cur)
                body_env = self.assign(s.target, self.iter_elem(it, s), body_env, s)
                self.loop_ctl = []
                out, term = self.block(s.body, body_env)
                new = self.join_env(cur, out)
                if self.env_eq(new, cur):
                    break
                cur = new
            if s.orelse:
                cur, _ = self.block(s.orelse, cur)
            return cur, False
        if isinstance(s, ast.While):
            cur = dict(env)
            for _ in range(self.max_iter):
                self.expr(s.test, cur)
                out, term = self.block(s.body, D.refine(self, s.test, True, dict(cur)))
                new = self.join_env(cur, out)
                if self.env_eq(new, cur):
                    break
                cur = new
            return cur, False
        if isinstance(s, (ast.With, ast.AsyncWith)):
            for item in s.items:
                v = self.expr(item.context_expr, env)
                if item.optional_vars is not None:
                    env = self.assign(item.optional_vars, v, env, s)
            return self.block(s.body, env)
        if isinstance(s, ast.Try):
            e1, t1 = self.block(s.body, dict(env))
            outs = [] if t1 else [e1]
            for h in s.handlers:
                eh, th = self.block(h.body, self.join_env(env, e1))
                if not th:
                    outs.append(eh)
            if s.orelse and not t1:
                e1, t1 = self.block(s.orelse, e1)
            res = None
            for o in outs:
                res = o if res is None else self.join_env(res, o)
            if res is None:
                return env, True
            if s.finalbody:
                res, tf = self.block(s.finalbody, res)
                return res, tf
            return res, False
        if isinstance(s, (ast.FunctionDef, ast.AsyncFunctionDef)):
            env = dict(env)
            self.nested[s.name] = s
            env[s.name] = FuncRef(self.func.qualname + '.' + s.name)
            return env, False
        if isinstance(s, ast.Assert):
            self.expr(s.test, env)
            return D.refine(self, s.test, True, dict(env)), False
        if isinstance(s, (ast.Pass, ast.Import, ast.ImportFrom, ast.Global, ast.Nonlocal)):
            return env, False
        if isinstance(s, (ast.Break, ast.Continue)):
            return env, False       # over-approximation: flows on (join covers it)
        if isinstance(s, ast.Delete):
            for t in s.targets:
                D.delete(self, t, s)
            return env, False
        raise Incomplete('statement kind %s not modelled (%s)' % (type(s).__name__, norm(s)[:60]))

    def env_eq(self, a, b):
        if set(a) != set(b):
            return False
        for k in a:
            if a[k] is b[k]:
                continue
            try:
                if a[k] != b[k]:
                    return False
            except Exception:
                return False
        return True

    def rebind_base(self, target_expr, newval, env):
        """after an in-place store into <name>[...] the name may denote a changed abstract value"""
        if newval is None:
            return env
        if isinstance(target_expr, ast.Name):
            env = dict(env)
            env[target_expr.id] = newval
        return env

    def assign(self, target, v, env, stmt):
        D = self.domain
        if isinstance(target, ast.Name):
            env = dict(env)
            env[target.id] = v
            return env
        if isinstance(target, (ast.Tuple, ast.List)):
            elts = target.elts
            star = [i for i, e in enumerate(elts) if isinstance(e, ast.Starred)]
            if isinstance(v, Tup) and (star or len(v.items) == len(elts)):
                items = v.items
                if star:
                    i = star[0]
                    n_after = len(elts) - i - 1
                    if len(items) < len(elts) - 1:
                        raise Incomplete('not enough values to unpack at %s' % norm(stmt)[:60])
                    parts = items[:i] + [Tup(items[i:len(items) - n_after], 'list')] + (items[len(items) - n_after:] if n_after else [])
                else:
                    parts = items
                for e, x in zip(elts, parts):
                    env = self.assign(e.value if isinstance(e, ast.Starred) else e, x, env, stmt)
                return env
            elem = self.iter_elem(v, stmt)
            for e in elts:
                env = self.assign(e.value if isinstance(e, ast.Starred) else e, elem, env, stmt)
            return env
        if isinstance(target, ast.Subscript):
            base = self.expr(target.value, env)
            idx = self.expr(target.slice, env)
            nb = D.store_subscript(self, base, idx, v, stmt, aug=None)
            return self.rebind_base(target.value, nb, env)
        if isinstance(target, ast.Attribute):
            base = self.expr(target.value, env)
            D.store_attr(self, base, target.attr, v, stmt, aug=None)
            return env
        if isinstance(target, ast.Starred):
            return self.assign(target.value, v, env, stmt)
        raise Incomplete('assignment target %s not modelled' % type(target).__name__)

    def iter_elem(self, v, node):
        if isinstance(v, Tup) and v.kind == 'zip':
            return Tup(v.items, 'tuple')
        if isinstance(v, Tup):
            r = None
            for x in v.items:
                r = x if r is None else self.domain.join_any(r, x)
            if r is not None:
                return r
        return self.domain.iterate(self, v, node)

    # ------------------------------------------------------------ expressions
    def load_name(self, name, env, node):
        if name in env:
            return env[name]
        # module level: function / class / import alias / global constant
        m = self.mod
        if name in m.aliases:
            tgt = self.model.canonical(m.aliases[name])
            return FuncRef(tgt)
        q = m.modname + '.' + name
        if q in self.model.funcs or q in self.model.classes:
            return FuncRef(q)
        if name in m.globals:
            return self.domain.global_name(self, name)
        if name in BUILTINS:
            return FuncRef('builtins.' + name)
        # closure variable of an enclosing function: unknown here
        return self.domain.global_name(self, name)

    def expr(self, e, env):
        D = self.domain
        if e is None:
            return Const(None)
        if isinstance(e, ast.Constant):
            return D.literal(self, e)
        if isinstance(e, ast.Name):
            return self.load_name(e.id, env, e)
        if isinstance(e, (ast.Tuple, ast.List)):
            items = []
            for x in e.elts:
                if isinstance(x, ast.Starred):
                    sv = self.expr(x.value, env)
                    if isinstance(sv, Tup):
                        items.extend(sv.items)
                    else:
                        return D.call(self, 'builtins.tuple', [sv], {}, e)
                else:
                    items.append(self.expr(x, env))
            return Tup(items, 'tuple' if isinstance(e, ast.Tuple) else 'list')
        if isinstance(e, ast.Attribute):
            base = self.expr(e.value, env)
            if isinstance(base, FuncRef):
                return FuncRef(self.model.canonical(base.name + '.' + e.attr))
            return D.attribute(self, base, e.attr, e)
        if isinstance(e, ast.Subscript):
            base = self.expr(e.value, env)
            idx = self.expr(e.slice, env)
            if isinstance(base, Tup) and isinstance(idx, Const) and isinstance(idx.v, int) and -len(base.items) <= idx.v < len(base.items):
                return base.items[idx.v]
            return D.subscript(self, base, idx, e)
        if isinstance(e, ast.Slice):
            return Tup([self.expr(e.lower, env), self.expr(e.upper, env), self.expr(e.step, env)], 'slice')
        if isinstance(e, ast.BinOp):
            return D.binop(self, e.op, self.expr(e.left, env), self.expr(e.right, env), e)
        if isinstance(e, ast.UnaryOp):
            return D.unary(self, e.op, self.expr(e.operand, env), e)
        if isinstance(e, ast.Compare):
            vals = [self.expr(e.left, env)] + [self.expr(c, env) for c in e.comparators]
            return D.compare(self, e, vals)
        if isinstance(e, ast.BoolOp):
            return D.boolop(self, e, [self.expr(v, env) for v in e.values])
        if isinstance(e, ast.IfExp):
            t = self.expr(e.test, env)
            a = self.expr(e.body, D.refine(self, e.test, True, dict(env)))
            b = self.expr(e.orelse, D.refine(self, e.test, False, dict(env)))
            return D.ifexp(self, t, a, b, e)
        if isinstance(e, ast.Call):
            return self.call(e, env)
        if isinstance(e, (ast.ListComp, ast.GeneratorExp, ast.SetComp)):
            cenv = dict(env)
            for g in e.generators:
                it = self.expr(g.iter, cenv)
                cenv = self.assign(g.target, self.iter_elem(it, e), cenv, e)
                for c in g.ifs:
                    self.expr(c, cenv)
                    cenv = D.refine(self, c, True, cenv)
            elt = self.expr(e.elt, cenv)
            return D.call(self, 'builtins.<comprehension>', [elt], {}, e)
        if isinstance(e, ast.DictComp):
            return D.top()
        if isinstance(e, ast.JoinedStr):
            for v in e.values:
                if isinstance(v, ast.FormattedValue):
                    self.expr(v.value, env)
            return D.fstring(self, e)
        if isinstance(e, ast.Starred):
            return self.expr(e.value, env)
        if isinstance(e, ast.Lambda):
            return FuncRef('<lambda>')
        if isinstance(e, ast.Dict):
            ks, vs = [], []
            for k, v in zip(e.keys, e.values):
                if k is not None:
                    ks.append(self.expr(k, env))
                vs.append(self.expr(v, env))
            if hasattr(D, 'dict_literal'):
                return D.dict_literal(self, ks, vs, e)
            return D.top()
        if isinstance(e, ast.Set):
            for x in e.elts:
                self.expr(x, env)
            return D.top()
        if isinstance(e, ast.NamedExpr):
            # (name := value): the value is bound in the current environment (the dict is shared with the statement that evaluates the expression)
            v = self.expr(e.value, env)
            if isinstance(e.target, ast.Name):
                env[e.target.id] = v
            return v
        raise Incomplete('expression kind %s not modelled (%s)' % (type(e).__name__, norm(e)[:60]))

    def call(self, e, env):
        D = self.domain
        args = []
        for a in e.args:
            if isinstance(a, ast.Starred):
                sv = self.expr(a.value, env)
                if isinstance(sv, Tup):
                    args.extend(sv.items)
                else:
                    args.append(('*', sv))
            else:
                args.append(self.expr(a, env))
        kwargs = {}
        for k in e.keywords:
            if k.arg is None:
                kwargs['**'] = self.expr(k.value, env)
            else:
                kwargs[k.arg] = self.expr(k.value, env)
        f = e.func
        if isinstance(f, ast.Attribute):
            base = self.expr(f.value, env)
            if isinstance(base, FuncRef):
                callee = self.model.canonical(base.name + '.' + f.attr)
                return D.call(self, callee, args, kwargs, e)
            return D.method(self, base, f.attr, args, kwargs, e)
        fv = self.expr(f, env)
        if isinstance(fv, FuncRef):
            return D.call(self, fv.name, args, kwargs, e)
        return D.call(self, None, args, kwargs, e)

    # ------------------------------------------------------------ interprocedural helper
    def summarize(self, callee_qual, arg_values, kwargs=None, domain=None):
        """abstractly run a repo function on the given abstract arguments (bounded depth, no recursion)"""
        f = self.model.funcs.get(callee_qual)
        if f is None:
            raise Incomplete('callee %s not found' % callee_qual)
        if callee_qual in self.stack or self.depth > 6:
            raise Incomplete('recursive / too deep call chain at %s' % callee_qual)
        sub = Interp(self.model, f, domain or self.domain, self.max_iter, self.depth + 1, self.stack)
        env = {}
        params = f.pos_params
        pos = [a for a in arg_values if not (isinstance(a, tuple) and a and a[0] == '*')]
        if len(pos) != len(arg_values):
            raise Incomplete('starred call into %s with unknown arity' % callee_qual)
        if len(pos) > len(params) and not f.node.args.vararg:
            raise Incomplete('too many args for %s' % callee_qual)
        for p, v in zip(params, pos):
            env[p] = v
        for k, v in (kwargs or {}).items():
            if k == '**':
                raise Incomplete('**kwargs call into %s' % callee_qual)
            env[k] = v
        # defaults
        for p, dnode in f.defaults().items():
            if p not in env:
                env[p] = sub.expr(dnode, {})
        ret = sub.run(env)
        self.events.extend(sub.events)
        return ret, sub
