"""DERIV: for smooth elementwise kernels, the backward kernel's formula equals  grad * d(forward formula)/d(operand)
as rational functions in normal form.  The forward return expression is turned into a term (sa/poly.py, with function atoms
exp/log/tanh/pow), differentiated by rewriting (sum / product / chain rules on the term), and compared with the backward
kernel's term after substituting the forward term for "forward output" parameters (exp_a, sqrt_a, tanh_a, sigmoid_a, exp_n_a).
Terms are never evaluated.  Piecewise kernels (relu family, max/min), reductions and matrix products are out of scope.
"""
import ast
from fractions import Fraction
from .poly import P, TermBuilder, Unsupported, as_p, sqrt
from .core import norm, body_walk, dotted
from .report import Incomplete

FN = {}         # atom name -> (function name, argument P [, second argument P])
POLYATOM = {}   # atom name '(canon)' -> primitive polynomial P


def fn_atom(name, *args):
    key = '%s(%s)' % (name, ','.join(a.canon() for a in args))
    FN[key] = (name,) + tuple(args)
    return P.atom(key)


def _register_polyatoms(p):
    """atoms of the form '(canon)' created by P.power: remember their primitive polynomial (re-parse not needed: built on demand)"""
    return p


class DerivBuilder(TermBuilder):
    def __init__(self, env, atom_of, model, mod, subst=None):
        super().__init__(env, atom_of, model, mod, self._call)
        self.subst = subst or {}

    def build(self, e):
        if isinstance(e, ast.Name) and e.id in self.subst:
            return self.subst[e.id]
        if isinstance(e, ast.BinOp) and isinstance(e.op, ast.Pow):
            l, r = self.build(e.left), self.build(e.right)
            if r.is_const():
                return l.power(r.const_value())
            return fn_atom('pow', l, r)
        p = super().build(e)
        return p

    def _call(self, tb, name, e):
        args = e.args
        if name in ('numpy.exp', 'numpy.log', 'numpy.tanh') and len(args) == 1:
            return fn_atom(name.split('.')[-1], self.build(args[0]))
        if name in ('numpy.ones', 'numpy.ones_like'):
            return P.const(1)
        if name == 'synapgrad.cpu_ops.unbroadcast' and len(args) == 2:
            return self.build(args[0])      # summing broadcast copies does not change the elementwise formula
        return None


def track_power(p):
    """walk the atoms of p and (re)register '(prim)' atoms by re-deriving prim from the canonical text is impossible; instead
    we intercept P.power through PowerTracker below"""
    return p


# P.power creates opaque atoms '(canon)'; keep their primitive polynomial so that we can differentiate / rationalise them
_orig_power = P.power


def _power(self, q):
    q = Fraction(q)
    if len(self.t) > 1 and not (q.denominator == 1 and 0 < q <= 4) and q != 1 and q != 0:
        content, mono, prim = self.factor()
        POLYATOM['(' + prim.canon() + ')'] = prim
    return _orig_power(self, q)


P.power = _power


def diff(p, var):
    """d p / d var  (var: atom name)"""
    out = P()
    for mono, c in p.t.items():
        for i, (n, e) in enumerate(mono):
            dn = d_atom(n, var)
            if dn is None or dn.is_zero():
                continue
            rest = list(mono)
            if e == 1:
                rest.pop(i)
            else:
                rest[i] = (n, e - 1)
            term = P({tuple(sorted((a, b) for a, b in rest if b != 0)): c * e})
            out = out + term * dn
    return out


def d_atom(n, var):
    if n == var:
        return P.const(1)
    if n in FN:
        f = FN[n]
        name, a = f[0], f[1]
        da = diff(a, var)
        if name == 'exp':
            return P.atom(n) * da
        if name == 'log':
            return da / a
        if name == 'tanh':
            return (1 - P.atom(n) * P.atom(n)) * da
        if name == 'pow':
            b, ex = f[1], f[2]
            db, dex = diff(b, var), diff(ex, var)
            r = P()
            if not db.is_zero():
                r = r + ex * fn_atom('pow', b, ex - 1) * db
            if not dex.is_zero():
                r = r + P.atom(n) * fn_atom('log', b) * dex
            return r
        raise Unsupported('derivative of %s' % name)
    if n in POLYATOM:
        return diff(POLYATOM[n], var)           # chain rule handled by the exponent in diff()
    return P()


def rationalize(p):
    """-> (N, D): p = N / D with the opaque '(prim)'^(-k) (integer k) atoms cleared into the denominator and
    '(prim)'^(+k) expanded"""
    N, D = p, P.const(1)
    changed = True
    guard = 0
    while changed and guard < 20:
        changed = False
        guard += 1
        need = {}
        for mono in N.t:
            for n, e in mono:
                if n in POLYATOM and e.denominator == 1 and e < 0:
                    need[n] = max(need.get(n, 0), int(-e))
        for n, k in need.items():
            fac = P.atom(n, k)
            N = N * fac
            D = D * fac
            changed = True
        # expand positive integer powers of poly atoms
        def expand(q):
            out = P()
            for mono, c in q.t.items():
                term = P({(): c})
                for n, e in mono:
                    if n in POLYATOM and e.denominator == 1 and e > 0:
                        base = POLYATOM[n]
                        for _ in range(int(e)):
                            term = term * base
                    else:
                        term = term * P.atom(n, e)
                out = out + term
            return out
        N2, D2 = expand(N), expand(D)
        if N2 != N or D2 != D:
            changed = True
        N, D = N2, D2
    return N, D


def equal_rational(p, q):
    n1, d1 = rationalize(p)
    n2, d2 = rationalize(q)
    return (n1 * d2) == (n2 * d1)


# ---------------------------------------------------------------------------------------------------------------------------
SMOOTH = {
    # forward kernel -> (operand params differentiated, {backward param holding the forward output})
    'add': (['a', 'b'], {}), 'mul': (['a', 'b'], {}), 'pow': (['a'], {}), 'rpow': (['a'], {'exp_n_a'}), 'neg': (['a'], {}), 'clone': (['a'], {}),
    'exp': (['a'], {'exp_a'}), 'log': (['a'], {}), 'sqrt': (['a'], {'sqrt_a'}),
    'tanh': (['a'], {'tanh_a'}), 'sigmoid': (['a'], {'sigmoid_a'}), 'mse_loss': (['y_pred'], {}),
}


def _single_return_term(model, f, subst=None):
    env = {}

    def atom_of(e):
        if isinstance(e, ast.Attribute) and e.attr in ('shape', 'dtype'):
            return P.atom(norm(e))
        return None
    rets = [n for n in body_walk(f.node) if isinstance(n, ast.Return)]
    if len(rets) != 1:
        raise Unsupported('%s has %d return statements' % (f.name, len(rets)))
    b = DerivBuilder(env, atom_of, model, f.mod, subst)
    for n in sorted([x for x in body_walk(f.node) if isinstance(x, ast.Assign) and isinstance(x.targets[0], ast.Name)], key=lambda x: x.lineno):
        try:
            env[n.targets[0].id] = b.build(n.value)
        except Unsupported:
            env.pop(n.targets[0].id, None)
    v = rets[0].value
    if isinstance(v, ast.Tuple):
        return [b.build(e) for e in v.elts]
    if isinstance(v, ast.Call) and (model.resolve(f.mod, v.func) or '').endswith('copy') or (isinstance(v, ast.Call) and isinstance(v.func, ast.Attribute) and v.func.attr == 'copy'):
        return [b.build(v.func.value)]
    return [b.build(v)]


def check_deriv(model, R, P_, names):
    R.rule(P_ + '.DERIV', 'for smooth elementwise kernels the backward formula equals grad * d(forward formula)/d(operand) as rational functions in normal form '
                          '(term differentiation + normalisation; forward-output parameters are replaced by the forward term)', floor=len(names))
    for nm in names:
        fq, bq = 'synapgrad.cpu_ops.%s_forward' % nm, 'synapgrad.cpu_ops.%s_backward' % nm
        fk, bk = model.func(fq), model.func(bq)
        operands, outs = SMOOTH[nm]
        try:
            fwd = _single_return_term(model, fk)[0]
            subst = {o: fwd for o in outs}
            # shapes are not values: a_shape parameters of add_backward are irrelevant to the formula
            got = _single_return_term(model, bk, subst)
        except (Unsupported, ZeroDivisionError) as u:
            R.incomplete_at(P_ + '.DERIV', bq, 'kernel pair %s is outside the smooth elementwise fragment: %s' % (nm, u))
            continue
        g = P.atom(bk.pos_params[0])
        for k, opnd in enumerate(operands):
            if k >= len(got):
                R.ob(P_ + '.DERIV', bq, 'slot %d' % k, False, 'backward returns %d slots, %d operands are differentiable' % (len(got), len(operands)), bk.loc)
                continue
            try:
                want = g * diff(fwd, opnd)
                ok = equal_rational(got[k], want)
            except (Unsupported, ZeroDivisionError) as u:
                R.incomplete_at(P_ + '.DERIV', bq, str(u))
                continue
            R.ob(P_ + '.DERIV', bq, 'd %s / d %s: %s' % (nm, opnd, got[k].canon()[:100]), ok,
                 'the backward formula is not grad * d(forward)/d(%s); forward = %s, expected %s' % (opnd, fwd.canon()[:80], want.canon()[:120]), bk.loc)
