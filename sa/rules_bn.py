"""BatchNorm rules on evaluated paths (sa/peval.py): the layer's forward, the functional wrapper and the NumPy kernel are composed by
partial evaluation under each valuation of (training, track_running_stats, buffers present, momentum is None); what is compared are the
resulting terms (output formula, stored running statistics, counter), not the spelling of the predicates.

  C13.BN-CHOICE  the output term is (x - M)/sqrt(V + eps)*w + b with (M, V) = the running buffers iff eval mode and buffers exist, else the batch statistics
  C13.BN-ONCE    self.num_batches_tracked is stored exactly once, as old + 1, iff training and tracking; never otherwise
  C13.BN-UPDATE  running_mean.data / running_var.data are stored iff training, tracking and buffers exist, each exactly once, with the documented
                 moving-average term (factor = momentum, or 1/(counter after increment) when momentum is None; unbiased variance n/(n-1))
  C02.MODE       batch_norm_backward takes its batch-statistics branch exactly when batch_norm_forward normalised with batch statistics
"""
import ast, itertools
from .core import norm
from .peval import PE, Opaque, p_sqrt
from .poly import P
from .report import Incomplete

KF = 'synapgrad.cpu_ops.batch_norm_forward'
KB = 'synapgrad.cpu_ops.batch_norm_backward'
WR = 'synapgrad.nn.functional.batch_norm'
LY = 'synapgrad.nn.layers.BatchNorm.forward'


def _stat_hook(rec):
    def hook(pe, name, e, args, kw, env, func, depth):
        if name in ('numpy.mean', 'numpy.var') and args and isinstance(args[0], P):
            tag = name.split('.')[-1]
            extra = sorted(k for k in kw if k not in ('axis',))
            ax = kw.get('axis', args[1] if len(args) > 1 else None)
            rec.append((tag, args[0], getattr(ax, 'text', ax), extra))
            return P.atom('batch_%s%s' % (tag, ''.join('_' + k for k in extra)))
        if name == 'numpy.reshape' and args:
            return args[0]          # broadcasting shape only: the elementwise formula is unchanged
        return NotImplemented
    return hook


def _default(t):
    if t.startswith('isinstance(') or t.startswith('not isinstance('):
        return not t.startswith('not')
    if 'Device.CPU' in t:
        return True
    if 'requires_grad' in t:
        return False
    return None


def layer_paths(model, T, K, B, M):
    f = model.func(LY)
    atoms = {'x.data.ndim': 4}
    if not B:
        atoms['self.running_mean'] = None
        atoms['self.running_var'] = None
    if M:
        atoms['self.momentum'] = None
    rec = []
    pe = PE(model, atoms=atoms, preds={'self.training': T, 'self.track_running_stats': K}, atoms_not_none=True, default_pred=_default, call_hook=_stat_hook(rec), max_depth=5)
    outs = pe.paths(f, {})
    return f, outs, rec


def check_layer(model, R):
    f = model.func(LY)
    X, W, Bi, EPS = P.atom('x.data'), P.atom('self.weight.data'), P.atom('self.bias.data'), P.atom('self.eps')
    RM, RV = P.atom('self.running_mean.data'), P.atom('self.running_var.data')
    MB, VB = P.atom('batch_mean'), P.atom('batch_var')
    NBT = P.atom('self.num_batches_tracked')
    n = P.atom('x.data.size') / P.atom('x.data.shape[1]')
    bad_choice, bad_once, bad_upd, bad_axes = [], [], [], []
    n_paths = 0
    for T, K, B, M in itertools.product((False, True), repeat=4):
        val = dict(training=T, track=K, buffers=B, momentum_none=M)
        try:
            _, outs, rec = layer_paths(model, T, K, B, M)
        except Incomplete as u:
            R.incomplete_at('C13.BN-CHOICE', f.qualname, 'path evaluation under %s: %s' % (val, u))
            return
        outs_ok = [o for o in outs if o.kind == 'return']
        n_paths += len(outs)
        if not outs_ok or len(outs_ok) != len(outs):
            bad_choice.append(dict(val, problem='paths end in %s' % sorted({o.kind for o in outs})))
            continue
        for o in outs_ok:
            tc = [c for c in o.calls if c[0] == 'synapgrad.tensor.Tensor']
            if len(tc) != 1 or not (tc[0][1] or 'data' in tc[0][2]):
                R.incomplete_at('C13.BN-CHOICE', f.qualname, 'result tensor construction not found on the path for %s' % val)
                return
            out = tc[0][1][0] if tc[0][1] else tc[0][2]['data']
            use_running = B and not T
            Mx, Vx = (RM, RV) if use_running else (MB, VB)
            want = (X - Mx) / p_sqrt(Vx + EPS) * W + Bi
            if not (isinstance(out, P) and out == want):
                bad_choice.append(dict(val, got=(out.canon()[:140] if isinstance(out, P) else repr(out)[:140])))
            # counter
            st = [s for s in o.stores if s[0] == 'self.num_batches_tracked']
            if T and K:
                if not (len(st) == 1 and isinstance(st[0][1], P) and st[0][1] == NBT + 1):
                    bad_once.append(dict(val, stores=[(s[0], s[1].canon() if isinstance(s[1], P) else repr(s[1])) for s in st]))
            elif st:
                bad_once.append(dict(val, stores=[s[0] for s in st]))
            # running statistics
            fac = (1 / (NBT + 1)) if M else P.atom('self.momentum')
            wants = {'self.running_mean.data': MB * fac + RM * (1 - fac), 'self.running_var.data': VB * (n / (n - 1)) * fac + RV * (1 - fac)}
            for key, w in wants.items():
                st = [s for s in o.stores if s[0] == key]
                if T and K and B:
                    if not (len(st) == 1 and isinstance(st[0][1], P) and st[0][1] == w):
                        bad_upd.append(dict(val, buffer=key, got=[(s[1].canon()[:160] if isinstance(s[1], P) else repr(s[1])[:80]) for s in st]))
                elif [s for s in st if not (isinstance(s[1], P) and s[1] == P.atom(key))]:      # writing the unchanged value back is a no-op
                    bad_upd.append(dict(val, buffer=key, got='written although not (training and tracking and buffers)'))
            if not (T and K and B):
                rebinds = sorted({t for q, t, st_ in o.trace if q == KF and t in ('running_mean', 'running_var')})
                if rebinds:
                    bad_upd.append(dict(val, buffer=rebinds, got='the kernel rebinds its running_* parameter on a path that must not update (even a value-preserving recomputation rounds)'))
            other = [s[0] for s in o.stores if s[0].startswith('self.') and s[0] not in ('self.num_batches_tracked', 'self.running_mean.data', 'self.running_var.data')]
            if other:
                bad_upd.append(dict(val, buffer=other, got='unexpected state written by forward'))
        for tag, arg, ax, extra in rec:
            if not (isinstance(arg, P) and arg == X) or not (isinstance(ax, (tuple, list)) and tuple(ax) == (0, 2, 3)) or extra:
                bad_axes.append((tag, arg.canon() if isinstance(arg, P) else repr(arg), ax, extra))
    R.analysed['bn_paths_evaluated'] = n_paths
    R.ob('C13.BN-CHOICE', f.qualname, 'output term over 16 valuations (layer + wrapper + kernel composed)', not bad_choice,
         'the output must be (x - M)/sqrt(V + eps)*w + b with the running buffers iff eval mode and buffers exist, batch statistics otherwise; differs for %s' % bad_choice[:2], f.loc)
    R.ob('C13.BN-CHOICE', KF, 'batch statistics are np.mean / np.var of x over the non-channel axes (0, 2, 3) of a rank-4 input (no ddof)', not bad_axes, 'unexpected statistics: %s' % bad_axes[:2], model.func(KF).loc)
    R.ob('C13.BN-ONCE', f.qualname, 'self.num_batches_tracked <- old + 1 exactly once iff training and tracking', not bad_once,
         'the batch counter must advance by exactly one per training forward with tracking, and never otherwise; differs for %s' % bad_once[:2], f.loc)
    R.ob('C13.BN-UPDATE', f.qualname, 'running_mean.data / running_var.data <- stat*f + running*(1-f), f = momentum or 1/(counter after increment), unbiased variance', not bad_upd,
         'running statistics must be written once with the documented moving average iff training, tracking and buffers exist (eval never writes); differs for %s' % bad_upd[:2], f.loc)
    return not (bad_choice or bad_once or bad_upd)


def kernel_forward(model, T, present):
    kern = model.func(KF)
    ps = kern.pos_params
    args = {ps[0]: P.atom('x'), 'gamma': P.atom('gamma'), 'beta': P.atom('beta'), 'running_mean': P.atom('running_mean') if present else None,
            'running_var': P.atom('running_var') if present else None, 'training': T, 'momentum': P.atom('momentum'), 'eps': P.atom('eps')}
    args = {k: v for k, v in args.items() if k in kern.params}
    if len(args) != 8:
        raise Incomplete('batch_norm_forward parameters changed: %s' % kern.params)
    rec = []
    outs = PE(model, atoms_not_none=True, call_hook=_stat_hook(rec)).paths(kern, args)
    return kern, outs


def kernel_backward(model, T, S):
    kern = model.func(KB)
    want = ['grad', 'x', 'gamma', 'beta', 'track_running_stats', 'training', 'eps', 'mean', 'variance']
    if kern.pos_params != want:
        raise Incomplete('batch_norm_backward parameters changed: %s' % kern.pos_params)
    args = {p: P.atom(p) for p in want}
    args['track_running_stats'] = S
    args['training'] = T
    rec = []
    outs = PE(model, atoms_not_none=True, call_hook=_stat_hook(rec)).paths(kern, args)
    return kern, outs


def check_mode_pair(model, R):
    bq = KB
    bad = []
    eval_formula = P.atom('grad') * P.atom('gamma') / p_sqrt(P.atom('variance') + P.atom('eps'))
    try:
        for T, S in itertools.product((False, True), repeat=2):
            fk, fouts = kernel_forward(model, T, S)
            bk, bouts = kernel_backward(model, T, S)
            if len(fouts) != 1 or len(bouts) != 1 or fouts[0].kind != 'return' or bouts[0].kind != 'return':
                raise Incomplete('kernel paths under training=%s, stats present=%s: forward %s, backward %s' % (T, S, [o.kind for o in fouts], [o.kind for o in bouts]))
            fv, bv = fouts[0].value, bouts[0].value
            if not (isinstance(fv, tuple) and len(fv) == 5 and isinstance(bv, tuple) and len(bv) == 3):
                raise Incomplete('kernel result arity changed')
            f_running = isinstance(fv[3], P) and fv[3] == P.atom('running_mean')
            f_running_v = isinstance(fv[4], P) and fv[4] == P.atom('running_var')
            b_running = isinstance(bv[0], P) and bv[0] == eval_formula
            if not (f_running == f_running_v == b_running):
                bad.append(dict(training=T, stats_present=S, forward_uses_running=(f_running, f_running_v), backward_uses_constant_statistics_formula=b_running))
    except Incomplete as u:
        R.incomplete_at('C02.MODE', bq, str(u))
        return
    bk = model.func(KB)
    R.ob('C02.MODE', bq, 'statistics used by forward vs differentiated by backward over (training, stats present)', not bad,
         'where the forward normalises with constant running statistics the backward must be grad*gamma/sqrt(var+eps), and the full batch-statistics gradient otherwise; disagree for %s' % bad[:2], bk.loc)
    R.ob('C02.MODE', bq, 'eval-mode backward term = grad*gamma/sqrt(variance+eps)', not [b for b in bad if not b['training'] and b['stats_present']],
         'with constant statistics d out/d x = gamma/sqrt(var+eps)', bk.loc)
