"""Lowering passes of the source normaliser: ordinary compiler clean-ups that remove *indirection* a refactoring may introduce, so that the rules see the
same program whether a value is passed directly or through a private constant, a packed tuple, a keyword dict, a dispatch table, functools.partial, a local
closure, a lambda, or a dict used as a record.  Each pass is behaviour preserving under the side conditions it checks; when a condition fails the code is
left as it is (the rules then either understand it or report ANALYSIS-INCOMPLETE - never a verdict about code that was rewritten unsoundly).

  consts      private module / class constants (assigned once, never re-bound, only read)      _AXIS = -1 ... f(x, _AXIS)      ->  f(x, -1)
  pack        a local bound once to a tuple / list / dict literal and used element-wise          g = (s, p, d) ; f(x, *g)        ->  f(x, s, p, d)
                                                                                                 kw = dict(axis=a) ; f(x, **kw)  ->  f(x, axis=a)
  fold        subscripts of literals, len() of literals, dict(k=v), D.get(c), getattr(o, 'c'),   {'a': f}['a'](x) -> f(x)
              (lambda p: e)(a), tuple(map(f, xs)), constant comparisons and `if <constant>:`
  alias       f = np.argmax ; f(a)  ->  np.argmax(a) ;  s = partial(np.sum, axis=k) ; s(x)  ->  np.sum(x, axis=k) ;  r = other_local (aggregate alias)
  record      st = {} ; st['k'] = v ; ... st['k'] ...   ->  st__k = v ; ... st__k ...            (dict never escapes, constant keys only)
  closures    a nested def / lambda that is only ever called in its defining function is inlined at its calls (same machinery as private helpers)
  dispatch    for T, fn in ((A, f), (B, g)): if isinstance(v, T): fn(v); break  else: E          ->  if isinstance(v, A): f(v) elif isinstance(v, B): g(v) else: E
"""
import ast
import copy


# ------------------------------------------------------------------------------------------------ utilities
def _parents(root):
    p = {}
    for n in ast.walk(root):
        for c in ast.iter_child_nodes(n):
            p[id(c)] = n
    return p


def _own_params(fn):
    a = fn.args
    out = {x.arg for x in a.posonlyargs + a.args + a.kwonlyargs}
    if a.vararg:
        out.add(a.vararg.arg)
    if a.kwarg:
        out.add(a.kwarg.arg)
    return out


def _bind_counts(fn):
    """name -> number of binding occurrences anywhere below fn (own parameters excluded; parameters and locals of nested scopes included: conservative)"""
    d = {}

    def add(k):
        d[k] = d.get(k, 0) + 1
    for n in ast.walk(fn):
        if isinstance(n, ast.Name) and isinstance(n.ctx, (ast.Store, ast.Del)):
            add(n.id)
        elif isinstance(n, (ast.FunctionDef, ast.ClassDef, ast.AsyncFunctionDef)) and n is not fn:
            add(n.name)
        elif isinstance(n, ast.arg):
            add(n.arg)
        elif isinstance(n, ast.alias):
            add((n.asname or n.name).split('.')[0])
        elif isinstance(n, ast.ExceptHandler) and n.name:
            add(n.name)
        elif isinstance(n, (ast.Global, ast.Nonlocal)):
            for x in n.names:
                add(x)
                add(x)      # never a candidate
    for p in _own_params(fn):
        d[p] = d.get(p, 0) - 1
    return d


def _stmt_order(fn):
    """id(stmt) -> position in a pre-order walk of the statements of fn (nested defs included), and id(node) -> id(enclosing stmt)"""
    order, owner, loops = {}, {}, {}
    k = [0]

    def walk(stmts, in_loop):
        for s in stmts:
            order[id(s)] = k[0]
            loops[id(s)] = in_loop
            k[0] += 1
            for n in ast.walk(s):
                owner.setdefault(id(n), id(s)) if not isinstance(n, ast.stmt) or n is s else None
            inner = in_loop or isinstance(s, (ast.For, ast.While))
            if isinstance(s, (ast.FunctionDef, ast.AsyncFunctionDef, ast.ClassDef)):
                inner = True            # a body that runs later, possibly repeatedly
            for fld in ('body', 'orelse', 'finalbody'):
                v = getattr(s, fld, None)
                if isinstance(v, list) and v and isinstance(v[0], ast.stmt):
                    walk(v, inner)
            if isinstance(s, ast.Try):
                for h in s.handlers:
                    walk(h.body, inner)
            if hasattr(ast, 'Match') and isinstance(s, ast.Match):
                for c in s.cases:
                    walk(c.body, inner)
    walk(fn.body, False)
    # owner of expression nodes: the innermost statement
    owner = {}

    def own(stmts):
        for s in stmts:
            for n in ast.iter_child_nodes(s):
                mark(n, s)

    def mark(n, s):
        if isinstance(n, ast.stmt):
            for c in ast.iter_child_nodes(n):
                mark(c, n)
            return
        owner[id(n)] = id(s)
        for c in ast.iter_child_nodes(n):
            mark(c, s)
    for s in fn.body:
        for c in ast.iter_child_nodes(s):
            mark(c, s)
    return order, owner, loops


def _pure(e):
    """evaluating e has no effect and its value depends only on the names it reads"""
    for n in ast.walk(e):
        if isinstance(n, (ast.Call, ast.Yield, ast.YieldFrom, ast.Await, ast.NamedExpr, ast.ListComp, ast.SetComp, ast.DictComp, ast.GeneratorExp)):
            return False
    return True


def _const_key(e):
    if isinstance(e, ast.Constant) and isinstance(e.value, (str, int, bool, type(None), float)) and not isinstance(e.value, bytes):
        return (type(e.value).__name__, e.value)
    if isinstance(e, ast.Tuple) and all(_const_key(x) is not None for x in e.elts):
        return ('tuple', tuple(_const_key(x) for x in e.elts))
    if isinstance(e, ast.UnaryOp) and isinstance(e.op, ast.USub) and isinstance(e.operand, ast.Constant) and isinstance(e.operand.value, (int, float)):
        return (type(e.operand.value).__name__, -e.operand.value)
    return None


def _literal_ok(e, depth=0):
    """an immutable literal, or a table (dict / list / tuple) of literals, names, attribute chains, lambdas"""
    if depth > 4:
        return False
    if isinstance(e, ast.Constant):
        return True
    if isinstance(e, ast.UnaryOp) and isinstance(e.op, (ast.USub, ast.UAdd)) and isinstance(e.operand, ast.Constant):
        return True
    if isinstance(e, (ast.Tuple, ast.List)):
        return all(not isinstance(x, ast.Starred) and _literal_ok(x, depth + 1) for x in e.elts)
    if isinstance(e, ast.Dict):
        return all(k is not None and _const_key(k) is not None for k in e.keys) and all(_literal_ok(v, depth + 1) for v in e.values)
    if isinstance(e, ast.Name):
        return depth > 0
    if isinstance(e, ast.Attribute):
        x = e
        while isinstance(x, ast.Attribute):
            x = x.value
        return depth > 0 and isinstance(x, ast.Name)
    if isinstance(e, ast.Lambda):
        return depth > 0
    if isinstance(e, ast.JoinedStr):
        return False
    if isinstance(e, ast.BinOp) and isinstance(e.op, ast.Add) and isinstance(e.left, ast.Constant) and isinstance(e.right, ast.Constant) \
            and isinstance(e.left.value, str) and isinstance(e.right.value, str):
        return True
    return False


def _immutable(e):
    if isinstance(e, ast.Constant):
        return True
    if isinstance(e, ast.UnaryOp) and isinstance(e.op, (ast.USub, ast.UAdd)) and isinstance(e.operand, ast.Constant):
        return True
    if isinstance(e, ast.Tuple):
        return all(_immutable(x) or _type_ref(x) for x in e.elts)
    if isinstance(e, ast.BinOp) and isinstance(e.op, ast.Add) and isinstance(e.left, ast.Constant) and isinstance(e.right, ast.Constant):
        return True
    return False


def _type_ref(e):
    """a (dotted) name inside a constant tuple - e.g. the classes of an isinstance tuple"""
    while isinstance(e, ast.Attribute):
        e = e.value
    return isinstance(e, ast.Name)


SAFE_TABLE_METHODS = {'get', 'items', 'keys', 'values', 'index', 'count'}


def _table_use_ok(load, parents):
    """the occurrence `load` of a table name only reads the table"""
    par = parents.get(id(load))
    if isinstance(par, ast.Subscript) and par.value is load and isinstance(par.ctx, ast.Load):
        return True
    if isinstance(par, ast.Attribute) and par.value is load and par.attr in SAFE_TABLE_METHODS:
        g = parents.get(id(par))
        return isinstance(g, ast.Call) and g.func is par
    if isinstance(par, ast.Compare) and load in par.comparators:
        return True
    if isinstance(par, (ast.For, ast.comprehension)) and par.iter is load:
        return True
    if isinstance(par, ast.Call) and isinstance(par.func, ast.Name) and par.func.id in ('len', 'tuple', 'list', 'dict', 'sorted', 'enumerate', 'reversed', 'zip') and load in par.args:
        return True
    if isinstance(par, ast.Starred):
        return True
    if isinstance(par, ast.keyword) and par.arg is None:
        return True
    return False


# ------------------------------------------------------------------------------------------------ private constants
def module_consts(tree):
    """substitute private module-level constants and private class-level constants; returns True when something changed"""
    changed = False
    parents = _parents(tree)
    # ---- module level
    cands = {}
    counts = {}
    for s in tree.body:
        for n in ast.walk(s) if not isinstance(s, (ast.FunctionDef, ast.ClassDef, ast.AsyncFunctionDef)) else []:
            if isinstance(n, ast.Name) and isinstance(n.ctx, (ast.Store, ast.Del)):
                counts[n.id] = counts.get(n.id, 0) + 1
        if isinstance(s, ast.Assign) and len(s.targets) == 1 and isinstance(s.targets[0], ast.Name):
            nm = s.targets[0].id
            if (nm.startswith('_') and not nm.startswith('__')) and (_immutable(s.value) or _literal_ok(s.value)):
                cands[nm] = s
        if isinstance(s, (ast.FunctionDef, ast.ClassDef, ast.AsyncFunctionDef)):
            counts[s.name] = counts.get(s.name, 0) + 1
    globs = set()
    for n in ast.walk(tree):
        if isinstance(n, (ast.Global, ast.Nonlocal)):
            globs.update(n.names)
    for nm, asg in list(cands.items()):
        if counts.get(nm, 0) != 1 or nm in globs:
            del cands[nm]
    if cands:
        # occurrences per name, with the function scopes in which the name is shadowed
        for nm, asg in cands.items():
            loads = []
            ok = True
            shadow_fns = []
            for fn in ast.walk(tree):
                if isinstance(fn, (ast.FunctionDef, ast.AsyncFunctionDef, ast.Lambda)):
                    bound = {x.arg for x in fn.args.posonlyargs + fn.args.args + fn.args.kwonlyargs}
                    if fn.args.vararg:
                        bound.add(fn.args.vararg.arg)
                    if fn.args.kwarg:
                        bound.add(fn.args.kwarg.arg)
                    if not isinstance(fn, ast.Lambda):
                        for x in ast.walk(fn):
                            if isinstance(x, ast.Name) and isinstance(x.ctx, (ast.Store, ast.Del)):
                                bound.add(x.id)
                    if nm in bound:
                        shadow_fns.append(fn)
            shadowed = set()
            for fn in shadow_fns:
                for x in ast.walk(fn):
                    shadowed.add(id(x))
            for n in ast.walk(tree):
                if isinstance(n, ast.Name) and n.id == nm and isinstance(n.ctx, ast.Load) and id(n) not in shadowed:
                    loads.append(n)
            if not _immutable(asg.value):
                if not all(_table_use_ok(l, parents) for l in loads):
                    ok = False
            if not ok or not loads:
                continue
            ids = {id(l) for l in loads}

            class Sub(ast.NodeTransformer):
                def visit_Name(self, n):
                    if id(n) in ids:
                        return ast.copy_location(copy.deepcopy(asg.value), n)
                    return n
            Sub().visit(tree)
            changed = True
    # ---- class level:  class C:  _T = <literal> ;  uses  self._T / C._T / cls._T
    for cls in [n for n in tree.body if isinstance(n, ast.ClassDef)]:
        ccands = {}
        for s in cls.body:
            if isinstance(s, ast.Assign) and len(s.targets) == 1 and isinstance(s.targets[0], ast.Name):
                nm = s.targets[0].id
                if nm.startswith('_') and not (nm.startswith('__') and nm.endswith('__')) and (_immutable(s.value) or _literal_ok(s.value)):
                    ccands[nm] = s
        for nm, asg in ccands.items():
            if sum(1 for s in cls.body for x in ast.walk(s) if isinstance(x, ast.Name) and x.id == nm and isinstance(x.ctx, ast.Store)) != 1:
                continue
            attr_names = {nm}
            if nm.startswith('__'):
                attr_names.add('_%s%s' % (cls.name.lstrip('_'), nm))
            uses, ok = [], True
            for n in ast.walk(tree):
                if isinstance(n, ast.Attribute) and n.attr in attr_names:
                    if not isinstance(n.ctx, ast.Load):
                        ok = False
                    elif isinstance(n.value, ast.Name) and n.value.id in ('self', 'cls', cls.name):
                        uses.append(n)
                    else:
                        ok = False
                if isinstance(n, ast.Constant) and isinstance(n.value, str) and n.value in attr_names:
                    ok = False      # getattr / setattr by name
            # plain-name reads inside the class body (other class-level statements)
            if any(isinstance(x, ast.Name) and x.id == nm and isinstance(x.ctx, ast.Load) for s in cls.body if not isinstance(s, ast.FunctionDef) for x in ast.walk(s)):
                ok = False
            if not ok or not uses:
                continue
            if not _immutable(asg.value) and not all(_table_use_ok(u, parents) for u in uses):
                continue
            ids = {id(u) for u in uses}

            class SubA(ast.NodeTransformer):
                def visit_Attribute(self, n):
                    if id(n) in ids:
                        return ast.copy_location(copy.deepcopy(asg.value), n)
                    return self.generic_visit(n)
            SubA().visit(tree)
            changed = True
    return changed


# ------------------------------------------------------------------------------------------------ expression folding
def _partial_names(tree):
    """local spellings of functools.partial and functools.reduce in this module"""
    part, red, mods = set(), set(), set()
    for n in ast.walk(tree):
        if isinstance(n, ast.ImportFrom) and n.module == 'functools':
            for a in n.names:
                if a.name == 'partial':
                    part.add(a.asname or a.name)
                if a.name == 'reduce':
                    red.add(a.asname or a.name)
        if isinstance(n, ast.Import):
            for a in n.names:
                if a.name == 'functools':
                    mods.add(a.asname or a.name)
    return part, red, mods


class Fold(ast.NodeTransformer):
    def __init__(self, ctx):
        self.ctx = ctx
        self.changed = False
        self.counter = 0
        self.shadowed = set()       # builtin names re-bound in the function being folded

    def is_partial(self, f):
        part, _, mods = self.ctx
        if isinstance(f, ast.Name) and f.id in part:
            return True
        return isinstance(f, ast.Attribute) and f.attr == 'partial' and isinstance(f.value, ast.Name) and f.value.id in mods

    @staticmethod
    def _lambda_call(e):
        return isinstance(e, ast.Call) and isinstance(e.func, ast.Lambda) and not e.args and not e.keywords and _pure(e.func.body)

    def hit(self, new, old):
        self.changed = True
        ast.copy_location(new, old)
        ast.fix_missing_locations(new)
        return new

    def visit_Assign(self, node):
        self.generic_visit(node)
        v = node.value
        # a, b = (f(t) for t in (x, y))   ->   a, b = (f(x), f(y))
        if len(node.targets) == 1 and isinstance(node.targets[0], (ast.Tuple, ast.List)) and isinstance(v, (ast.GeneratorExp, ast.ListComp)):
            from .normalize import UnrollComp
            ex = UnrollComp()._expand(v)
            if ex is not None and len(ex) == len(node.targets[0].elts):
                node.value = ast.copy_location(ast.Tuple(elts=ex, ctx=ast.Load()), v)
                ast.fix_missing_locations(node)
                self.changed = True
                v = node.value
        # a, b = map(f, (x, y))   ->   a, b = (f(x), f(y))
        if len(node.targets) == 1 and isinstance(node.targets[0], (ast.Tuple, ast.List)) and isinstance(v, ast.Call) and isinstance(v.func, ast.Name) and v.func.id == 'map' \
                and len(v.args) >= 2 and not v.keywords and all(isinstance(a, (ast.Tuple, ast.List)) and not any(isinstance(x, ast.Starred) for x in a.elts) for a in v.args[1:]) \
                and len({len(a.elts) for a in v.args[1:]}) == 1 and len(v.args[1].elts) == len(node.targets[0].elts) and isinstance(v.args[0], (ast.Name, ast.Attribute, ast.Lambda)):
            calls = [ast.Call(func=copy.deepcopy(v.args[0]), args=[copy.deepcopy(a.elts[i]) for a in v.args[1:]], keywords=[]) for i in range(len(v.args[1].elts))]
            node.value = ast.copy_location(ast.Tuple(elts=calls, ctx=ast.Load()), v)
            ast.fix_missing_locations(node)
            self.changed = True
        return node

    def visit_Name(self, node):
        if node.id == 'Ellipsis' and isinstance(node.ctx, ast.Load):
            return self.hit(ast.Constant(value=Ellipsis), node)        # the builtin name and the literal `...` are the same object
        return node

    def visit_Subscript(self, node):
        self.generic_visit(node)
        if not isinstance(node.ctx, ast.Load):
            return node
        v, sl = node.value, node.slice
        k = _const_key(sl)
        if isinstance(v, ast.Dict) and k is not None and all(x is not None for x in v.keys):
            keys = [_const_key(x) for x in v.keys]
            if all(x is not None for x in keys) and k in keys:
                hitv = v.values[len(keys) - 1 - keys[::-1].index(k)]
                if all(_pure(x) for x in v.values):
                    return self.hit(copy.deepcopy(hitv), node)
        if isinstance(v, (ast.Tuple, ast.List)) and k is not None and k[0] == 'int' and not any(isinstance(x, ast.Starred) for x in v.elts):
            i = k[1]
            if -len(v.elts) <= i < len(v.elts) and all(_pure(x) for x in v.elts):
                return self.hit(copy.deepcopy(v.elts[i]), node)
        return node

    def visit_Call(self, node):
        self.generic_visit(node)
        # star / double-star of literals
        if any(isinstance(a, ast.Starred) and isinstance(a.value, (ast.Tuple, ast.List)) and not any(isinstance(x, ast.Starred) for x in a.value.elts) for a in node.args):
            new = []
            for a in node.args:
                if isinstance(a, ast.Starred) and isinstance(a.value, (ast.Tuple, ast.List)) and not any(isinstance(x, ast.Starred) for x in a.value.elts):
                    new.extend(a.value.elts)
                else:
                    new.append(a)
            node.args = new
            self.changed = True
        if any(k.arg is None and isinstance(k.value, ast.Dict) and all(isinstance(x, ast.Constant) and isinstance(x.value, str) for x in k.value.keys) for k in node.keywords):
            new = []
            for k in node.keywords:
                if k.arg is None and isinstance(k.value, ast.Dict) and all(isinstance(x, ast.Constant) and isinstance(x.value, str) for x in k.value.keys):
                    for kk, vv in zip(k.value.keys, k.value.values):
                        new.append(ast.keyword(arg=kk.value, value=vv))
                else:
                    new.append(k)
            node.keywords = new
            self.changed = True
        f = node.func
        simple = not any(isinstance(a, ast.Starred) for a in node.args) and not any(k.arg is None for k in node.keywords)
        if isinstance(f, ast.Name) and f.id in ('isinstance', 'issubclass') and len(node.args) == 2 and isinstance(node.args[1], ast.BinOp) and isinstance(node.args[1].op, ast.BitOr):
            parts, todo = [], [node.args[1]]
            while todo:
                x = todo.pop(0)
                if isinstance(x, ast.BinOp) and isinstance(x.op, ast.BitOr):
                    todo = [x.left, x.right] + todo
                else:
                    parts.append(x)
            if all(_type_ref(x) or (isinstance(x, ast.Constant) and x.value is None) for x in parts):
                parts = [ast.Call(func=ast.Name(id='type', ctx=ast.Load()), args=[x], keywords=[]) if isinstance(x, ast.Constant) else x for x in parts]
                node.args[1] = ast.copy_location(ast.Tuple(elts=parts, ctx=ast.Load()), node.args[1])
                ast.fix_missing_locations(node)
                self.changed = True
        if isinstance(f, ast.Name) and simple:
            if f.id == 'len' and len(node.args) == 1 and not node.keywords and isinstance(node.args[0], (ast.Tuple, ast.List)) \
                    and not any(isinstance(x, ast.Starred) for x in node.args[0].elts) and all(_pure(x) for x in node.args[0].elts):
                return self.hit(ast.Constant(value=len(node.args[0].elts)), node)
            if f.id == 'dict' and len(node.args) == 1 and not node.keywords and isinstance(node.args[0], (ast.Tuple, ast.List)) and node.args[0].elts \
                    and all(isinstance(e, (ast.Tuple, ast.List)) and len(e.elts) == 2 and _const_key(e.elts[0]) is not None for e in node.args[0].elts) \
                    and len({_const_key(e.elts[0]) for e in node.args[0].elts}) == len(node.args[0].elts):
                # dict((('a', x), ('b', y)))  ->  {'a': x, 'b': y}
                return self.hit(ast.Dict(keys=[e.elts[0] for e in node.args[0].elts], values=[e.elts[1] for e in node.args[0].elts]), node)
            if f.id == 'dict' and not node.args and node.keywords:
                return self.hit(ast.Dict(keys=[ast.Constant(value=k.arg) for k in node.keywords], values=[k.value for k in node.keywords]), node)
            if f.id == 'getattr' and len(node.args) == 2 and not node.keywords and isinstance(node.args[1], ast.Constant) and isinstance(node.args[1].value, str) \
                    and node.args[1].value.isidentifier():
                return self.hit(ast.Attribute(value=node.args[0], attr=node.args[1].value, ctx=ast.Load()), node)
            if f.id in ('tuple', 'list') and len(node.args) == 1 and not node.keywords and isinstance(node.args[0], ast.Call) and isinstance(node.args[0].func, ast.Name) \
                    and node.args[0].func.id == 'map' and len(node.args[0].args) >= 2 and not node.args[0].keywords and isinstance(node.args[0].args[0], (ast.Name, ast.Attribute, ast.Lambda)):
                m = node.args[0]
                self.counter += 1
                vs = ['m%d__%d' % (self.counter, i) for i in range(len(m.args) - 1)]
                it = m.args[1] if len(vs) == 1 else ast.Call(func=ast.Name(id='zip', ctx=ast.Load()), args=list(m.args[1:]), keywords=[])
                tgt = ast.Name(id=vs[0], ctx=ast.Store()) if len(vs) == 1 else ast.Tuple(elts=[ast.Name(id=x, ctx=ast.Store()) for x in vs], ctx=ast.Store())
                elt = ast.Call(func=m.args[0], args=[ast.Name(id=x, ctx=ast.Load()) for x in vs], keywords=[])
                gen = [ast.comprehension(target=tgt, iter=it, ifs=[], is_async=0)]
                if f.id == 'list':
                    return self.hit(self.visit(ast.ListComp(elt=elt, generators=gen)), node)
                return self.hit(ast.Call(func=f, args=[self.visit(ast.GeneratorExp(elt=elt, generators=gen))], keywords=[]), node)
            if f.id == 'zip' and len(node.args) >= 2 and not node.keywords and 'zip' not in self.shadowed \
                    and all(isinstance(a, (ast.Tuple, ast.List)) and not any(isinstance(x, ast.Starred) for x in a.elts) and all(_pure(x) for x in a.elts) for a in node.args):
                # zip((a, b), (c, d)) -> ((a, c), (b, d)): the pairs written out (iterating it is the same sequence of tuples)
                k = min(len(a.elts) for a in node.args)
                rows = [ast.Tuple(elts=[copy.deepcopy(a.elts[i]) for a in node.args], ctx=ast.Load()) for i in range(k)]
                return self.hit(ast.Tuple(elts=rows, ctx=ast.Load()), node)
            if f.id == 'enumerate' and len(node.args) == 1 and not node.keywords and 'enumerate' not in self.shadowed and isinstance(node.args[0], (ast.Tuple, ast.List)) \
                    and node.args[0].elts and not any(isinstance(x, ast.Starred) for x in node.args[0].elts) and all(_pure(x) for x in node.args[0].elts):
                rows = [ast.Tuple(elts=[ast.Constant(value=i), x], ctx=ast.Load()) for i, x in enumerate(node.args[0].elts)]
                return self.hit(ast.Tuple(elts=rows, ctx=ast.Load()), node)
            if f.id == 'filter' and len(node.args) == 2 and not node.keywords and isinstance(node.args[0], (ast.Lambda, ast.Name, ast.Attribute, ast.Constant)) and 'filter' not in self.shadowed:
                self.counter += 1
                v = 'f%d__v' % self.counter
                fn_ = node.args[0]
                if isinstance(fn_, ast.Constant) and fn_.value is None:
                    cond = ast.Name(id=v, ctx=ast.Load())
                elif isinstance(fn_, ast.Constant):
                    cond = None
                else:
                    cond = ast.Call(func=fn_, args=[ast.Name(id=v, ctx=ast.Load())], keywords=[])
                if cond is not None:
                    gen = [ast.comprehension(target=ast.Name(id=v, ctx=ast.Store()), iter=node.args[1], ifs=[cond], is_async=0)]
                    return self.hit(self.visit(ast.GeneratorExp(elt=ast.Name(id=v, ctx=ast.Load()), generators=gen)), node)
            if f.id == 'map' and len(node.args) >= 2 and not node.keywords and isinstance(node.args[0], (ast.Lambda, ast.Name, ast.Attribute)) and 'map' not in self.shadowed \
                    and not any(isinstance(a, ast.Starred) for a in node.args):
                self.counter += 1
                vs = ['m%d__%d' % (self.counter, i) for i in range(len(node.args) - 1)]
                it = node.args[1] if len(vs) == 1 else ast.Call(func=ast.Name(id='zip', ctx=ast.Load()), args=list(node.args[1:]), keywords=[])
                tgt = ast.Name(id=vs[0], ctx=ast.Store()) if len(vs) == 1 else ast.Tuple(elts=[ast.Name(id=x, ctx=ast.Store()) for x in vs], ctx=ast.Store())
                elt = ast.Call(func=node.args[0], args=[ast.Name(id=x, ctx=ast.Load()) for x in vs], keywords=[])
                return self.hit(self.visit(ast.GeneratorExp(elt=elt, generators=[ast.comprehension(target=tgt, iter=it, ifs=[], is_async=0)])), node)
            if f.id in ('max', 'min') and len(node.args) == 1 and not node.keywords and f.id not in self.shadowed and isinstance(node.args[0], (ast.GeneratorExp, ast.ListComp, ast.SetComp)) \
                    and len(node.args[0].generators) == 1 and not node.args[0].generators[0].ifs and isinstance(node.args[0].generators[0].iter, (ast.Tuple, ast.List)) \
                    and node.args[0].generators[0].iter.elts and _boolish(node.args[0].elt):
                # the largest of some booleans is True iff any of them is; the smallest iff all are
                a0 = node.args[0]
                return self.hit(self.visit(ast.Call(func=ast.Name(id='any' if f.id == 'max' else 'all', ctx=ast.Load()), args=[ast.GeneratorExp(elt=a0.elt, generators=a0.generators)], keywords=[])), node)
            if f.id in ('any', 'all') and len(node.args) == 1 and not node.keywords and isinstance(node.args[0], (ast.GeneratorExp, ast.ListComp)) and f.id not in self.shadowed \
                    and isinstance(node.args[0].elt, ast.UnaryOp) and isinstance(node.args[0].elt.op, ast.Not):
                # any(not C ..) -> not all(C ..) ; all(not C ..) -> not any(C ..)       (De Morgan: the element test is written positively)
                a0 = node.args[0]
                inner = ast.Call(func=ast.Name(id='all' if f.id == 'any' else 'any', ctx=ast.Load()), args=[type(a0)(elt=a0.elt.operand, generators=a0.generators)], keywords=[])
                return self.hit(self.visit(ast.UnaryOp(op=ast.Not(), operand=inner)), node)
            if f.id in ('any', 'all') and len(node.args) == 1 and not node.keywords and isinstance(node.args[0], (ast.GeneratorExp, ast.ListComp, ast.Tuple, ast.List)):
                a0 = node.args[0]
                from .normalize import UnrollComp
                if isinstance(a0, (ast.Tuple, ast.List)):
                    ex = None if any(isinstance(x, ast.Starred) for x in a0.elts) or not all(_pure(x) for x in a0.elts) else list(a0.elts)
                else:
                    ex = UnrollComp()._expand(a0)
                    if ex is not None and isinstance(a0, ast.ListComp) and not all(_pure(x) or self._lambda_call(x) for x in ex):
                        ex = None           # a list is built completely before any() looks at it
                if ex:
                    terms = [x if self._boolish(x) else ast.Call(func=ast.Name(id='bool', ctx=ast.Load()), args=[x], keywords=[]) for x in ex]
                    if len(terms) == 1:
                        return self.hit(terms[0], node)
                    return self.hit(self.visit(ast.BoolOp(op=ast.Or() if f.id == 'any' else ast.And(), values=terms)), node)
            if f.id == 'list' and len(node.args) == 1 and not node.keywords:
                a0 = node.args[0]
                if isinstance(a0, ast.GeneratorExp):
                    return self.hit(ast.ListComp(elt=a0.elt, generators=a0.generators), node)
                if isinstance(a0, ast.ListComp) or (isinstance(a0, ast.Call) and isinstance(a0.func, ast.Name) and a0.func.id in ('list', 'sorted') and not any(isinstance(x, ast.Starred) for x in a0.args)):
                    return self.hit(a0, node)           # a copy of a list nobody else holds
            if f.id == 'tuple' and len(node.args) == 1 and not node.keywords and isinstance(node.args[0], ast.Call) and isinstance(node.args[0].func, ast.Name) \
                    and node.args[0].func.id in ('list', 'tuple') and len(node.args[0].args) == 1 and not node.args[0].keywords and not isinstance(node.args[0].args[0], ast.Starred):
                return self.hit(ast.Call(func=f, args=[node.args[0].args[0]], keywords=[]), node)
            if f.id == 'bool' and len(node.args) == 1 and not node.keywords and self._boolish(node.args[0]) and not (isinstance(node.args[0], ast.BoolOp) and not all(_boolish(v) for v in node.args[0].values)):
                return self.hit(node.args[0], node)
        if isinstance(f, ast.Attribute) and f.attr == 'get' and isinstance(f.value, ast.Dict) and simple and 1 <= len(node.args) <= 2 and not node.keywords:
            k = _const_key(node.args[0])
            keys = [_const_key(x) if x is not None else None for x in f.value.keys]
            if k is not None and all(x is not None for x in keys) and all(_pure(x) for x in f.value.values):
                if k in keys:
                    return self.hit(copy.deepcopy(f.value.values[len(keys) - 1 - keys[::-1].index(k)]), node)
                if len(node.args) == 1 or _pure(node.args[1]):
                    return self.hit(node.args[1] if len(node.args) == 2 else ast.Constant(value=None), node)
        if isinstance(f, ast.Attribute) and f.attr in ('items', 'keys', 'values') and isinstance(f.value, ast.Dict) and not node.args and not node.keywords \
                and all(k is not None and _const_key(k) is not None for k in f.value.keys) and all(_pure(v) for v in f.value.values):
            d = f.value
            if f.attr == 'items':
                elts = [ast.Tuple(elts=[k, v], ctx=ast.Load()) for k, v in zip(d.keys, d.values)]
            else:
                elts = list(d.keys if f.attr == 'keys' else d.values)
            return self.hit(ast.Tuple(elts=elts, ctx=ast.Load()), node)
        # ' '.join((a, 'text', b))  ->  f'{a} text {b}'       (a tuple / list display whose items are string literals, f-strings or str(...) calls)
        if isinstance(f, ast.Attribute) and f.attr == 'join' and isinstance(f.value, ast.Constant) and isinstance(f.value.value, str) and simple and len(node.args) == 1 \
                and not node.keywords and isinstance(node.args[0], (ast.Tuple, ast.List)) and node.args[0].elts \
                and all(isinstance(x, ast.JoinedStr) or (isinstance(x, ast.Constant) and isinstance(x.value, str))
                        or (isinstance(x, ast.Call) and isinstance(x.func, ast.Name) and x.func.id == 'str' and len(x.args) == 1 and not x.keywords) for x in node.args[0].elts):
            vals = []
            for i_, x in enumerate(node.args[0].elts):
                if i_ and f.value.value:
                    vals.append(ast.Constant(value=f.value.value))
                if isinstance(x, ast.JoinedStr):
                    vals.extend(x.values)
                elif isinstance(x, ast.Constant):
                    vals.append(x)
                else:
                    vals.append(ast.FormattedValue(value=x.args[0], conversion=-1, format_spec=None))
            merged = []
            for v in vals:
                if isinstance(v, ast.Constant) and merged and isinstance(merged[-1], ast.Constant):
                    merged[-1] = ast.Constant(value=merged[-1].value + v.value)
                else:
                    merged.append(v)
            if len(merged) == 1 and isinstance(merged[0], ast.Constant):
                return self.hit(merged[0], node)
            return self.hit(ast.JoinedStr(values=merged), node)
        # 'a {} b {}'.format(x, y)  ->  f'a {x} b {y}'      (plain fields only)
        if isinstance(f, ast.Attribute) and f.attr == 'format' and isinstance(f.value, ast.Constant) and isinstance(f.value.value, str) and simple:
            import string
            vals, auto, okf = [], 0, True
            kwmap = {k.arg: k.value for k in node.keywords}
            try:
                fields = list(string.Formatter().parse(f.value.value))
            except ValueError:
                fields, okf = [], False
            for lit, field, spec, conv in fields:
                if lit:
                    vals.append(ast.Constant(value=lit))
                if field is None:
                    continue
                if spec or conv:
                    okf = False
                    break
                if field == '' and auto < len(node.args):
                    vals.append(ast.FormattedValue(value=node.args[auto], conversion=-1, format_spec=None))
                    auto += 1
                elif field.isdigit() and int(field) < len(node.args) and auto == 0:
                    vals.append(ast.FormattedValue(value=copy.deepcopy(node.args[int(field)]), conversion=-1, format_spec=None))
                elif field in kwmap:
                    vals.append(ast.FormattedValue(value=copy.deepcopy(kwmap[field]), conversion=-1, format_spec=None))
                else:
                    okf = False
                    break
            if okf and all(_pure(a) for a in node.args) and all(_pure(k.value) for k in node.keywords):
                return self.hit(ast.JoinedStr(values=vals), node)
        # beta reduction
        if isinstance(f, ast.Lambda) and simple:
            r = self._beta(f, node)
            if r is not None:
                return self.hit(r, node)
        # partial(g, a, k=v)(x, y)  ->  g(a, x, y, k=v)
        if isinstance(f, ast.Call) and self.is_partial(f.func) and f.args and not any(isinstance(a, ast.Starred) for a in f.args) and not any(k.arg is None for k in f.keywords) and simple:
            given = {k.arg for k in node.keywords}
            kws = [k for k in f.keywords if k.arg not in given] + list(node.keywords)
            return self.hit(ast.Call(func=f.args[0], args=list(f.args[1:]) + list(node.args), keywords=kws), node)
        return node

    def _boolish(self, e):
        if isinstance(e, ast.Compare):
            return True
        if isinstance(e, ast.BoolOp):
            return all(self._boolish(v) or (isinstance(v, ast.UnaryOp) and isinstance(v.op, ast.Not)) for v in e.values)
        return _boolish(e)

    def _beta(self, lam, call):
        a = lam.args
        if a.vararg or a.kwarg or a.kwonlyargs or a.posonlyargs:
            return None
        ps = [x.arg for x in a.args]
        if len(call.args) > len(ps):
            return None
        b = dict(zip(ps, call.args))
        for k in call.keywords:
            if k.arg not in ps or k.arg in b:
                return None
            b[k.arg] = k.value
        for p, d in zip(ps[len(ps) - len(a.defaults):], a.defaults):
            b.setdefault(p, d)
        if set(b) != set(ps):
            return None
        body = lam.body
        # each argument must be simple, or used exactly once (and then outside any nested lambda / comprehension)
        for p, arg in b.items():
            uses = [n for n in ast.walk(body) if isinstance(n, ast.Name) and n.id == p and isinstance(n.ctx, ast.Load)]
            if not isinstance(arg, (ast.Name, ast.Constant, ast.Attribute)) and not (len(uses) == 1 and _pure(arg)) and not (len(uses) <= 1 and len(b) == 1):
                return None
        for n in ast.walk(body):
            if isinstance(n, (ast.Lambda, ast.ListComp, ast.GeneratorExp, ast.SetComp, ast.DictComp)):
                inner = {x.arg for x in n.args.args} if isinstance(n, ast.Lambda) else {y.id for g in n.generators for y in ast.walk(g.target) if isinstance(y, ast.Name)}
                if inner & set(ps):
                    return None

        class Rn(ast.NodeTransformer):
            def visit_Name(self, n):
                if n.id in b and isinstance(n.ctx, ast.Load):
                    return ast.copy_location(copy.deepcopy(b[n.id]), n)
                return n
        return Rn().visit(copy.deepcopy(body))

    def _flatten_stars(self, node):
        self.generic_visit(node)
        if isinstance(node.ctx, ast.Load) and any(isinstance(x, ast.Starred) and isinstance(x.value, (ast.Tuple, ast.List)) and not any(isinstance(y, ast.Starred) for y in x.value.elts)
                                                 for x in node.elts):
            new = []
            for x in node.elts:
                if isinstance(x, ast.Starred) and isinstance(x.value, (ast.Tuple, ast.List)) and not any(isinstance(y, ast.Starred) for y in x.value.elts):
                    new.extend(x.value.elts)
                else:
                    new.append(x)
            node.elts = new
            self.changed = True
        return node

    def visit_Dict(self, node):
        self.generic_visit(node)
        if any(k is None and isinstance(v, ast.Dict) and all(x is not None for x in v.keys) for k, v in zip(node.keys, node.values)):
            ks, vs = [], []
            for k, v in zip(node.keys, node.values):
                if k is None and isinstance(v, ast.Dict) and all(x is not None for x in v.keys):
                    ks.extend(v.keys)
                    vs.extend(v.values)
                else:
                    ks.append(k)
                    vs.append(v)
            # later duplicates of a constant key override earlier ones, keeping the position of the first (dict display semantics)
            seen, ks2, vs2 = {}, [], []
            for k, v in zip(ks, vs):
                ck = _const_key(k) if k is not None else None
                if ck is not None and ck in seen and all(_pure(x) for x in vs):
                    vs2[seen[ck]] = v
                    continue
                if ck is not None:
                    seen[ck] = len(ks2)
                ks2.append(k)
                vs2.append(v)
            node.keys, node.values = ks2, vs2
            self.changed = True
        return node

    def visit_Tuple(self, node):
        return self._flatten_stars(node)

    def visit_List(self, node):
        return self._flatten_stars(node)

    def visit_BinOp(self, node):
        self.generic_visit(node)
        if isinstance(node.op, ast.Add) and isinstance(node.left, ast.Tuple) and isinstance(node.right, ast.Tuple):
            return self.hit(ast.Tuple(elts=node.left.elts + node.right.elts, ctx=ast.Load()), node)
        # (a, b) + t  ->  (a, b, *t)   and   t + (a, b)  ->  (*t, a, b)      for t a name / tuple(...) call: tuple concatenation written as a display
        def tupleish(e):
            return isinstance(e, ast.Name) or (isinstance(e, ast.Call) and isinstance(e.func, ast.Name) and e.func.id == 'tuple')
        if isinstance(node.op, ast.Add) and isinstance(node.left, ast.Tuple) and node.left.elts and tupleish(node.right):
            return self.hit(ast.Tuple(elts=node.left.elts + [ast.Starred(value=node.right, ctx=ast.Load())], ctx=ast.Load()), node)
        if isinstance(node.op, ast.Add) and isinstance(node.right, ast.Tuple) and node.right.elts and tupleish(node.left):
            return self.hit(ast.Tuple(elts=[ast.Starred(value=node.left, ctx=ast.Load())] + node.right.elts, ctx=ast.Load()), node)
        if isinstance(node.op, ast.Add) and isinstance(node.left, ast.Constant) and isinstance(node.right, ast.Constant) and isinstance(node.left.value, str) and isinstance(node.right.value, str):
            return self.hit(ast.Constant(value=node.left.value + node.right.value), node)
        # {k: a} | {j: b}  ->  {k: a, j: b}     (constant keys; a key of the right operand replaces the same key of the left one but keeps its position; values pure)
        if isinstance(node.op, ast.BitOr) and isinstance(node.left, ast.Dict) and isinstance(node.right, ast.Dict):
            lk = [_const_key(k) if k is not None else None for k in node.left.keys]
            rk = [_const_key(k) if k is not None else None for k in node.right.keys]
            if all(k is not None for k in lk + rk) and len(set(lk)) == len(lk) and len(set(rk)) == len(rk) and (not (set(lk) & set(rk)) or all(_pure(v) for v in node.left.values + node.right.values)):
                keys, vals = list(node.left.keys), list(node.left.values)
                for k, kk, v in zip(rk, node.right.keys, node.right.values):
                    if k in lk:
                        vals[lk.index(k)] = v
                    else:
                        keys.append(kk)
                        vals.append(v)
                return self.hit(ast.Dict(keys=keys, values=vals), node)
        # 'a %s b %s' % (x, y)  ->  f'a {x} b {y}'        (%s fields only; a tuple display on the right, or a single non-tuple expression for one field)
        if isinstance(node.op, ast.Mod) and isinstance(node.left, ast.Constant) and isinstance(node.left.value, str):
            import re as _re
            tmpl = node.left.value
            specs = _re.findall(r'%(?:\([^)]*\))?[#0\- +]*\*?\d*(?:\.\d+)?[a-zA-Z%]', tmpl)
            if specs and all(x == '%s' for x in specs):
                args_ = list(node.right.elts) if isinstance(node.right, ast.Tuple) else ([node.right] if len(specs) == 1 and isinstance(node.right, (ast.Name, ast.Attribute, ast.Constant, ast.Call, ast.Subscript, ast.BinOp)) else None)
                if args_ is not None and len(args_) == len(specs) and not any(isinstance(a, ast.Starred) for a in args_) and all(_pure(a) or len(args_) == 1 for a in args_):
                    pieces = tmpl.split('%s')
                    vals = []
                    for i_, pc in enumerate(pieces):
                        if pc:
                            vals.append(ast.Constant(value=pc))
                        if i_ < len(args_):
                            vals.append(ast.FormattedValue(value=args_[i_], conversion=-1, format_spec=None))
                    return self.hit(ast.JoinedStr(values=vals), node)
        return node

    def visit_Compare(self, node):
        self.generic_visit(node)
        # next((v for v in X if C), _MARK) is not _MARK  ->  any(C for v in X)      (_MARK = object(): a private marker no element can be)
        if len(node.ops) == 1 and isinstance(node.ops[0], (ast.Is, ast.IsNot)) and isinstance(node.comparators[0], ast.Name) and node.comparators[0].id in _SENTINELS \
                and node.comparators[0].id not in self.shadowed and isinstance(node.left, ast.Call) and isinstance(node.left.func, ast.Name) and node.left.func.id == 'next' \
                and len(node.left.args) == 2 and not node.left.keywords and isinstance(node.left.args[1], ast.Name) and node.left.args[1].id == node.comparators[0].id \
                and isinstance(node.left.args[0], ast.GeneratorExp) and len(node.left.args[0].generators) == 1 and 'next' not in self.shadowed:
            g = node.left.args[0]
            conds = list(g.generators[0].ifs)
            test = ast.Constant(value=True) if not conds else (conds[0] if len(conds) == 1 else ast.BoolOp(op=ast.And(), values=conds))
            anyc = ast.Call(func=ast.Name(id='any', ctx=ast.Load()), args=[ast.GeneratorExp(elt=test, generators=[ast.comprehension(target=g.generators[0].target, iter=g.generators[0].iter, ifs=[], is_async=0)])], keywords=[])
            e = anyc if isinstance(node.ops[0], ast.IsNot) else ast.UnaryOp(op=ast.Not(), operand=anyc)
            return self.hit(self.visit(e), node)
        # True in {bool(x) for x in xs}  ->  any(bool(x) for x in xs) ;  False in [..]  ->  not all(..)         (collections of booleans)
        if len(node.ops) == 1 and isinstance(node.ops[0], (ast.In, ast.NotIn)) and isinstance(node.left, ast.Constant) and isinstance(node.left.value, bool):
            c = node.comparators[0]
            gen = None
            if isinstance(c, (ast.SetComp, ast.ListComp, ast.GeneratorExp)) and _boolish(c.elt):
                gen = ast.GeneratorExp(elt=c.elt, generators=c.generators)
            elif isinstance(c, (ast.Set, ast.Tuple, ast.List)) and c.elts and all(_boolish(e) for e in c.elts):
                gen = ast.Tuple(elts=list(c.elts), ctx=ast.Load())
            if gen is not None and not (isinstance(c, (ast.ListComp, ast.SetComp)) and False):
                call = ast.Call(func=ast.Name(id='any' if node.left.value else 'all', ctx=ast.Load()), args=[gen], keywords=[])
                e = call if node.left.value else ast.UnaryOp(op=ast.Not(), operand=call)
                if isinstance(node.ops[0], ast.NotIn):
                    e = ast.UnaryOp(op=ast.Not(), operand=e)
                return self.hit(self.visit(e), node)
        if len(node.ops) == 1:
            a, b = _const_key(node.left), _const_key(node.comparators[0])
            op = node.ops[0]
            if a is not None and b is not None and a[0] != 'tuple' and b[0] != 'tuple':
                x, y = a[1], b[1]
                try:
                    if isinstance(op, ast.Eq):
                        return self.hit(ast.Constant(value=x == y), node)
                    if isinstance(op, ast.NotEq):
                        return self.hit(ast.Constant(value=x != y), node)
                    if isinstance(op, ast.Is) and (x is None or y is None or isinstance(x, bool) or isinstance(y, bool)):
                        return self.hit(ast.Constant(value=x is y), node)
                    if isinstance(op, ast.IsNot) and (x is None or y is None or isinstance(x, bool) or isinstance(y, bool)):
                        return self.hit(ast.Constant(value=x is not y), node)
                    if isinstance(op, (ast.Lt, ast.LtE, ast.Gt, ast.GtE)) and isinstance(x, (int, float)) and isinstance(y, (int, float)):
                        r = {ast.Lt: x < y, ast.LtE: x <= y, ast.Gt: x > y, ast.GtE: x >= y}[type(op)]
                        return self.hit(ast.Constant(value=r), node)
                except TypeError:
                    pass
            if a is not None and isinstance(op, (ast.In, ast.NotIn)) and isinstance(node.comparators[0], (ast.Tuple, ast.List, ast.Dict)):
                c = node.comparators[0]
                elts = c.keys if isinstance(c, ast.Dict) else c.elts
                ks = [_const_key(e) if e is not None else None for e in elts]
                if all(k is not None for k in ks) and (isinstance(c, ast.Dict) and all(_pure(v) for v in c.values) or not isinstance(c, ast.Dict)):
                    r = a in ks
                    return self.hit(ast.Constant(value=r if isinstance(op, ast.In) else not r), node)
        return node

    def visit_UnaryOp(self, node):
        self.generic_visit(node)
        if isinstance(node.op, ast.Not) and isinstance(node.operand, ast.Constant) and isinstance(node.operand.value, (bool, type(None))):
            return self.hit(ast.Constant(value=not node.operand.value), node)
        if isinstance(node.op, ast.Not) and isinstance(node.operand, ast.UnaryOp) and isinstance(node.operand.op, ast.Not) and self._boolish(node.operand.operand):
            return self.hit(node.operand.operand, node)         # not not <comparison>
        # not (a in b) -> a not in b ; not (a is b) -> a is not b  (and the reverse): one spelling for a negated membership / identity test
        if isinstance(node.op, ast.Not) and isinstance(node.operand, ast.Compare) and len(node.operand.ops) == 1 and isinstance(node.operand.ops[0], (ast.In, ast.NotIn, ast.Is, ast.IsNot)):
            return self.hit(_neg(node.operand), node)
        return node

    @staticmethod
    def _isinstance_parts(e):
        """(object text, object node, [type nodes]) for isinstance(obj, T) / isinstance(obj, (T1, T2))"""
        if isinstance(e, ast.Call) and isinstance(e.func, ast.Name) and e.func.id == 'isinstance' and len(e.args) == 2 and not e.keywords \
                and not any(isinstance(a, ast.Starred) for a in e.args):
            t = e.args[1]
            ts = list(t.elts) if isinstance(t, ast.Tuple) else [t]
            if all(isinstance(x, (ast.Name, ast.Attribute)) for x in ts) and _pure(e.args[0]):
                return ast.dump(e.args[0]), e.args[0], ts
        return None

    def _merge_isinstance(self, node):
        """isinstance(x, A) or isinstance(x, B) -> isinstance(x, (A, B)) ;  not isinstance(x, A) and not isinstance(x, B) -> not isinstance(x, (A, B))"""
        is_or = isinstance(node.op, ast.Or)

        def parts(v):
            if is_or:
                return self._isinstance_parts(v)
            if isinstance(v, ast.UnaryOp) and isinstance(v.op, ast.Not):
                return self._isinstance_parts(v.operand)
            return None
        out, i, changed = [], 0, False
        vals = node.values
        while i < len(vals):
            p0 = parts(vals[i])
            if p0 is None:
                out.append(vals[i])
                i += 1
                continue
            types = list(p0[2])
            j = i + 1
            while j < len(vals):
                pj = parts(vals[j])
                if pj is None or pj[0] != p0[0]:
                    break
                types.extend(pj[2])
                j += 1
            if j > i + 1:
                seen, uniq = set(), []
                for t in types:
                    k = ast.dump(t)
                    if k not in seen:
                        seen.add(k)
                        uniq.append(t)
                call = ast.Call(func=ast.Name(id='isinstance', ctx=ast.Load()), args=[p0[1], ast.Tuple(elts=uniq, ctx=ast.Load())], keywords=[])
                new = call if is_or else ast.UnaryOp(op=ast.Not(), operand=call)
                ast.copy_location(new, vals[i])
                ast.fix_missing_locations(new)
                out.append(new)
                changed = True
            else:
                out.append(vals[i])
            i = j
        if changed:
            self.changed = True
            if len(out) == 1:
                return out[0]
            node.values = out
        return node

    def visit_BoolOp(self, node):
        self.generic_visit(node)
        vals = list(node.values)
        is_and = isinstance(node.op, ast.And)
        out = []
        for i, v in enumerate(vals):
            if isinstance(v, ast.Constant) and isinstance(v.value, bool):
                if v.value == is_and:
                    if i == len(vals) - 1 and not out:
                        out.append(v)
                    elif i == len(vals) - 1:
                        # `x and True` is x only in boolean context: keep
                        out.append(v)
                    continue        # neutral element in a non-final position
                out.append(v)
                break               # absorbing element: the rest is never evaluated
            out.append(v)
        if len(out) != len(vals):
            self.changed = True
            if len(out) == 1:
                return out[0]
            node.values = out
        return self._merge_isinstance(node)

    def visit_IfExp(self, node):
        self.generic_visit(node)
        if isinstance(node.test, ast.Constant) and isinstance(node.test.value, (bool, type(None), int)):
            return self.hit(node.body if node.test.value else node.orelse, node)
        # A if x is None else B  ->  B if x is not None else A       (one orientation for the None test; `not C` likewise)
        t = node.test
        if (isinstance(t, ast.Compare) and len(t.ops) == 1 and isinstance(t.ops[0], ast.Is) and isinstance(t.comparators[0], ast.Constant) and t.comparators[0].value is None) \
                or (isinstance(t, ast.UnaryOp) and isinstance(t.op, ast.Not)):
            return self.hit(ast.IfExp(test=_neg(t), body=node.orelse, orelse=node.body), node)
        return node

    def visit_JoinedStr(self, node):
        self.generic_visit(node)
        # f"{f'a {x}'}{y}" -> f"a {x}{y}" : a nested f-string / string literal without conversion or format spec is part of the outer one
        if any(isinstance(v, ast.FormattedValue) and v.conversion == -1 and v.format_spec is None and (isinstance(v.value, ast.JoinedStr) or (isinstance(v.value, ast.Constant) and isinstance(v.value.value, str)))
               for v in node.values):
            vals = []
            for v in node.values:
                if isinstance(v, ast.FormattedValue) and v.conversion == -1 and v.format_spec is None and isinstance(v.value, ast.JoinedStr):
                    vals.extend(v.value.values)
                elif isinstance(v, ast.FormattedValue) and v.conversion == -1 and v.format_spec is None and isinstance(v.value, ast.Constant) and isinstance(v.value.value, str):
                    vals.append(v.value)
                else:
                    vals.append(v)
            merged = []
            for v in vals:
                if isinstance(v, ast.Constant) and merged and isinstance(merged[-1], ast.Constant):
                    merged[-1] = ast.Constant(value=merged[-1].value + v.value)
                else:
                    merged.append(v)
            return self.hit(ast.JoinedStr(values=merged), node)
        return node


def _prune_ifs(fn):
    changed = [False]

    def block(stmts):
        out = []
        for s in stmts:
            for fld in ('body', 'orelse', 'finalbody'):
                v = getattr(s, fld, None)
                if isinstance(v, list) and v and isinstance(v[0], ast.stmt) and not isinstance(s, (ast.FunctionDef, ast.ClassDef)):
                    setattr(s, fld, block(v))
            if isinstance(s, ast.Try):
                for h in s.handlers:
                    h.body = block(h.body)
            if isinstance(s, ast.If) and isinstance(s.test, ast.Constant) and isinstance(s.test.value, (bool, type(None), int)):
                changed[0] = True
                out.extend(s.body if s.test.value else s.orelse)
                continue
            if isinstance(s, ast.Assign) and len(s.targets) == 1 and isinstance(s.targets[0], ast.Name) and isinstance(s.value, ast.Name) and s.value.id == s.targets[0].id:
                changed[0] = True       # x = x  (the `else x` arm of a conditional expression that was turned into branches)
                continue
            if isinstance(s, ast.If) and s.orelse and all(isinstance(x, ast.Pass) for x in s.orelse):
                s.orelse = []
                changed[0] = True
            if isinstance(s, ast.If) and s.orelse and all(isinstance(x, ast.Pass) for x in s.body):
                # if c: pass / else: S   ->   if not c: S
                s.test = ast.copy_location(_neg(s.test), s.test)
                s.body, s.orelse = s.orelse, []
                ast.fix_missing_locations(s)
                changed[0] = True
            out.append(s)
        return out or [ast.Pass()]
    fn.body = block(fn.body)
    return changed[0]


# ------------------------------------------------------------------------------------------------ single-binding locals
class _FnInfo:
    def __init__(self, fn):
        self.fn = fn
        self.counts = _bind_counts(fn)
        self.params = _own_params(fn)
        self.parents = _parents(fn)
        self.order, self.owner, self.loops = _stmt_order(fn)

    def single(self, name):
        return self.counts.get(name, 0) == 1 and name not in self.params

    def stable_after(self, names, stmt, uses=None):
        """none of `names` is (re)bound by a statement at or after `stmt` (in pre-order), and `stmt` is not inside a loop.
        With `uses` (the Load nodes that will be replaced): a re-binding after the last use is harmless, and so is one BY the statement of the last use when
        the uses sit in the value of that assignment (the value is evaluated first) - provided no use is inside a loop"""
        if self.loops.get(id(stmt), True):
            return False
        at = self.order.get(id(stmt))
        if at is None:
            return False
        last, last_stmt = None, None
        if uses:
            if any(self.loops.get(self.owner.get(id(u)), True) for u in uses):
                uses = None
            else:
                for u in uses:
                    o = self.order.get(self.owner.get(id(u)))
                    if o is None:
                        uses = None
                        break
                    if last is None or o > last:
                        last, last_stmt = o, self.owner.get(id(u))
        stmt_by_id = None
        for n in ast.walk(self.fn):
            if isinstance(n, ast.Name) and isinstance(n.ctx, (ast.Store, ast.Del)) and n.id in names:
                st = self.owner.get(id(n))
                o = self.order.get(st)
                if o is None or o >= at:
                    if uses and last is not None and o is not None:
                        if o > last:
                            continue
                        if o == last:
                            if stmt_by_id is None:
                                stmt_by_id = {id(x): x for x in ast.walk(self.fn) if isinstance(x, ast.stmt)}
                            ls = stmt_by_id.get(last_stmt)
                            if isinstance(ls, ast.Assign) and all(any(y is u for y in ast.walk(ls.value)) for u in uses if self.owner.get(id(u)) == last_stmt):
                                continue
                    # the binding statement itself binds only its own target
                    return False
            if isinstance(n, ast.arg) and n.arg in names and n.arg not in self.params:
                return False
        return True

    def loads(self, name):
        return [n for n in ast.walk(self.fn) if isinstance(n, ast.Name) and n.id == name and isinstance(n.ctx, ast.Load)]


def _free_names(e):
    return {n.id for n in ast.walk(e) if isinstance(n, ast.Name)}


def _remove_stmt(fn, stmt):
    class D(ast.NodeTransformer):
        def generic_visit(self, n):
            super().generic_visit(n)
            for fld in ('body', 'orelse', 'finalbody'):
                v = getattr(n, fld, None)
                if isinstance(v, list) and v and isinstance(v[0], ast.stmt) and any(x is stmt for x in v):
                    setattr(n, fld, [x for x in v if x is not stmt] or ([ast.Pass()] if fld == 'body' else []))
            if isinstance(n, ast.Try):
                for h in n.handlers:
                    if any(x is stmt for x in h.body):
                        h.body = [x for x in h.body if x is not stmt] or [ast.Pass()]
            return n
    D().visit(fn)


def _seq_use_ok(info, par, ld, n):
    """the load `ld` of a local bound to an n-element tuple / list literal stands in an element-wise position"""
    if isinstance(par, ast.Subscript) and par.value is ld and isinstance(par.ctx, ast.Load) and (_const_key(par.slice) or ('', 0))[0] == 'int' \
            and -n <= _const_key(par.slice)[1] < n:
        return True
    if isinstance(par, ast.Starred) and isinstance(info.parents.get(id(par)), ast.Call):
        return True
    if isinstance(par, ast.Assign) and par.value is ld and len(par.targets) == 1 and isinstance(par.targets[0], (ast.Tuple, ast.List)) \
            and len(par.targets[0].elts) == n and not any(isinstance(x, ast.Starred) for x in par.targets[0].elts):
        return True
    if isinstance(par, (ast.For, ast.comprehension)) and par.iter is ld:
        return True
    if isinstance(par, ast.Call) and isinstance(par.func, ast.Name) and par.func.id in ('len', 'zip', 'enumerate', 'reversed') and ld in par.args:
        return True
    if isinstance(par, ast.Call) and isinstance(par.func, ast.Name) and par.func.id == 'map' and ld in par.args[1:]:
        return True
    return False


def _split_impure_packs(fn):
    """x = [E1, E2] with effectful elements, used only element-wise   ->   x__0 = E1 ; x__1 = E2 ; x = [x__0, x__1]   (then the pack rule applies)"""
    info = _FnInfo(fn)
    for asg in [n for n in ast.walk(fn) if isinstance(n, ast.Assign)]:
        if len(asg.targets) != 1 or not isinstance(asg.targets[0], ast.Name) or not isinstance(asg.value, (ast.Tuple, ast.List)):
            continue
        name, val = asg.targets[0].id, asg.value
        if not info.single(name) or not val.elts or any(isinstance(x, ast.Starred) for x in val.elts) or all(_pure(x) for x in val.elts):
            continue
        at = info.order.get(id(asg))
        if at is None or info.loops.get(id(asg), True):
            continue
        loads = info.loads(name)
        if not loads or not all(info.order.get(info.owner.get(id(ld)), -1) > at and _seq_use_ok(info, info.parents.get(id(ld)), ld, len(val.elts)) for ld in loads):
            continue
        existing = {n.id for n in ast.walk(fn) if isinstance(n, ast.Name)} | info.params
        names = ['%s__%d' % (name, i) for i in range(len(val.elts))]
        if any(x in existing for x in names):
            continue
        new = []
        for nm, e in zip(names, val.elts):
            a = ast.copy_location(ast.Assign(targets=[ast.Name(id=nm, ctx=ast.Store())], value=e), asg)
            new.append(a)
        asg.value = ast.copy_location(type(val)(elts=[ast.Name(id=nm, ctx=ast.Load()) for nm in names], ctx=ast.Load()), val)
        for n in ast.walk(fn):
            for fld in ('body', 'orelse', 'finalbody'):
                v = getattr(n, fld, None)
                if isinstance(v, list) and any(x is asg for x in v):
                    i = [j for j, x in enumerate(v) if x is asg][0]
                    v[i:i] = new
            if isinstance(n, ast.Try):
                for h in n.handlers:
                    if any(x is asg for x in h.body):
                        i = [j for j, x in enumerate(h.body) if x is asg][0]
                        h.body[i:i] = new
        ast.fix_missing_locations(fn)
        return True
    return False


def _propagate_locals(fn, ctx):
    """pack / alias / partial / lambda: a local bound exactly once to an aggregate literal or a callable expression, used in positions where the
    literal (or the callable) can stand in for the name"""
    info = _FnInfo(fn)
    fold = Fold(ctx)
    for asg in [n for n in ast.walk(fn) if isinstance(n, ast.Assign)]:
        if len(asg.targets) != 1 or not isinstance(asg.targets[0], ast.Name):
            continue
        name, val = asg.targets[0].id, asg.value
        if not info.single(name):
            continue
        kind = None
        if isinstance(val, (ast.Tuple, ast.List)) and not any(isinstance(x, ast.Starred) for x in val.elts) and all(_pure(x) for x in val.elts):
            kind = 'seq'
        elif isinstance(val, ast.Dict) and all(k is not None and _const_key(k) is not None for k in val.keys) and all(_pure(x) for x in val.values):
            kind = 'dict'
        elif isinstance(val, ast.Call) and isinstance(val.func, ast.Name) and val.func.id == 'dict' and not val.args and val.keywords and all(k.arg for k in val.keywords) \
                and all(_pure(k.value) for k in val.keywords):
            kind = 'dict'
            val = ast.copy_location(ast.Dict(keys=[ast.Constant(value=k.arg) for k in val.keywords], values=[k.value for k in val.keywords]), val)
            ast.fix_missing_locations(val)
        elif isinstance(val, ast.Lambda):
            kind = 'callable'
        elif isinstance(val, ast.Call) and fold.is_partial(val.func) and val.args and all(_pure(a) for a in val.args[1:]) and all(_pure(k.value) for k in val.keywords) and _pure(val.args[0]):
            kind = 'callable'
        elif isinstance(val, (ast.Name, ast.Attribute)) and _pure(val):
            kind = 'ref'
        elif isinstance(val, ast.JoinedStr) and all(isinstance(v, ast.Constant) or (isinstance(v, ast.FormattedValue) and _pure(v.value) and v.format_spec is None) for v in val.values) \
                and '__' not in name:
            kind = 'str'
        if kind is None:
            continue
        loads = info.loads(name)
        if not loads:
            continue
        free = _free_names(val) - {name}
        if isinstance(val, ast.Lambda):
            free -= {x.arg for x in val.args.args}
        if kind == 'ref' and isinstance(val, ast.Attribute) and info.order.get(id(asg)) is not None and isinstance(val.value, ast.Name):
            # x = self.attr  (an aggregate held in an attribute, read into a local): when the attribute is not re-bound in this function every later use of x is a use of
            # self.attr - also as the base of a subscript store (same object)
            at0 = info.order[id(asg)]
            rebound = any(isinstance(n, ast.Attribute) and n.attr == val.attr and isinstance(n.ctx, (ast.Store, ast.Del)) for n in ast.walk(fn))
            late = [ld for ld in loads if info.order.get(info.owner.get(id(ld)), -1) > at0]
            base_ok = info.counts.get(val.value.id, 0) == 0 or val.value.id in info.params
            sub_only = all(isinstance(info.parents.get(id(ld)), ast.Subscript) and info.parents[id(ld)].value is ld for ld in late)
            if not rebound and late and len(late) == len(loads) and base_ok and sub_only and not info.loops.get(id(asg), True) is None:
                ids3 = {id(x) for x in late}

                class Sub3(ast.NodeTransformer):
                    def visit_Name(self, n):
                        if id(n) in ids3:
                            return ast.copy_location(copy.deepcopy(val), n)
                        return n
                Sub3().visit(fn)
                _remove_stmt(fn, asg)
                ast.fix_missing_locations(fn)
                return True
        if kind == 'ref' and isinstance(val, ast.Attribute) and info.order.get(id(asg)) is not None:
            # a temporary for an attribute read that is consumed by the very next statement (also inside loops)
            plan2 = _attr_temp_uses(info, asg, loads)
            if plan2 is not None:
                ids2 = {id(x) for x in plan2}

                class Sub2(ast.NodeTransformer):
                    def visit_Name(self, n):
                        if id(n) in ids2:
                            return ast.copy_location(copy.deepcopy(val), n)
                        return n
                Sub2().visit(fn)
                _remove_stmt(fn, asg)
                ast.fix_missing_locations(fn)
                return True
        if not info.stable_after(free, asg, uses=loads if kind in ('seq', 'dict', 'callable', 'str') else None):
            continue
        at = info.order.get(id(asg))
        if at is None:
            continue        # binding inside a nested def body handled when that def is processed
        plan = []
        rest = 0
        for ld in loads:
            st = info.owner.get(id(ld))
            if info.order.get(st, -1) <= at:
                rest += 1
                continue
            par = info.parents.get(id(ld))
            if kind == 'seq':
                if _seq_use_ok(info, par, ld, len(val.elts)):
                    plan.append(ld)
                else:
                    rest += 1
            elif kind == 'dict':
                keys = [_const_key(k) for k in val.keys]
                if isinstance(par, ast.Subscript) and par.value is ld and isinstance(par.ctx, ast.Load) and _const_key(par.slice) in keys:
                    plan.append(ld)
                elif isinstance(par, ast.keyword) and par.arg is None and all(isinstance(k, ast.Constant) and isinstance(k.value, str) for k in val.keys):
                    plan.append(ld)
                elif isinstance(par, ast.BinOp) and isinstance(par.op, ast.BitOr) and isinstance(par.right if par.left is ld else par.left, (ast.Dict, ast.Name)):
                    plan.append(ld)         # {..} | d : a new dict is built, d itself is only read
                elif isinstance(par, ast.Attribute) and par.value is ld and par.attr in ('get', 'items', 'keys', 'values') and isinstance(info.parents.get(id(par)), ast.Call) \
                        and info.parents.get(id(par)).func is par:
                    plan.append(ld)
                else:
                    rest += 1
            elif kind == 'callable':
                if isinstance(par, ast.Call) and par.func is ld:
                    plan.append(ld)
                else:
                    rest += 1
            elif kind == 'str':
                # a piece of a message: read once, by a raise / warning statement or by the statement that assembles the message
                if len(loads) == 1 and not info.loops.get(st, True):
                    plan.append(ld)
                else:
                    rest += 1
            elif kind == 'ref':
                # callable alias (only called) or aggregate alias (only subscripted by constants / starred)
                if isinstance(par, ast.Call) and par.func is ld:
                    plan.append(ld)
                elif isinstance(par, ast.Subscript) and par.value is ld and _const_key(par.slice) is not None:
                    plan.append(ld)
                elif isinstance(par, ast.Starred) or (isinstance(par, ast.keyword) and par.arg is None):
                    plan.append(ld)
                else:
                    rest += 1
        if kind == 'ref' and isinstance(val, ast.Name):
            # x = t  (x bound once, t not re-bound afterwards): x is another name for t - every later read of x reads t
            late = [ld for ld in loads if info.order.get(info.owner.get(id(ld)), -1) > at]
            if len(late) != len(loads):
                continue
            t_ = val.id
            if '__' in t_ and '__' not in name and t_ not in info.params \
                    and not any(isinstance(n, (ast.FunctionDef, ast.ClassDef)) and n.name in (t_, name) for n in ast.walk(fn) if n is not fn) \
                    and not any(isinstance(n, ast.arg) and n.arg in (t_, name) for n in ast.walk(fn)):
                # the source is a temporary introduced by helper inlining: keep the name the programmer wrote (t and x are one variable from here on, and x
                # does not occur before the copy)
                for n in ast.walk(fn):
                    if isinstance(n, ast.Name) and n.id == t_:
                        n.id = name
                _remove_stmt(fn, asg)
                ast.fix_missing_locations(fn)
                return True
            plan, rest = late, 0
        elif kind == 'ref':
            if rest or not plan:
                # t = obj.attr read into a temporary that is used only by the statement that follows (its test / its first statement): the attribute is
                # read there instead - nothing can change it in between
                plan2 = _attr_temp_uses(info, asg, loads)
                if plan2 is None:
                    continue
                plan, rest = plan2, 0
            # subscript stores through the alias would write the aliased object: fine (same object), but keep Store contexts intact
        if not plan:
            continue
        if rest and not isinstance(val, (ast.Tuple, ast.Lambda)) and kind != 'callable':
            continue
        if kind == 'str' and rest:
            continue
        if False:
            continue        # a list / dict with other uses may be mutated through them: the literal cannot stand in for the object
        ids = {id(x) for x in plan}

        class Sub(ast.NodeTransformer):
            def visit_Name(self, n):
                if id(n) in ids:
                    return ast.copy_location(copy.deepcopy(val), n)
                return n
        Sub().visit(fn)
        if rest == 0:
            _remove_stmt(fn, asg)
        ast.fix_missing_locations(fn)
        return True         # one rewrite per call: positions / parents are stale afterwards
    return False


def _attr_temp_uses(info, asg, loads):
    """the loads of a temporary `t = <attribute chain>` when all of them sit in the statement right after the assignment - in a simple statement, or in the
    test and the first body statement of an `if` whose test has no calls - and that statement does not store to an attribute of the same name first"""
    blk = None
    for n in ast.walk(info.fn):
        for fld in ('body', 'orelse', 'finalbody'):
            v = getattr(n, fld, None)
            if isinstance(v, list) and any(x is asg for x in v):
                blk = v
    if blk is None:
        return None
    i = [j for j, x in enumerate(blk) if x is asg][0]
    if i + 1 >= len(blk):
        return None
    nxt = blk[i + 1]
    allowed = set()
    if isinstance(nxt, (ast.Assign, ast.AugAssign, ast.Expr, ast.Return, ast.Raise, ast.Assert)):
        allowed = {id(x) for x in ast.walk(nxt)}
        # the use must come before any call in the same statement could change the attribute: accept when the temp is the callee or an argument
    elif isinstance(nxt, ast.If) and _test_pure(nxt.test):
        allowed = {id(x) for x in ast.walk(nxt.test)}
        for br in (nxt.body, nxt.orelse):
            if br and isinstance(br[0], (ast.Assign, ast.AugAssign, ast.Expr, ast.Return)):
                allowed |= {id(x) for x in ast.walk(br[0])}
    else:
        return None
    if not all(id(ld) in allowed for ld in loads):
        # uses spread over the following statements of the same block: fine when nothing between the read and the last use can change the attribute - no call
        # (other than calling the temporary itself, or effect-free builtins) and no store to an attribute of that name anywhere in the function
        if info.loops.get(id(asg), True):
            return None
        owners = {info.owner.get(id(ld)) for ld in loads}
        idx = {id(x): j for j, x in enumerate(blk)}
        tops = []
        for ld in loads:
            top = None
            for x in blk[i + 1:]:
                if any(y is ld for y in ast.walk(x)):
                    top = x
                    break
            if top is None:
                return None
            tops.append(idx[id(top)])
        last = max(tops)
        load_ids = {id(ld) for ld in loads}
        for x in blk[i + 1:last + 1]:
            for c in ast.walk(x):
                if isinstance(c, (ast.For, ast.While, ast.FunctionDef, ast.Lambda)):
                    return None
                if isinstance(c, ast.Call):
                    if id(c.func) in load_ids:
                        continue
                    if isinstance(c.func, ast.Name) and c.func.id in ('len', 'isinstance', 'type', 'hasattr', 'callable', 'bool', 'int', 'float', 'str', 'tuple', 'list', 'range', 'slice'):
                        continue
                    return None
        if any(isinstance(z, ast.Attribute) and z.attr == asg.value.attr and isinstance(z.ctx, (ast.Store, ast.Del)) for z in ast.walk(info.fn)):
            return None
    attr = asg.value.attr
    free = {n.id for n in ast.walk(asg.value) if isinstance(n, ast.Name)}
    for x in ast.walk(nxt):
        if isinstance(x, ast.Attribute) and x.attr == attr and isinstance(x.ctx, (ast.Store, ast.Del)):
            return None
        if isinstance(x, ast.Name) and x.id in free and isinstance(x.ctx, (ast.Store, ast.Del)):
            return None
    if not loads or info.counts.get(asg.targets[0].id, 0) != 1:
        return None
    return list(loads)


def _record_dicts(fn):
    """scalar replacement of a local dict that is used as a record: bound once to {} / dict() / a literal with constant keys and otherwise only
    subscripted with constant keys"""
    info = _FnInfo(fn)
    for asg in [n for n in ast.walk(fn) if isinstance(n, ast.Assign)]:
        if len(asg.targets) != 1 or not isinstance(asg.targets[0], ast.Name):
            continue
        name, val = asg.targets[0].id, asg.value
        if not info.single(name) or info.order.get(id(asg)) is None:
            continue
        if isinstance(val, ast.Call) and isinstance(val.func, ast.Name) and val.func.id == 'dict' and not val.args and all(k.arg for k in val.keywords):
            items = [(('str', k.arg), k.value) for k in val.keywords]
        elif isinstance(val, ast.Dict) and all(k is not None and _const_key(k) is not None for k in val.keys):
            items = [(_const_key(k), v) for k, v in zip(val.keys, val.values)]
        else:
            continue
        occ = [n for n in ast.walk(fn) if isinstance(n, ast.Name) and n.id == name and n is not asg.targets[0]]
        if not occ:
            continue
        ok = True
        stores = 0
        nested = set()
        for d in ast.walk(fn):
            if isinstance(d, (ast.FunctionDef, ast.Lambda, ast.AsyncFunctionDef)) and d is not fn:
                for x in ast.walk(d):
                    nested.add(id(x))
        for o in occ:
            par = info.parents.get(id(o))
            if not (isinstance(par, ast.Subscript) and par.value is o and _const_key(par.slice) is not None and _const_key(par.slice)[0] in ('str', 'int')):
                ok = False
                break
            if isinstance(par.ctx, ast.Del):
                ok = False
                break
            if isinstance(par.ctx, ast.Store):
                stores += 1
                if id(o) in nested:
                    ok = False
                    break
            if info.order.get(info.owner.get(id(o)), -1) < info.order[id(asg)] and id(o) not in nested:
                ok = False
                break
        if not ok or (not stores and items and False):
            continue
        if info.loops.get(id(asg), True) and items:
            continue

        def local(k):
            return '%s__%s' % (name, str(k[1]) if str(k[1]).isidentifier() or isinstance(k[1], int) else 'k%d' % (abs(hash(k)) % 9973))
        existing = {n.id for n in ast.walk(fn) if isinstance(n, ast.Name)} | info.params
        if any(local(_const_key(info.parents[id(o)].slice)) in existing for o in occ):
            continue
        subs = {id(info.parents[id(o)]): info.parents[id(o)] for o in occ}

        class Rp(ast.NodeTransformer):
            def visit_Subscript(self, n):
                if id(n) in subs:
                    return ast.copy_location(ast.Name(id=local(_const_key(n.slice)), ctx=n.ctx), n)
                return self.generic_visit(n)
        Rp().visit(fn)
        new = []
        for k, v in items:
            a = ast.Assign(targets=[ast.Name(id=local(k), ctx=ast.Store())], value=v)
            ast.copy_location(a, asg)
            new.append(a)

        class Ins(ast.NodeTransformer):
            def generic_visit(self, n):
                super().generic_visit(n)
                for fld in ('body', 'orelse', 'finalbody'):
                    v = getattr(n, fld, None)
                    if isinstance(v, list) and any(x is asg for x in v):
                        i = [j for j, x in enumerate(v) if x is asg][0]
                        setattr(n, fld, (v[:i] + new + v[i + 1:]) or [ast.Pass()])
                if isinstance(n, ast.Try):
                    for h in n.handlers:
                        if any(x is asg for x in h.body):
                            i = [j for j, x in enumerate(h.body) if x is asg][0]
                            h.body = (h.body[:i] + new + h.body[i + 1:]) or [ast.Pass()]
                return n
        Ins().visit(fn)
        ast.fix_missing_locations(fn)
        return True
    return False


_RECORDS = {}
_SENTINELS = set()      # private module-level markers `_NAME = object()` of the module being lowered


def _later_in_same_block(fn, stmt, nodes):
    """every node of `nodes` sits in a statement that follows `stmt` in the very block that holds `stmt` (so `stmt` has run, in the same iteration, before any of them)"""
    for n in ast.walk(fn):
        for fld in ('body', 'orelse', 'finalbody'):
            blk = getattr(n, fld, None)
            if isinstance(blk, list) and any(x is stmt for x in blk):
                i = [j for j, x in enumerate(blk) if x is stmt][0]
                later = set()
                for st in blk[i + 1:]:
                    for y in ast.walk(st):
                        later.add(id(y))
                return all(id(u) in later for u in nodes)
        if isinstance(n, ast.Try):
            for h in n.handlers:
                if any(x is stmt for x in h.body):
                    i = [j for j, x in enumerate(h.body) if x is stmt][0]
                    later = {id(y) for st in h.body[i + 1:] for y in ast.walk(st)}
                    return all(id(u) in later for u in nodes)
    return False

def _record_classes(tree):
    """record classes of this module: NamedTuple / @dataclass classes with annotated fields only, and namedtuple(...) factories -> {name: (fields, defaults, kind)}"""
    out = {}
    alias = {}
    for n in ast.walk(tree):
        if isinstance(n, ast.ImportFrom):
            for a in n.names:
                alias[a.asname or a.name] = a.name

    def last(e):
        t = ast.unparse(e).split('.')[-1]
        return alias.get(t, t) if isinstance(e, ast.Name) else t
    for n in tree.body:
        if isinstance(n, ast.ClassDef):
            is_nt = any(last(b) == 'NamedTuple' for b in n.bases)
            is_dc = any(last(d.func if isinstance(d, ast.Call) else d) == 'dataclass' for d in n.decorator_list)
            if not (is_nt or is_dc) or (is_nt and len(n.bases) != 1) or (is_dc and (n.bases or len(n.decorator_list) != 1)):
                continue
            fields, defaults, ok = [], {}, True
            for b in n.body:
                if isinstance(b, ast.Expr) and isinstance(b.value, ast.Constant) and isinstance(b.value.value, str):
                    continue
                if isinstance(b, ast.Pass):
                    continue
                if isinstance(b, ast.AnnAssign) and isinstance(b.target, ast.Name) and 'ClassVar' not in ast.unparse(b.annotation):
                    fields.append(b.target.id)
                    if b.value is not None:
                        if not _literal_ok(b.value) or isinstance(b.value, (ast.List, ast.Dict, ast.Set)) or isinstance(b.value, ast.Call):
                            ok = False
                        defaults[b.target.id] = b.value
                    continue
                ok = False
            if ok and fields:
                out[n.name] = (fields, defaults, 'tuple' if is_nt else 'object')
        elif isinstance(n, ast.Assign) and len(n.targets) == 1 and isinstance(n.targets[0], ast.Name) and isinstance(n.value, ast.Call) \
                and last(n.value.func) == 'namedtuple' and len(n.value.args) == 2 and not n.value.keywords:
            spec = n.value.args[1]
            fields = None
            if isinstance(spec, ast.Constant) and isinstance(spec.value, str):
                fields = spec.value.replace(',', ' ').split()
            elif isinstance(spec, (ast.List, ast.Tuple)) and all(isinstance(e, ast.Constant) and isinstance(e.value, str) for e in spec.elts):
                fields = [e.value for e in spec.elts]
            if fields and all(f.isidentifier() for f in fields):
                out[n.targets[0].id] = (fields, {}, 'tuple')
    # a name that is rebound anywhere in the module is not a record class
    for n in ast.walk(tree):
        if isinstance(n, ast.Name) and isinstance(n.ctx, (ast.Store, ast.Del)) and n.id in out:
            cnt = sum(1 for m in ast.walk(tree) if isinstance(m, ast.Name) and isinstance(m.ctx, ast.Store) and m.id == n.id)
            defs = sum(1 for m in ast.walk(tree) if isinstance(m, ast.ClassDef) and m.name == n.id)
            if cnt + defs != 1:
                out.pop(n.id, None)
    return out


def _record_objects(fn):
    """scalar replacement of a local record:  g = _Rec(a, b) ... g.x ... g.y   ->   g__x = a ; g__y = b ... g__x ... g__y
    (g bound once, outside loops, and every other occurrence is a field access g.f, a constant index g[i] or - for tuple records - a full unpacking)"""
    if not _RECORDS:
        return False
    info = _FnInfo(fn)
    for call in [n for n in ast.walk(fn) if isinstance(n, ast.Call)]:
        f = call.func
        if isinstance(f, ast.Attribute) and f.attr == '_asdict' and not call.args and not call.keywords and isinstance(f.value, ast.Call) and isinstance(f.value.func, ast.Name) \
                and f.value.func.id in _RECORDS and _RECORDS[f.value.func.id][2] == 'tuple' and f.value.func.id not in info.counts and f.value.func.id not in info.params:
            rc = f.value
            fields, defaults, _k = _RECORDS[rc.func.id]
            if any(isinstance(a, ast.Starred) for a in rc.args) or any(k.arg is None or k.arg not in fields for k in rc.keywords) or len(rc.args) > len(fields):
                continue
            bound = dict(zip(fields, rc.args))
            if any(k.arg in bound for k in rc.keywords):
                continue
            bound.update({k.arg: k.value for k in rc.keywords})
            if any(f_ not in bound and f_ not in defaults for f_ in fields):
                continue
            # keyword arguments out of field order would be evaluated in a different order: only when they are pure
            order_ok = [k.arg for k in rc.keywords] == [f_ for f_ in fields if f_ in {k.arg for k in rc.keywords}] or all(_pure(v) for v in bound.values())
            if not order_ok:
                continue
            d = ast.Dict(keys=[ast.Constant(value=f_) for f_ in fields], values=[bound[f_] if f_ in bound else copy.deepcopy(defaults[f_]) for f_ in fields])
            par = info.parents.get(id(call))
            for fld, v in ast.iter_fields(par):
                if v is call:
                    setattr(par, fld, ast.copy_location(d, call))
                elif isinstance(v, list) and any(x is call for x in v):
                    v[[j for j, x in enumerate(v) if x is call][0]] = ast.copy_location(d, call)
            ast.fix_missing_locations(fn)
            return True
    for asg in [n for n in ast.walk(fn) if isinstance(n, ast.Assign)]:
        val = asg.value
        if len(asg.targets) == 1 and isinstance(asg.targets[0], (ast.Tuple, ast.List)) and isinstance(val, ast.Call) and isinstance(val.func, ast.Name) \
                and val.func.id in _RECORDS and _RECORDS[val.func.id][2] == 'tuple' and val.func.id not in info.counts and val.func.id not in info.params \
                and not val.keywords and not any(isinstance(a, ast.Starred) for a in val.args) and len(val.args) == len(_RECORDS[val.func.id][0]):
            asg.value = ast.copy_location(ast.Tuple(elts=list(val.args), ctx=ast.Load()), val)
            ast.fix_missing_locations(asg)
            return True
    for asg in [n for n in ast.walk(fn) if isinstance(n, ast.Assign)]:
        if len(asg.targets) != 1 or not isinstance(asg.targets[0], ast.Name):
            continue
        name, val = asg.targets[0].id, asg.value
        if not (isinstance(val, ast.Call) and isinstance(val.func, ast.Name) and val.func.id in _RECORDS):
            continue
        if val.func.id in info.counts or val.func.id in info.params:
            continue
        if not info.single(name) or info.order.get(id(asg)) is None:
            continue
        if info.loops.get(id(asg), True) and not _later_in_same_block(fn, asg, [n for n in ast.walk(fn) if isinstance(n, ast.Name) and n.id == name and n is not asg.targets[0]]):
            continue
        fields, defaults, kind = _RECORDS[val.func.id]
        starred_all = len(val.args) == 1 and isinstance(val.args[0], ast.Starred) and not val.keywords and not defaults
        if starred_all:
            val = ast.Call(func=val.func, args=[ast.Name(id='__star_%s_%d' % (name, i), ctx=ast.Load()) for i in range(len(fields))], keywords=[])
        if any(isinstance(a, ast.Starred) for a in val.args) or any(k.arg is None for k in val.keywords) or len(val.args) > len(fields):
            continue
        bound = dict(zip(fields, val.args))
        bad = False
        for k in val.keywords:
            if k.arg in bound or k.arg not in fields:
                bad = True
            bound[k.arg] = k.value
        for f in fields:
            if f not in bound:
                if f in defaults:
                    bound[f] = copy.deepcopy(defaults[f])
                else:
                    bad = True
        if bad:
            continue
        occ = [n for n in ast.walk(fn) if isinstance(n, ast.Name) and n.id == name and n is not asg.targets[0]]
        if not occ:
            continue
        nested = set()
        for d in ast.walk(fn):
            if isinstance(d, (ast.FunctionDef, ast.Lambda, ast.AsyncFunctionDef)) and d is not fn:
                for x in ast.walk(d):
                    nested.add(id(x))
        ok = True
        repl = {}
        unpacks = []
        slices = {}
        asdicts = {}
        for o in occ:
            par = info.parents.get(id(o))
            if info.order.get(info.owner.get(id(o)), -1) <= info.order[id(asg)] and id(o) not in nested:
                ok = False
                break
            if isinstance(par, ast.Attribute) and par.value is o and par.attr in fields and not isinstance(par.ctx, ast.Del):
                if isinstance(par.ctx, ast.Store) and (kind == 'tuple' or id(o) in nested):
                    ok = False
                    break
                repl[id(par)] = par.attr
            elif kind == 'tuple' and isinstance(par, ast.Subscript) and par.value is o and isinstance(par.ctx, ast.Load) and _const_key(par.slice) is not None \
                    and _const_key(par.slice)[0] == 'int' and -len(fields) <= _const_key(par.slice)[1] < len(fields):
                repl[id(par)] = fields[_const_key(par.slice)[1]]
            elif kind == 'tuple' and isinstance(par, ast.Assign) and par.value is o and len(par.targets) == 1 and isinstance(par.targets[0], (ast.Tuple, ast.List)) \
                    and len(par.targets[0].elts) == len(fields) and not any(isinstance(e, ast.Starred) for e in par.targets[0].elts):
                unpacks.append(o)
            elif kind == 'tuple' and isinstance(par, ast.Attribute) and par.value is o and par.attr == '_asdict' and isinstance(info.parents.get(id(par)), ast.Call) \
                    and info.parents[id(par)].func is par and not info.parents[id(par)].args and not info.parents[id(par)].keywords:
                asdicts[id(info.parents[id(par)])] = True
            elif kind == 'tuple' and isinstance(par, ast.Subscript) and par.value is o and isinstance(par.ctx, ast.Load) and isinstance(par.slice, ast.Slice) \
                    and all(b is None or (_const_key(b) is not None and _const_key(b)[0] == 'int') for b in (par.slice.lower, par.slice.upper, par.slice.step)):
                sl = slice(*[None if b is None else _const_key(b)[1] for b in (par.slice.lower, par.slice.upper, par.slice.step)])
                if sl.step == 0:
                    ok = False
                    break
                slices[id(par)] = fields[sl]
            else:
                ok = False
                break
        if not ok:
            continue

        def local(f):
            return '%s__%s' % (name, f)
        existing = {n.id for n in ast.walk(fn) if isinstance(n, ast.Name)} | info.params
        if any(local(f) in existing for f in fields):
            continue
        # the field values are evaluated in argument order: positional first, then keywords as written, then defaults (constants)
        order_ = [f for f, _ in zip(fields, val.args)] + [k.arg for k in val.keywords] + [f for f in fields if f not in dict(zip(fields, val.args)) and f not in {k.arg for k in val.keywords}]

        class Rp(ast.NodeTransformer):
            def visit_Attribute(self, n):
                if id(n) in repl:
                    return ast.copy_location(ast.Name(id=local(repl[id(n)]), ctx=n.ctx), n)
                return self.generic_visit(n)

            def visit_Call(self, n):
                if id(n) in asdicts:
                    return ast.copy_location(ast.Dict(keys=[ast.Constant(value=f) for f in fields], values=[ast.Name(id=local(f), ctx=ast.Load()) for f in fields]), n)
                return self.generic_visit(n)

            def visit_Subscript(self, n):
                if id(n) in repl:
                    return ast.copy_location(ast.Name(id=local(repl[id(n)]), ctx=ast.Load()), n)
                if id(n) in slices:
                    return ast.copy_location(ast.Tuple(elts=[ast.Name(id=local(f), ctx=ast.Load()) for f in slices[id(n)]], ctx=ast.Load()), n)
                return self.generic_visit(n)

            def visit_Name(self, n):
                if any(n is u for u in unpacks):
                    return ast.copy_location(ast.Tuple(elts=[ast.Name(id=local(f), ctx=ast.Load()) for f in fields], ctx=ast.Load()), n)
                return n
        Rp().visit(fn)
        new = []
        if starred_all:
            a = ast.Assign(targets=[ast.Tuple(elts=[ast.Name(id=local(f), ctx=ast.Store()) for f in fields], ctx=ast.Store())], value=asg.value.args[0].value)
            ast.copy_location(a, asg)
            new.append(a)
        else:
            for f in order_:
                a = ast.Assign(targets=[ast.Name(id=local(f), ctx=ast.Store())], value=bound[f])
                ast.copy_location(a, asg)
                new.append(a)

        class Ins(ast.NodeTransformer):
            def generic_visit(self, n):
                super().generic_visit(n)
                for fld in ('body', 'orelse', 'finalbody'):
                    v = getattr(n, fld, None)
                    if isinstance(v, list) and any(x is asg for x in v):
                        i = [j for j, x in enumerate(v) if x is asg][0]
                        setattr(n, fld, v[:i] + new + v[i + 1:])
                if isinstance(n, ast.Try):
                    for h in n.handlers:
                        if any(x is asg for x in h.body):
                            i = [j for j, x in enumerate(h.body) if x is asg][0]
                            h.body = h.body[:i] + new + h.body[i + 1:]
                return n
        Ins().visit(fn)
        ast.fix_missing_locations(fn)
        return True
    return False


def _multi_bound_records(fn):
    """r = _Rec(a, b)  in one branch,  r = _Rec(c, d)  in another, r only read through its fields:   r__x = a ; r__y = b  /  r__x = c ; r__y = d   and r.x -> r__x
    (every binding of r is a constructor call of the same record class: the field locals are bound exactly where r was)"""
    if not _RECORDS:
        return False
    info = _FnInfo(fn)
    stores = {}
    for n in ast.walk(fn):
        if isinstance(n, ast.Name) and isinstance(n.ctx, (ast.Store, ast.Del)):
            stores.setdefault(n.id, []).append(n)
    if any(isinstance(d, (ast.FunctionDef, ast.Lambda, ast.ClassDef)) and d is not fn for d in ast.walk(fn)):
        nested_names = {y.id for d in ast.walk(fn) if isinstance(d, (ast.FunctionDef, ast.Lambda, ast.ClassDef)) and d is not fn for y in ast.walk(d) if isinstance(y, ast.Name)}
    else:
        nested_names = set()
    for name, sts in stores.items():
        if len(sts) < 2 or name in info.params or name in nested_names:
            continue
        asgs = []
        cls = None
        ok = True
        for s_ in sts:
            par = info.parents.get(id(s_))
            if not (isinstance(par, ast.Assign) and par.targets == [s_] and isinstance(par.value, ast.Call) and isinstance(par.value.func, ast.Name) and par.value.func.id in _RECORDS):
                ok = False
                break
            if cls not in (None, par.value.func.id) or par.value.func.id in info.counts or par.value.func.id in info.params:
                ok = False
                break
            cls = par.value.func.id
            asgs.append(par)
        if not ok or cls is None:
            continue
        fields, defaults, kind = _RECORDS[cls]
        plans = []
        for a in asgs:
            v = a.value
            if any(isinstance(x, ast.Starred) for x in v.args) or any(k.arg is None or k.arg not in fields for k in v.keywords) or len(v.args) > len(fields):
                ok = False
                break
            bound = dict(zip(fields, v.args))
            if any(k.arg in bound for k in v.keywords):
                ok = False
                break
            order_ = [f for f, _ in zip(fields, v.args)] + [k.arg for k in v.keywords]
            bound.update({k.arg: k.value for k in v.keywords})
            for f in fields:
                if f not in bound:
                    if f not in defaults:
                        ok = False
                        break
                    bound[f] = copy.deepcopy(defaults[f])
                    order_.append(f)
            plans.append((a, bound, order_))
        if not ok:
            continue
        repl = {}
        for o in info.loads(name):
            par = info.parents.get(id(o))
            if isinstance(par, ast.Attribute) and par.value is o and par.attr in fields and isinstance(par.ctx, ast.Load):
                repl[id(par)] = par.attr
            elif kind == 'tuple' and isinstance(par, ast.Subscript) and par.value is o and isinstance(par.ctx, ast.Load) and _const_key(par.slice) is not None \
                    and _const_key(par.slice)[0] == 'int' and -len(fields) <= _const_key(par.slice)[1] < len(fields):
                repl[id(par)] = fields[_const_key(par.slice)[1]]
            else:
                ok = False
                break
        if not ok or not repl:
            continue
        existing = {n.id for n in ast.walk(fn) if isinstance(n, ast.Name)} | info.params
        if any('%s__%s' % (name, f) in existing for f in fields):
            continue

        class Rp(ast.NodeTransformer):
            def visit_Attribute(self, n):
                if id(n) in repl:
                    return ast.copy_location(ast.Name(id='%s__%s' % (name, repl[id(n)]), ctx=ast.Load()), n)
                return self.generic_visit(n)

            def visit_Subscript(self, n):
                if id(n) in repl:
                    return ast.copy_location(ast.Name(id='%s__%s' % (name, repl[id(n)]), ctx=ast.Load()), n)
                return self.generic_visit(n)
        Rp().visit(fn)
        for a, bound, order_ in plans:
            new = [ast.copy_location(ast.Assign(targets=[ast.Name(id='%s__%s' % (name, f), ctx=ast.Store())], value=bound[f]), a) for f in order_]
            for n in ast.walk(fn):
                for fld in ('body', 'orelse', 'finalbody'):
                    v = getattr(n, fld, None)
                    if isinstance(v, list) and any(x is a for x in v):
                        i = [j for j, x in enumerate(v) if x is a][0]
                        v[i:i + 1] = new
                if isinstance(n, ast.Try):
                    for h in n.handlers:
                        if any(x is a for x in h.body):
                            i = [j for j, x in enumerate(h.body) if x is a][0]
                            h.body[i:i + 1] = new
        ast.fix_missing_locations(fn)
        return True
    return False


def _first_match_loops(fn):
    """for T in LITERAL: if TEST: BODY ; break   [else: ELSE]     ->   if TEST[T:=e1]: BODY[T:=e1] elif TEST[T:=e2]: ... else: ELSE
    and the loop without break over a literal of tuples:  for a, b in ((x, y), (u, v)): BODY  ->  BODY[a:=x, b:=y] ; BODY[a:=u, b:=v]"""
    changed = [False]

    def simple(e):
        if isinstance(e, ast.Tuple):
            return all(simple(x) for x in e.elts)
        while isinstance(e, ast.Attribute):
            e = e.value
        return isinstance(e, (ast.Name, ast.Constant, ast.Lambda))

    def rows(loop):
        it = loop.iter
        if not isinstance(it, (ast.Tuple, ast.List)) or not (1 <= len(it.elts) <= 6) or not all(simple(x) for x in it.elts):
            return None
        if isinstance(loop.target, ast.Name):
            return [{loop.target.id: e} for e in it.elts]
        if isinstance(loop.target, ast.Tuple) and all(isinstance(x, ast.Name) for x in loop.target.elts):
            names = [x.id for x in loop.target.elts]
            out = []
            for e in it.elts:
                if not isinstance(e, (ast.Tuple, ast.List)) or len(e.elts) != len(names):
                    return None
                out.append(dict(zip(names, e.elts)))
            return out
        return None

    def subst(stmts, m):
        class Rn(ast.NodeTransformer):
            def visit_Name(self, n):
                if n.id in m and isinstance(n.ctx, ast.Load):
                    return ast.copy_location(copy.deepcopy(m[n.id]), n)
                return n
        return [Rn().visit(copy.deepcopy(s)) for s in stmts]

    def block(stmts):
        out = []
        for s in stmts:
            for fld in ('body', 'orelse', 'finalbody'):
                v = getattr(s, fld, None)
                if isinstance(v, list) and v and isinstance(v[0], ast.stmt) and not isinstance(s, (ast.FunctionDef, ast.ClassDef)):
                    setattr(s, fld, block(v))
            if isinstance(s, ast.Try):
                for h in s.handlers:
                    h.body = block(h.body)
            if isinstance(s, ast.For):
                rs = rows(s)
                names = set().union(*[set(r) for r in rs]) if rs else set()
                rebinding = any(isinstance(n, ast.Name) and n.id in names and isinstance(n.ctx, (ast.Store, ast.Del)) for st in s.body for n in ast.walk(st))
                nested = any(isinstance(n, (ast.FunctionDef, ast.Lambda)) for st in s.body for n in ast.walk(st))
                if rs and not rebinding and not nested:
                    inside = {id(n) for n in ast.walk(s)}
                    live = [nm for nm in (list(rs[0]) if rs else []) if any(isinstance(n, ast.Name) and n.id == nm and id(n) not in inside for n in ast.walk(fn))]

                    def binds(r):
                        return [ast.copy_location(ast.Assign(targets=[ast.Name(id=nm, ctx=ast.Store())], value=copy.deepcopy(r[nm])), s) for nm in live]
                    brk = [n for st in s.body for n in ast.walk(st) if isinstance(n, (ast.Break, ast.Continue))]
                    if len(s.body) == 1 and isinstance(s.body[0], ast.If) and not s.body[0].orelse and s.body[0].body and isinstance(s.body[0].body[-1], ast.Break) \
                            and len(brk) == 1:
                        # first-match dispatch
                        chain = (binds(rs[-1]) if live and not (s.orelse and isinstance(s.orelse[-1], (ast.Raise, ast.Return))) else []) + list(s.orelse)
                        for r in reversed(rs):
                            test = subst([ast.Expr(value=s.body[0].test)], r)[0].value
                            body = (binds(r) + subst(s.body[0].body[:-1], r)) or [ast.Pass()]
                            node = ast.If(test=test, body=body, orelse=chain)
                            ast.copy_location(node, s)
                            chain = [node]
                        for c in chain:
                            ast.fix_missing_locations(c)
                        out.extend(chain)
                        changed[0] = True
                        continue
                    if not brk and not s.orelse and isinstance(s.target, ast.Tuple) and len(rs) <= 4:
                        for r in rs:
                            for st in subst(s.body, r):
                                ast.fix_missing_locations(st)
                                out.append(st)
                        for st in binds(rs[-1]):
                            ast.fix_missing_locations(st)
                            out.append(st)
                        changed[0] = True
                        continue
            out.append(s)
        return out
    fn.body = block(fn.body)
    return changed[0]


def _destructure_loop_targets(fn):
    """for t in zip(A, B): f(*t)  /  ... t[0] ... t[1] ...      ->   for t__0, t__1 in zip(A, B): f(t__0, t__1)  /  ... t__0 ... t__1 ...
    (t is the loop target only, used only starred in calls or subscripted by constants; also for enumerate(..) and .items())"""
    changed = False
    parents = _parents(fn)
    counts = _bind_counts(fn)
    for loop in [n for n in ast.walk(fn) if isinstance(n, ast.For)]:
        if not isinstance(loop.target, ast.Name):
            continue
        t = loop.target.id
        it = loop.iter
        if isinstance(it, ast.Call) and isinstance(it.func, ast.Name) and it.func.id == 'zip' and it.args and not it.keywords and not any(isinstance(a, ast.Starred) for a in it.args):
            width = len(it.args)
        elif isinstance(it, ast.Call) and isinstance(it.func, ast.Name) and it.func.id == 'enumerate' and len(it.args) >= 1:
            width = 2
        elif isinstance(it, ast.Call) and isinstance(it.func, ast.Attribute) and it.func.attr == 'items' and not it.args:
            width = 2
        else:
            continue
        if counts.get(t, 0) != 1:
            continue
        uses = [n for n in ast.walk(fn) if isinstance(n, ast.Name) and n.id == t and isinstance(n.ctx, ast.Load)]
        inside = {id(n) for st in loop.body + loop.orelse for n in ast.walk(st)}
        if not uses or not all(id(u) in inside for u in uses):
            continue
        ok = True
        for u in uses:
            par = parents.get(id(u))
            if isinstance(par, ast.Starred) and isinstance(parents.get(id(par)), ast.Call):
                continue
            k = _const_key(par.slice) if isinstance(par, ast.Subscript) and par.value is u and isinstance(par.ctx, ast.Load) else None
            if k is not None and k[0] == 'int' and 0 <= k[1] < width:
                continue
            ok = False
        if not ok:
            continue
        names = ['%s__%d' % (t, i) for i in range(width)]
        if any(counts.get(n) for n in names):
            continue

        class Rp(ast.NodeTransformer):
            def visit_Subscript(self, n):
                if isinstance(n.value, ast.Name) and n.value.id == t and isinstance(n.ctx, ast.Load) and _const_key(n.slice) is not None:
                    return ast.copy_location(ast.Name(id=names[_const_key(n.slice)[1]], ctx=ast.Load()), n)
                return self.generic_visit(n)

            def visit_Call(self, n):
                self.generic_visit(n)
                new = []
                for a in n.args:
                    if isinstance(a, ast.Starred) and isinstance(a.value, ast.Name) and a.value.id == t:
                        new.extend(ast.copy_location(ast.Name(id=x, ctx=ast.Load()), a) for x in names)
                    else:
                        new.append(a)
                n.args = new
                return n
        loop.body = [Rp().visit(st) for st in loop.body]
        loop.orelse = [Rp().visit(st) for st in loop.orelse]
        loop.target = ast.copy_location(ast.Tuple(elts=[ast.Name(id=x, ctx=ast.Store()) for x in names], ctx=ast.Store()), loop.target)
        ast.fix_missing_locations(loop)
        return True
    return changed


def _boolish(e):
    if isinstance(e, ast.Compare):
        return True
    if isinstance(e, ast.Constant) and isinstance(e.value, bool):
        return True
    if isinstance(e, ast.UnaryOp) and isinstance(e.op, ast.Not):
        return True
    if isinstance(e, ast.BoolOp):
        return all(_boolish(v) for v in e.values)
    if isinstance(e, ast.Call) and isinstance(e.func, ast.Name) and e.func.id in ('isinstance', 'issubclass', 'callable', 'hasattr', 'all', 'any', 'bool'):
        return True
    return False


def _test_pure(e):
    """a guard condition whose evaluation has no effect: comparisons, attribute reads, isinstance / len / hasattr / type calls"""
    for n in ast.walk(e):
        if isinstance(n, ast.Call) and not (isinstance(n.func, ast.Name) and n.func.id in ('isinstance', 'issubclass', 'len', 'hasattr', 'type', 'callable', 'bool', 'int', 'float', 'abs')):
            return False
        if isinstance(n, (ast.Yield, ast.YieldFrom, ast.Await, ast.NamedExpr, ast.ListComp, ast.SetComp, ast.DictComp, ast.GeneratorExp, ast.Lambda)):
            return False
    return True


def _neg(e):
    if isinstance(e, ast.UnaryOp) and isinstance(e.op, ast.Not):
        return e.operand
    if isinstance(e, ast.Constant) and isinstance(e.value, bool):
        return ast.Constant(value=not e.value)
    if isinstance(e, ast.Compare) and len(e.ops) == 1 and isinstance(e.ops[0], (ast.In, ast.NotIn, ast.Is, ast.IsNot)):
        flip = {ast.In: ast.NotIn, ast.NotIn: ast.In, ast.Is: ast.IsNot, ast.IsNot: ast.Is}[type(e.ops[0])]
        return ast.Compare(left=e.left, ops=[flip()], comparators=e.comparators)
    return ast.UnaryOp(op=ast.Not(), operand=e)


def _bool_flags(fn):
    """short-circuit reconstruction of boolean flags:
         f = A ; if not f: f = B        ->  f = A or B            f = A ; if f: f = B          ->  f = A and B
         f = A ; if c: f = True         ->  f = A or c            f = A ; if c: f = False      ->  f = A and not c       (A, c boolean valued, c effect free)
       and  for v in xs: if c(v): raise E   ->   if not all(not c(v) for v in xs): raise E      (E does not mention v)"""
    changed = [False]

    def block(stmts):
        out = []
        for s in stmts:
            for fld in ('body', 'orelse', 'finalbody'):
                v = getattr(s, fld, None)
                if isinstance(v, list) and v and isinstance(v[0], ast.stmt) and not isinstance(s, (ast.FunctionDef, ast.ClassDef)):
                    setattr(s, fld, block(v))
            if isinstance(s, ast.Try):
                for h in s.handlers:
                    h.body = block(h.body)
            prev = out[-1] if out else None
            if isinstance(s, ast.If) and not s.orelse and len(s.body) == 1 and isinstance(s.body[0], ast.Assign) and len(s.body[0].targets) == 1 \
                    and isinstance(s.body[0].targets[0], ast.Name) and isinstance(prev, ast.Assign) and len(prev.targets) == 1 and isinstance(prev.targets[0], ast.Name) \
                    and prev.targets[0].id == s.body[0].targets[0].id:
                f = prev.targets[0].id
                A, B, t = prev.value, s.body[0].value, s.test
                mentions_f = lambda e: any(isinstance(n, ast.Name) and n.id == f for n in ast.walk(e))
                new = None
                if isinstance(t, ast.Name) and t.id == f and not mentions_f(B) and not mentions_f(A):
                    new = ast.BoolOp(op=ast.And(), values=[A, B])
                elif isinstance(t, ast.UnaryOp) and isinstance(t.op, ast.Not) and isinstance(t.operand, ast.Name) and t.operand.id == f and not mentions_f(B) and not mentions_f(A):
                    new = ast.BoolOp(op=ast.Or(), values=[A, B])
                elif isinstance(B, ast.Constant) and isinstance(B.value, bool) and _boolish(A) and _boolish(t) and _test_pure(t) and not mentions_f(t) and not mentions_f(A):
                    new = ast.BoolOp(op=ast.Or(), values=[A, t]) if B.value else ast.BoolOp(op=ast.And(), values=[A, _neg(t)])
                if new is not None:
                    # flatten nested same-operator chains
                    vals = []
                    for v in new.values:
                        if isinstance(v, ast.BoolOp) and type(v.op) is type(new.op):
                            vals.extend(v.values)
                        else:
                            vals.append(v)
                    new.values = vals
                    prev.value = ast.copy_location(new, prev.value)
                    ast.fix_missing_locations(prev)
                    changed[0] = True
                    continue
            # if c: f = True / else: f = B    ->  f = c or B     (c boolean valued; one arm a boolean constant: exact for any other arm)
            if isinstance(s, ast.If) and len(s.body) == 1 and len(s.orelse) == 1 and all(isinstance(x, ast.Assign) and len(x.targets) == 1 and isinstance(x.targets[0], ast.Name)
                                                                                       for x in (s.body[0], s.orelse[0])) \
                    and s.body[0].targets[0].id == s.orelse[0].targets[0].id and _boolish(s.test) and _test_pure(s.test):
                f = s.body[0].targets[0].id
                A, B, c = s.body[0].value, s.orelse[0].value, s.test
                isb = lambda e: isinstance(e, ast.Constant) and isinstance(e.value, bool)
                mentions_f = any(isinstance(n, ast.Name) and n.id == f for e in (A, B, c) for n in ast.walk(e))
                new = None
                if not mentions_f and (isb(A) or isb(B)) and not (isb(A) and isb(B) and A.value == B.value):
                    if isb(A) and isb(B):
                        new = c if A.value else _neg(c)
                    elif isb(A):
                        new = ast.BoolOp(op=ast.Or(), values=[c, B]) if A.value else ast.BoolOp(op=ast.And(), values=[_neg(c), B])
                    else:
                        new = ast.BoolOp(op=ast.Or(), values=[_neg(c), A]) if B.value else ast.BoolOp(op=ast.And(), values=[c, A])
                if new is not None:
                    asg = ast.Assign(targets=[ast.Name(id=f, ctx=ast.Store())], value=new)
                    ast.copy_location(asg, s)
                    ast.fix_missing_locations(asg)
                    out.append(asg)
                    changed[0] = True
                    continue
            if isinstance(s, ast.For) and not s.orelse and len(s.body) == 1 and isinstance(s.body[0], ast.If) and not s.body[0].orelse and len(s.body[0].body) == 1 \
                    and isinstance(s.body[0].body[0], ast.Raise) and isinstance(s.target, (ast.Name, ast.Tuple)):
                tnames = {n.id for n in ast.walk(s.target) if isinstance(n, ast.Name)}
                r = s.body[0].body[0]
                rnames = {n.id for n in ast.walk(r) if isinstance(n, ast.Name)}
                if not (tnames & rnames) and _test_pure(s.body[0].test) and _pure(s.iter):
                    gen = ast.GeneratorExp(elt=_neg(s.body[0].test), generators=[ast.comprehension(target=s.target, iter=s.iter, ifs=[], is_async=0)])
                    test = ast.UnaryOp(op=ast.Not(), operand=ast.Call(func=ast.Name(id='all', ctx=ast.Load()), args=[gen], keywords=[]))
                    new = ast.If(test=test, body=[r], orelse=[])
                    ast.copy_location(new, s)
                    ast.fix_missing_locations(new)
                    out.append(new)
                    changed[0] = True
                    continue
            out.append(s)
        return out
    fn.body = block(fn.body)
    return changed[0]


def _flatten_product_loops(fn):
    """for T in (E for a in A for b in B): BODY              ->  for a in A: for b in B: T = E ; BODY
       for k, T in enumerate(E for a in A for b in B): BODY  ->  k = 0 ; for a in A: for b in B: T = E ; BODY ; k += 1      (no break / continue in BODY, k not read afterwards)"""
    changed = [False]

    def block(stmts):
        out = []
        for idx, s in enumerate(stmts):
            for fld in ('body', 'orelse', 'finalbody'):
                v = getattr(s, fld, None)
                if isinstance(v, list) and v and isinstance(v[0], ast.stmt) and not isinstance(s, (ast.FunctionDef, ast.ClassDef)):
                    setattr(s, fld, block(v))
            if isinstance(s, ast.For) and not s.orelse and isinstance(s.iter, ast.Call) and not s.iter.keywords and len(s.iter.args) >= 2 \
                    and ((isinstance(s.iter.func, ast.Name) and s.iter.func.id == 'product') or (isinstance(s.iter.func, ast.Attribute) and s.iter.func.attr == 'product'
                                                                                                 and isinstance(s.iter.func.value, ast.Name) and s.iter.func.value.id == 'itertools')) \
                    and isinstance(s.target, (ast.Tuple, ast.List)) and len(s.target.elts) == len(s.iter.args) and all(isinstance(e, ast.Name) for e in s.target.elts) \
                    and not any(isinstance(a, ast.Starred) for a in s.iter.args):
                # for a, b in product(A, B): BODY  ->  for a in A: for b in B: BODY      (A, B effect-free and not changed by BODY; no break)
                def calm(e):
                    return all(not isinstance(y, ast.Call) or (isinstance(y.func, ast.Name) and y.func.id in ('range', 'len', 'reversed', 'enumerate', 'zip', 'tuple', 'list')) for y in ast.walk(e)) \
                        and not any(isinstance(y, (ast.Lambda, ast.GeneratorExp, ast.ListComp, ast.Yield, ast.Await, ast.NamedExpr)) for y in ast.walk(e))
                written = _store_bases(s.body) | {e.id for e in s.target.elts}
                reads = {y.id for a in s.iter.args for y in ast.walk(a) if isinstance(y, ast.Name)}
                shadow = any(isinstance(y, ast.Name) and y.id == 'product' and isinstance(y.ctx, ast.Store) for y in ast.walk(fn))
                if all(calm(a) for a in s.iter.args) and not (written & reads) and not shadow and not any(isinstance(y, ast.Break) for st in s.body for y in ast.walk(st)):
                    inner = list(s.body)
                    for e, a in reversed(list(zip(s.target.elts, s.iter.args))):
                        inner = [ast.For(target=ast.Name(id=e.id, ctx=ast.Store()), iter=a, body=inner, orelse=[], type_comment=None)]
                    ast.copy_location(inner[0], s)
                    ast.fix_missing_locations(inner[0])
                    out.append(inner[0])
                    changed[0] = True
                    continue
            if isinstance(s, ast.For) and not s.orelse:
                it, counter, tgt = s.iter, None, s.target
                if isinstance(it, ast.Call) and isinstance(it.func, ast.Name) and it.func.id == 'enumerate' and len(it.args) == 1 and not it.keywords \
                        and isinstance(tgt, ast.Tuple) and len(tgt.elts) == 2 and isinstance(tgt.elts[0], ast.Name):
                    counter, tgt, it = tgt.elts[0].id, tgt.elts[1], it.args[0]
                if isinstance(it, ast.GeneratorExp) and len(it.generators) >= 2 and all(not g.ifs and not g.is_async for g in it.generators):
                    gen_names = {n.id for g in it.generators for n in ast.walk(g.target) if isinstance(n, ast.Name)}
                    body_names_stored = {n.id for st in s.body for n in ast.walk(st) if isinstance(n, ast.Name) and isinstance(n.ctx, (ast.Store, ast.Del))}
                    jumps = any(isinstance(n, (ast.Break, ast.Continue)) for st in s.body for n in ast.walk(st))
                    later = counter is not None and any(isinstance(n, ast.Name) and n.id == counter for st in stmts[idx + 1:] for n in ast.walk(st))
                    # the generator's variables live in their own scope: after flattening they become locals of the function - they must not clash with other uses
                    other_uses = {n.id for st in stmts[:idx] + stmts[idx + 1:] for n in ast.walk(st) if isinstance(n, ast.Name)}
                    tgt_names = {n.id for n in ast.walk(tgt) if isinstance(n, ast.Name)}
                    clash = (gen_names - tgt_names) & (other_uses | body_names_stored)
                    if not jumps and not later and not clash and not (counter and counter in body_names_stored):
                        inner = [ast.Assign(targets=[copy.deepcopy(tgt)], value=copy.deepcopy(it.elt))] + list(s.body)
                        if counter:
                            inner.append(ast.AugAssign(target=ast.Name(id=counter, ctx=ast.Store()), op=ast.Add(), value=ast.Constant(value=1)))
                        for g in reversed(it.generators):
                            inner = [ast.For(target=g.target, iter=g.iter, body=inner, orelse=[], type_comment=None)]
                        new = ([ast.Assign(targets=[ast.Name(id=counter, ctx=ast.Store())], value=ast.Constant(value=0))] if counter else []) + inner
                        for n in new:
                            ast.copy_location(n, s)
                            ast.fix_missing_locations(n)
                        out.extend(new)
                        changed[0] = True
                        continue
            out.append(s)
        return out
    fn.body = block(fn.body)
    return changed[0]


def _induction_vars(fn):
    """k = c ; for i in range(A): [S] for j in range(B): BODY(k) ; k += 1        ->   for i in range(A): [S] for j in range(B): BODY(c + i * B + j)
    (k bound only by the initialisation and the single increment - the last statement of the innermost body; loops perfectly nested around the increment;
    range(..) with one argument; no break / continue; k not read after the loops)"""
    changed = [False]

    def rng(loop):
        it = loop.iter
        if isinstance(loop.target, ast.Name) and isinstance(it, ast.Call) and isinstance(it.func, ast.Name) and it.func.id == 'range' and len(it.args) == 1 and not it.keywords:
            return loop.target.id, it.args[0]
        return None

    def block(stmts):
        out = []
        i = 0
        while i < len(stmts):
            s = stmts[i]
            for fld in ('body', 'orelse', 'finalbody'):
                v = getattr(s, fld, None)
                if isinstance(v, list) and v and isinstance(v[0], ast.stmt) and not isinstance(s, (ast.FunctionDef, ast.ClassDef)):
                    setattr(s, fld, block(v))
            nxt = stmts[i + 1] if i + 1 < len(stmts) else None
            if isinstance(s, ast.Assign) and len(s.targets) == 1 and isinstance(s.targets[0], ast.Name) and isinstance(s.value, ast.Constant) and isinstance(s.value.value, int) \
                    and not isinstance(s.value.value, bool) and isinstance(nxt, ast.For) and not nxt.orelse:
                k = s.targets[0].id
                chain, cur = [], nxt
                ok = True
                while True:
                    r = rng(cur)
                    if r is None or cur.orelse:
                        ok = False
                        break
                    chain.append((cur, r[0], r[1]))
                    inner = [x for x in cur.body if isinstance(x, ast.For)]
                    last = cur.body[-1] if cur.body else None
                    if isinstance(last, ast.AugAssign) and isinstance(last.target, ast.Name) and last.target.id == k:
                        break
                    if len(inner) != 1:
                        ok = False
                        break
                    # statements of this level other than the inner loop must not touch k
                    if any(isinstance(n, ast.Name) and n.id == k for x in cur.body if x is not inner[0] for n in ast.walk(x)):
                        ok = False
                        break
                    cur = inner[0]
                if ok:
                    innermost = chain[-1][0]
                    inc = innermost.body[-1]
                    ok = isinstance(inc.op, ast.Add) and isinstance(inc.value, ast.Constant) and inc.value.value == 1 and len(innermost.body) >= 2
                    stores = [n for n in ast.walk(nxt) if isinstance(n, ast.Name) and n.id == k and isinstance(n.ctx, (ast.Store, ast.Del))]
                    ok = ok and len(stores) == 1
                    ok = ok and not any(isinstance(n, (ast.Break, ast.Continue)) for n in ast.walk(nxt))
                    ok = ok and not any(isinstance(n, ast.Name) and n.id == k for st in stmts[i + 2:] for n in ast.walk(st))
                    loopvars = {c[1] for c in chain}
                    bound_names = {n.id for c in chain for n in ast.walk(c[2]) if isinstance(n, ast.Name)}
                    ok = ok and not any(isinstance(n, ast.Name) and isinstance(n.ctx, (ast.Store, ast.Del)) and n.id in (bound_names | loopvars) and not any(n is c[0].target for c in chain)
                                        for n in ast.walk(nxt))
                if ok:
                    # linear index of the iteration:  ((i0 * B1 + i1) * B2 + i2) ...
                    expr = ast.Name(id=chain[0][1], ctx=ast.Load())
                    for (_, v, bnd) in chain[1:]:
                        expr = ast.BinOp(left=ast.BinOp(left=expr, op=ast.Mult(), right=copy.deepcopy(bnd)), op=ast.Add(), right=ast.Name(id=v, ctx=ast.Load()))
                    if s.value.value != 0:
                        expr = ast.BinOp(left=ast.Constant(value=s.value.value), op=ast.Add(), right=expr)

                    class Rn(ast.NodeTransformer):
                        def visit_Name(self, n):
                            if n.id == k and isinstance(n.ctx, ast.Load):
                                return ast.copy_location(copy.deepcopy(expr), n)
                            return n
                    innermost.body = [Rn().visit(x) for x in innermost.body[:-1]]
                    ast.fix_missing_locations(nxt)
                    out.append(nxt)
                    changed[0] = True
                    i += 2
                    continue
            out.append(s)
            i += 1
        return out
    fn.body = block(fn.body)
    return changed[0]


def _loop_else_without_break(fn):
    """for ..: BODY  else: ELSE   with no `break` in BODY that belongs to this loop   ->   for ..: BODY ; ELSE      (the else clause always runs)"""
    def own_break(stmts):
        stack = list(stmts)
        while stack:
            x = stack.pop()
            if isinstance(x, ast.Break):
                return True
            if isinstance(x, (ast.For, ast.While)):
                stack.extend(x.orelse)
                continue
            if isinstance(x, (ast.FunctionDef, ast.Lambda, ast.ClassDef)):
                continue
            stack.extend(ast.iter_child_nodes(x))
        return False
    for n in ast.walk(fn):
        for fld in ('body', 'orelse', 'finalbody'):
            blk = getattr(n, fld, None)
            if not (isinstance(blk, list) and blk and isinstance(blk[0], ast.stmt)):
                continue
            for i, st in enumerate(blk):
                if isinstance(st, (ast.For, ast.While)) and st.orelse and not own_break(st.body):
                    tail = st.orelse
                    st.orelse = []
                    blk[i + 1:i + 1] = tail
                    ast.fix_missing_locations(fn)
                    return True
    return False


def _setattr_statements(fn):
    """setattr(obj, 'name', v)  as a statement   ->   obj.name = v        (a constant identifier; obj a plain name / attribute chain)"""
    hit = False
    for n in ast.walk(fn):
        for fld in ('body', 'orelse', 'finalbody'):
            blk = getattr(n, fld, None)
            if not (isinstance(blk, list) and blk and isinstance(blk[0], ast.stmt)):
                continue
            for i, st in enumerate(blk):
                if isinstance(st, ast.Expr) and isinstance(st.value, ast.Call) and isinstance(st.value.func, ast.Name) and st.value.func.id == 'setattr' and len(st.value.args) == 3 \
                        and not st.value.keywords and isinstance(st.value.args[1], ast.Constant) and isinstance(st.value.args[1].value, str) and st.value.args[1].value.isidentifier() \
                        and not st.value.args[1].value.startswith('__') and _pure(st.value.args[0]) and not any(isinstance(a, ast.Starred) for a in st.value.args):
                    if any(isinstance(y, ast.Name) and y.id == 'setattr' and isinstance(y.ctx, ast.Store) for y in ast.walk(fn)):
                        continue
                    c = st.value
                    blk[i] = ast.copy_location(ast.Assign(targets=[ast.Attribute(value=c.args[0], attr=c.args[1].value, ctx=ast.Store())], value=c.args[2]), st)
                    hit = True
    if hit:
        ast.fix_missing_locations(fn)
    return hit


def _yield_from_genexp(fn):
    """yield from (E for x in R if C)   ->   for x in R: if C: yield E"""
    for n in ast.walk(fn):
        for fld in ('body', 'orelse', 'finalbody'):
            blk = getattr(n, fld, None)
            if not (isinstance(blk, list) and blk and isinstance(blk[0], ast.stmt)):
                continue
            for i, st in enumerate(blk):
                if isinstance(st, ast.Expr) and isinstance(st.value, ast.YieldFrom) and isinstance(st.value.value, (ast.GeneratorExp, ast.ListComp)):
                    g = st.value.value
                    if isinstance(g, ast.ListComp) and not all(_pure(x) for x in [g.elt]):
                        continue
                    inner = [ast.Expr(value=ast.Yield(value=g.elt))]
                    for comp in reversed(g.generators):
                        if comp.is_async:
                            inner = None
                            break
                        for c_ in reversed(comp.ifs):
                            inner = [ast.If(test=c_, body=inner, orelse=[])]
                        inner = [ast.For(target=comp.target, iter=comp.iter, body=inner, orelse=[])]
                    if inner is None:
                        continue
                    tnames = {y.id for comp in g.generators for y in ast.walk(comp.target) if isinstance(y, ast.Name)}
                    if any(isinstance(y, ast.Name) and y.id in tnames for y in ast.walk(fn) if not any(y is z for z in ast.walk(g))):
                        continue        # the comprehension variable would leak into a scope that uses the same name
                    blk[i] = ast.copy_location(inner[0], st)
                    ast.fix_missing_locations(fn)
                    return True
    return False


def _modern_syntax(fn):
    """statement-level lowering of newer syntax to the forms the rules know:
         if (n := E) > k: ..        ->  n = E ; if n > k: ..           (the named expression is the first thing the statement evaluates)
         match x: case 1: A  case 2 | 3: B  case _: C   ->   if x == 1: A elif x in (2, 3): B else: C      (literal / dotted-name / wildcard patterns only)
         del name / pass / ... inside non-empty blocks, a trailing bare `return` / `return None` of a procedure      ->  removed"""
    changed = [False]

    def first_named(e):
        """a NamedExpr of e that is evaluated unconditionally and before which only effect-free sub-expressions are evaluated, or None"""
        if isinstance(e, ast.NamedExpr):
            return e if isinstance(e.target, ast.Name) and not any(isinstance(x, ast.NamedExpr) for x in ast.walk(e.value)) else None
        if isinstance(e, ast.Compare):
            seq = [e.left] + list(e.comparators)
        elif isinstance(e, ast.BoolOp):
            seq = [e.values[0]]                 # the other operands are evaluated conditionally
        elif isinstance(e, ast.UnaryOp):
            seq = [e.operand]
        elif isinstance(e, ast.BinOp):
            seq = [e.left, e.right]
        elif isinstance(e, ast.Call):
            if any(isinstance(a_, ast.Starred) for a_ in e.args) or any(k.arg is None for k in e.keywords):
                return None
            seq = [e.func] + list(e.args) + [k.value for k in e.keywords]
        elif isinstance(e, ast.Subscript):
            seq = [e.value, e.slice]
        elif isinstance(e, ast.Attribute):
            seq = [e.value]
        elif isinstance(e, (ast.Tuple, ast.List)):
            seq = list(e.elts)
        else:
            return None
        for x in seq:
            if any(isinstance(y, ast.NamedExpr) for y in ast.walk(x)):
                return first_named(x)
            if not _pure(x):
                return None
        return None

    def pattern_test(subj, pat):
        if isinstance(pat, ast.MatchSequence) and isinstance(subj, (ast.Tuple, ast.List)) and len(pat.patterns) == len(subj.elts) \
                and not any(isinstance(p_, ast.MatchStar) for p_ in pat.patterns) and not any(isinstance(x, ast.Starred) for x in subj.elts):
            parts = []
            for sub, p_ in zip(subj.elts, pat.patterns):
                if isinstance(p_, ast.MatchAs) and p_.pattern is None and p_.name is None:
                    continue
                t = pattern_test(sub, p_)
                if t is None:
                    return None
                parts.append(t)
            if not parts:
                return ast.Constant(value=True)
            return parts[0] if len(parts) == 1 else ast.BoolOp(op=ast.And(), values=parts)
        if isinstance(pat, ast.MatchClass) and not pat.patterns and not pat.kwd_patterns and _type_ref(pat.cls):
            return ast.Call(func=ast.Name(id='isinstance', ctx=ast.Load()), args=[copy.deepcopy(subj), pat.cls], keywords=[])
        if isinstance(pat, ast.MatchValue) and (_const_key(pat.value) is not None or _type_ref(pat.value)):
            return ast.Compare(left=copy.deepcopy(subj), ops=[ast.Eq()], comparators=[pat.value])
        if isinstance(pat, ast.MatchSingleton):
            return ast.Compare(left=copy.deepcopy(subj), ops=[ast.Is()], comparators=[ast.Constant(value=pat.value)])
        if isinstance(pat, ast.MatchOr):
            parts = [pattern_test(subj, p) for p in pat.patterns]
            if any(p is None for p in parts):
                return None
            if all(isinstance(p, ast.Compare) and isinstance(p.ops[0], ast.Eq) and _const_key(p.comparators[0]) is not None for p in parts):
                return ast.Compare(left=copy.deepcopy(subj), ops=[ast.In()], comparators=[ast.Tuple(elts=[p.comparators[0] for p in parts], ctx=ast.Load())])
            return ast.BoolOp(op=ast.Or(), values=parts)
        return None

    def block(stmts, is_fn_body=False):
        out = []
        for s in stmts:
            for fld in ('body', 'orelse', 'finalbody'):
                v = getattr(s, fld, None)
                if isinstance(v, list) and v and isinstance(v[0], ast.stmt) and not isinstance(s, (ast.FunctionDef, ast.ClassDef)):
                    setattr(s, fld, block(v) or ([ast.Pass()] if fld == 'body' else []))
            if isinstance(s, ast.Try):
                for h in s.handlers:
                    h.body = block(h.body) or [ast.Pass()]
            if hasattr(ast, 'Match') and isinstance(s, ast.Match):
                for c in s.cases:
                    c.body = block(c.body) or [ast.Pass()]
                subj = s.subject
                pre = []
                if isinstance(subj, ast.Call) and _test_pure(subj):
                    # the subject is evaluated once: bind it
                    nm = 'match_subject__%d' % getattr(s, 'lineno', 0)
                    pre = [ast.copy_location(ast.Assign(targets=[ast.Name(id=nm, ctx=ast.Store())], value=subj), s)]
                    subj = ast.copy_location(ast.Name(id=nm, ctx=ast.Load()), subj)
                ok = (_pure(subj) and isinstance(subj, (ast.Name, ast.Attribute, ast.Subscript, ast.Constant))) or \
                    (isinstance(subj, (ast.Tuple, ast.List)) and all(_test_pure(x) for x in subj.elts))
                tests, default = [], None
                for i, c in enumerate(s.cases):
                    pat, bind = c.pattern, None
                    if c.guard is not None:
                        # case P if G:  ->  test(P) and G      (patterns without captures only)
                        if any(isinstance(x, (ast.MatchAs, ast.MatchStar)) and getattr(x, 'name', None) for x in ast.walk(pat)):
                            ok = False
                            break
                        t = pattern_test(subj, pat) if not (isinstance(pat, ast.MatchAs) and pat.pattern is None) else ast.Constant(value=True)
                        if t is None:
                            ok = False
                            break
                        t = c.guard if isinstance(t, ast.Constant) else ast.BoolOp(op=ast.And(), values=[t, c.guard])
                        tests.append((t, c.body))
                        continue
                    if isinstance(pat, ast.MatchAs) and pat.pattern is not None and pat.name is not None and isinstance(subj, (ast.Name, ast.Attribute)):
                        pat, bind = pat.pattern, c.pattern.name
                    if isinstance(pat, ast.MatchAs) and pat.pattern is None and pat.name is None:
                        if i != len(s.cases) - 1:
                            ok = False
                        default = c.body
                        continue
                    if isinstance(pat, ast.MatchAs) and pat.pattern is None and pat.name is not None and i == len(s.cases) - 1 and isinstance(subj, (ast.Name, ast.Attribute)):
                        # `case other:` - irrefutable capture as the last case
                        default = [ast.copy_location(ast.Assign(targets=[ast.Name(id=pat.name, ctx=ast.Store())], value=copy.deepcopy(subj)), s)] + c.body
                        continue
                    t = pattern_test(subj, pat)
                    if t is None:
                        ok = False
                        break
                    body = c.body
                    if bind:
                        body = [ast.copy_location(ast.Assign(targets=[ast.Name(id=bind, ctx=ast.Store())], value=copy.deepcopy(subj)), s)] + body
                    tests.append((t, body))
                if ok and tests:
                    out.extend(pre)
                    for x in pre:
                        ast.fix_missing_locations(x)
                    chain = list(default or [])
                    for t, body in reversed(tests):
                        node = ast.If(test=t, body=body, orelse=chain)
                        ast.copy_location(node, s)
                        chain = [node]
                    ast.fix_missing_locations(chain[0])
                    out.extend(chain)
                    changed[0] = True
                    continue
            # walrus in the head of a simple statement
            head = None
            if isinstance(s, ast.If):
                head = 'test'
            elif isinstance(s, (ast.Assign, ast.Return, ast.Expr, ast.AugAssign)) and getattr(s, 'value', None) is not None:
                head = 'value'
            if head:
                ne = first_named(getattr(s, head))
                if ne is not None:
                    asg = ast.Assign(targets=[ast.Name(id=ne.target.id, ctx=ast.Store())], value=ne.value)
                    ast.copy_location(asg, s)
                    ast.fix_missing_locations(asg)

                    class Rp(ast.NodeTransformer):
                        def visit_NamedExpr(self, n):
                            if n is ne:
                                return ast.copy_location(ast.Name(id=ne.target.id, ctx=ast.Load()), n)
                            return self.generic_visit(n)
                    setattr(s, head, Rp().visit(getattr(s, head)))
                    out.append(asg)
                    out.append(s)
                    changed[0] = True
                    continue
            if isinstance(s, ast.Delete) and all(isinstance(t, ast.Name) for t in s.targets):
                changed[0] = True
                continue
            if isinstance(s, ast.Expr) and isinstance(s.value, ast.Constant) and s.value.value is Ellipsis and len(stmts) > 1:
                changed[0] = True
                continue
            if isinstance(s, ast.Pass) and len(stmts) > 1:
                changed[0] = True
                continue
            out.append(s)
        return out
    fn.body = block(fn.body) or [ast.Pass()]
    # a trailing `return` / `return None` of a procedure
    if len(fn.body) > 1 and isinstance(fn.body[-1], ast.Return) and (fn.body[-1].value is None or (isinstance(fn.body[-1].value, ast.Constant) and fn.body[-1].value.value is None)) \
            and all(n.value is None or (isinstance(n.value, ast.Constant) and n.value.value is None) for st in fn.body for n in ast.walk(st) if isinstance(n, ast.Return)) \
            and not any(isinstance(n, (ast.Yield, ast.YieldFrom)) for n in ast.walk(fn)):
        fn.body = fn.body[:-1]
        changed[0] = True
    return changed[0]


def _reduce_loops(fn, ctx):
    """x = reduce(f, seq, init)  ->  x = init ; for e in seq: x = f(x, e)       (statement-level assignment / return of a functools.reduce call)"""
    _, red, mods = ctx
    changed = [False]
    counter = [0]

    def is_reduce(f):
        return (isinstance(f, ast.Name) and f.id in red) or (isinstance(f, ast.Attribute) and f.attr == 'reduce' and isinstance(f.value, ast.Name) and f.value.id in mods)

    def block(stmts):
        out = []
        for s in stmts:
            for fld in ('body', 'orelse', 'finalbody'):
                v = getattr(s, fld, None)
                if isinstance(v, list) and v and isinstance(v[0], ast.stmt) and not isinstance(s, (ast.FunctionDef, ast.ClassDef)):
                    setattr(s, fld, block(v))
            v = getattr(s, 'value', None)
            if isinstance(s, (ast.Assign, ast.Return)) and isinstance(v, ast.Call) and is_reduce(v.func) and len(v.args) == 3 and not v.keywords \
                    and (isinstance(s, ast.Return) or (len(s.targets) == 1 and isinstance(s.targets[0], ast.Name))):
                counter[0] += 1
                acc = s.targets[0].id if isinstance(s, ast.Assign) else 'acc__r%d' % counter[0]
                if any(isinstance(n, ast.Name) and n.id == acc for n in ast.walk(v)):
                    out.append(s)
                    continue
                e = 'e__r%d' % counter[0]
                init = ast.Assign(targets=[ast.Name(id=acc, ctx=ast.Store())], value=v.args[2])
                step = ast.Assign(targets=[ast.Name(id=acc, ctx=ast.Store())], value=ast.Call(func=v.args[0], args=[ast.Name(id=acc, ctx=ast.Load()), ast.Name(id=e, ctx=ast.Load())], keywords=[]))
                loop = ast.For(target=ast.Name(id=e, ctx=ast.Store()), iter=v.args[1], body=[step], orelse=[], type_comment=None)
                new = [init, loop] + ([ast.Return(value=ast.Name(id=acc, ctx=ast.Load()))] if isinstance(s, ast.Return) else [])
                for n in new:
                    ast.copy_location(n, s)
                    ast.fix_missing_locations(n)
                out.extend(new)
                changed[0] = True
                continue
            out.append(s)
        return out
    fn.body = block(fn.body)
    return changed[0]


def _local_closures(fn, inliner, cls):
    """a nested def (or a name bound once to a lambda) whose every occurrence in fn is the callee of a call: inlined at those calls, then removed"""
    info = _FnInfo(fn)
    for d in [n for n in ast.walk(fn) if isinstance(n, ast.FunctionDef) and n is not fn]:
        if info.counts.get(d.name, 0) != 1 or d.decorator_list or info.order.get(id(d)) is None:
            continue
        loads = info.loads(d.name)
        if not loads:
            continue
        if any(id(x) in {id(y) for y in ast.walk(d)} for x in loads):
            continue        # recursive
        if not all(isinstance(info.parents.get(id(l)), ast.Call) and info.parents[id(l)].func is l for l in loads):
            continue
        if any(isinstance(n, (ast.Nonlocal, ast.Global, ast.Yield, ast.YieldFrom)) for n in ast.walk(d)):
            continue
        from .normalize import _simple_helper
        if _simple_helper(d, allow_nested=True) is None:
            continue
        before = inliner.expanded.get(id(d), 0)
        inliner.local_helpers = {d.name: d}
        try:
            inliner.process_function(fn, cls)
        finally:
            inliner.local_helpers = {}
        if inliner.expanded.get(id(d), 0) == before:
            continue
        if not [n for n in ast.walk(fn) if isinstance(n, ast.Name) and n.id == d.name and isinstance(n.ctx, ast.Load)]:
            _remove_stmt(fn, d)
        ast.fix_missing_locations(fn)
        return True
    return False


def _generated_lists(fn):
    """lists built by a converted private generator (names __out*):
         X = [] ; X.extend(E)            ->  X = list(E)
         X = E ; <next statement reads X once, outside any inner loop / comprehension / lambda>   ->  E substituted (the list is fresh and has no other holder)"""
    info = _FnInfo(fn)
    for n in ast.walk(fn):
        for fld in ('body', 'orelse', 'finalbody'):
            blk = getattr(n, fld, None)
            if not (isinstance(blk, list) and blk and isinstance(blk[0], ast.stmt)):
                continue
            for i in range(len(blk) - 1):
                a, b = blk[i], blk[i + 1]
                if not (isinstance(a, ast.Assign) and len(a.targets) == 1 and isinstance(a.targets[0], ast.Name) and a.targets[0].id.startswith('__out')):
                    continue
                t = a.targets[0].id
                if info.counts.get(t, 0) != 1 or t in info.params:
                    continue
                if isinstance(a.value, ast.List) and not a.value.elts and isinstance(b, ast.Expr) and isinstance(b.value, ast.Call) and isinstance(b.value.func, ast.Attribute) \
                        and isinstance(b.value.func.value, ast.Name) and b.value.func.value.id == t and b.value.func.attr == 'extend' and len(b.value.args) == 1 and not b.value.keywords \
                        and not any(isinstance(x, ast.Name) and x.id == t for x in ast.walk(b.value.args[0])):
                    a.value = ast.Call(func=ast.Name(id='list', ctx=ast.Load()), args=[b.value.args[0]], keywords=[])
                    del blk[i + 1]
                    ast.fix_missing_locations(fn)
                    return True
                loads = info.loads(t)
                if len(loads) != 1 or isinstance(a.value, ast.List) and not a.value.elts:
                    continue
                use = loads[0]
                if not any(x is use for x in ast.walk(b)):
                    continue
                # the single read is evaluated exactly once by statement b: not inside a nested body, a comprehension element / condition, or a lambda
                ok = True
                if isinstance(b, (ast.For, ast.While, ast.If, ast.With, ast.Try, ast.FunctionDef, ast.ClassDef)):
                    hdr = b.iter if isinstance(b, ast.For) else (b.test if isinstance(b, (ast.If,)) else None)
                    if hdr is None or not any(x is use for x in ast.walk(hdr)):
                        ok = False
                p_ = info.parents.get(id(use))
                child = use
                while ok and p_ is not None and p_ is not b:
                    if isinstance(p_, ast.Lambda):
                        ok = False
                    elif isinstance(p_, (ast.ListComp, ast.SetComp, ast.GeneratorExp, ast.DictComp)) and p_.generators[0] is not child:
                        ok = False
                    elif isinstance(p_, ast.comprehension) and p_.iter is not child:
                        ok = False
                    child = p_
                    p_ = info.parents.get(id(p_))
                if not ok:
                    continue
                val = a.value

                class Rp(ast.NodeTransformer):
                    def visit_Name(self, x):
                        return val if x is use else x
                blk[i + 1] = Rp().visit(b)
                del blk[i]
                ast.fix_missing_locations(fn)
                return True
    return False


def _round_trip_temps(fn):
    """t = x ; ... t ... ; x = t      ->   ... x ...       (same block; every occurrence of t lies between the two copies, x does not occur there: t is x under another name)"""
    params = _own_params(fn)
    for n in ast.walk(fn):
        for fld in ('body', 'orelse', 'finalbody'):
            blk = getattr(n, fld, None)
            if not (isinstance(blk, list) and blk and isinstance(blk[0], ast.stmt)):
                continue
            for i, a in enumerate(blk):
                if not (isinstance(a, ast.Assign) and len(a.targets) == 1 and isinstance(a.targets[0], ast.Name) and isinstance(a.value, ast.Name)):
                    continue
                t, x = a.targets[0].id, a.value.id
                if t == x or t in params or '__' not in t:
                    continue
                for j in range(i + 1, len(blk)):
                    b = blk[j]
                    if isinstance(b, ast.Assign) and len(b.targets) == 1 and isinstance(b.targets[0], ast.Name) and b.targets[0].id == x and isinstance(b.value, ast.Name) and b.value.id == t:
                        mid = blk[i + 1:j]
                        inside = sum(1 for st in mid for y in ast.walk(st) if isinstance(y, ast.Name) and y.id == t)
                        total = sum(1 for y in ast.walk(fn) if isinstance(y, ast.Name) and y.id == t)
                        if total != inside + 2:
                            break
                        if any((isinstance(y, ast.Name) and y.id == x) or (isinstance(y, ast.arg) and y.arg in (t, x)) or (isinstance(y, (ast.FunctionDef, ast.Lambda, ast.ClassDef)))
                               for st in mid for y in ast.walk(st)):
                            break
                        for st in mid:
                            for y in ast.walk(st):
                                if isinstance(y, ast.Name) and y.id == t:
                                    y.id = x
                        del blk[j]
                        del blk[i]
                        if not blk:
                            blk.append(ast.Pass())
                        ast.fix_missing_locations(fn)
                        return True
                    if any(isinstance(y, ast.Name) and y.id == x and isinstance(y.ctx, ast.Store) for y in ast.walk(b)):
                        break
    return False


def _occurrences_outside_comprehension_scopes(fn, x):
    """occurrences of the name x in fn that are not the private variable of a comprehension"""
    hidden = set()
    for c in ast.walk(fn):
        if isinstance(c, (ast.ListComp, ast.SetComp, ast.GeneratorExp, ast.DictComp)):
            tg = {y.id for g in c.generators for y in ast.walk(g.target) if isinstance(y, ast.Name)}
            if x in tg:
                first_iter = {id(y) for y in ast.walk(c.generators[0].iter)}
                for y in ast.walk(c):
                    if isinstance(y, ast.Name) and y.id == x and id(y) not in first_iter:
                        hidden.add(id(y))
    return sum(1 for y in ast.walk(fn) if isinstance(y, ast.Name) and y.id == x and id(y) not in hidden)

def _membership_loops(fn):
    """search loops that only test membership, and guard-continue at the top of a loop body:
         for x in S: if x == E: break                                     (x not used elsewhere)
         else: ELSE                                          ->  if E not in S: ELSE
         F = False ; for x in S: if x == E: F = True ; break  ->  F = E in S
         for ..: if C: continue ; REST                        ->  for ..: if not C: REST           (REST without a further top-level continue is not required)"""
    info = _FnInfo(fn)
    for n in ast.walk(fn):
        for fld in ('body', 'orelse', 'finalbody'):
            blk = getattr(n, fld, None)
            if not (isinstance(blk, list) and blk and isinstance(blk[0], ast.stmt)):
                continue
            for i, st in enumerate(blk):
                if isinstance(st, ast.For) and isinstance(st.iter, ast.Subscript) and isinstance(st.iter.value, ast.Name) and isinstance(st.iter.slice, ast.Slice) \
                        and st.iter.slice.lower is None and st.iter.slice.upper is None and _const_key(st.iter.slice.step) == ('int', -1) \
                        and st.iter.value.id not in _store_bases(st.body):
                    # for v in X[::-1] (a reversed copy) -> for v in reversed(X): X is not changed by the loop
                    st.iter = ast.copy_location(ast.Call(func=ast.Name(id='reversed', ctx=ast.Load()), args=[st.iter.value], keywords=[]), st.iter)
                    ast.fix_missing_locations(fn)
                    return True
                if isinstance(st, (ast.For, ast.While)):
                    # blocks in tail position of the loop body: falling off their end ends the iteration
                    tails, todo = [], [st.body]
                    while todo:
                        b_ = todo.pop()
                        tails.append(b_)
                        if b_ and isinstance(b_[-1], ast.If):
                            todo.append(b_[-1].body)
                            if b_[-1].orelse:
                                todo.append(b_[-1].orelse)
                    hit = False
                    for b_ in tails:
                        if b_ and isinstance(b_[-1], ast.Continue):
                            b_[-1:] = [] if len(b_) > 1 else [ast.copy_location(ast.Pass(), b_[-1])]
                            hit = True
                            break
                        for k, g in enumerate(b_):
                            if not (isinstance(g, ast.If) and not g.orelse and g.body and isinstance(g.body[-1], ast.Continue)):
                                continue
                            rest = b_[k + 1:]
                            if not rest:
                                continue        # handled through the tail blocks
                            if len(g.body) == 1:
                                b_[k:] = [ast.copy_location(ast.If(test=_neg(g.test), body=rest, orelse=[]), g)]
                            else:
                                b_[k:] = [ast.copy_location(ast.If(test=g.test, body=g.body[:-1], orelse=rest), g)]
                            hit = True
                            break
                        if hit:
                            break
                    if hit:
                        ast.fix_missing_locations(fn)
                        return True
                if not (isinstance(st, ast.For) and isinstance(st.target, ast.Name) and len(st.body) == 1 and isinstance(st.body[0], ast.If) and not st.body[0].orelse):
                    continue
                x = st.target.id
                test, inner = st.body[0].test, st.body[0].body
                if not (isinstance(test, ast.Compare) and len(test.ops) == 1 and isinstance(test.ops[0], ast.Eq)):
                    continue
                l, r = test.left, test.comparators[0]
                if isinstance(l, ast.Name) and l.id == x:
                    e = r
                elif isinstance(r, ast.Name) and r.id == x:
                    e = l
                else:
                    continue
                if not _pure(e) or x in _free_names(e) or not _pure(st.iter):
                    continue
                occ = _occurrences_outside_comprehension_scopes(fn, x)
                if occ != 2 or x in info.params:
                    continue
                if len(inner) == 1 and isinstance(inner[0], ast.Break) and st.orelse:
                    new = ast.If(test=ast.Compare(left=e, ops=[ast.NotIn()], comparators=[st.iter]), body=st.orelse, orelse=[])
                    blk[i] = ast.copy_location(new, st)
                    ast.fix_missing_locations(fn)
                    return True
                if len(inner) == 2 and isinstance(inner[1], ast.Break) and not st.orelse and isinstance(inner[0], ast.Assign) and len(inner[0].targets) == 1 \
                        and isinstance(inner[0].targets[0], ast.Name) and isinstance(inner[0].value, ast.Constant) and inner[0].value.value is True and i > 0:
                    f = inner[0].targets[0].id
                    prev = blk[i - 1]
                    if isinstance(prev, ast.Assign) and len(prev.targets) == 1 and isinstance(prev.targets[0], ast.Name) and prev.targets[0].id == f \
                            and isinstance(prev.value, ast.Constant) and prev.value.value is False and f not in _free_names(e) and f not in _free_names(st.iter):
                        prev.value = ast.Compare(left=e, ops=[ast.In()], comparators=[st.iter])
                        del blk[i]
                        ast.fix_missing_locations(fn)
                        return True
    return False


FRESH_CALLS = {'slice', 'range', 'len', 'tuple', 'list', 'int', 'min', 'max', 'zip', 'enumerate', 'dict', 'abs', 'float', 'bool', 'str', 'sum', 'sorted', 'reversed'}


def _fresh_value(e):
    """an expression that builds a new list from effect-free parts (safe to evaluate again instead of copying its first value)"""
    for n in ast.walk(e):
        if isinstance(n, ast.Call) and not (isinstance(n.func, ast.Name) and n.func.id in FRESH_CALLS):
            return False
        if isinstance(n, (ast.Yield, ast.YieldFrom, ast.Await, ast.NamedExpr, ast.Lambda)):
            return False
    return isinstance(e, (ast.List, ast.ListComp)) or (isinstance(e, ast.BinOp) and isinstance(e.op, (ast.Mult, ast.Add)) and (isinstance(e.left, ast.List) or isinstance(e.right, ast.List))) \
        or (isinstance(e, ast.Call) and isinstance(e.func, ast.Name) and e.func.id == 'list')


def _copy_of_template(fn):
    """T = <fresh list expression> ; ... T.copy() ...      ->  the expression in place of every T.copy()   (T bound once, only ever copied)"""
    info = _FnInfo(fn)
    for asg in [n for n in ast.walk(fn) if isinstance(n, ast.Assign)]:
        if len(asg.targets) != 1 or not isinstance(asg.targets[0], ast.Name) or not _fresh_value(asg.value):
            continue
        name = asg.targets[0].id
        if not info.single(name) or info.order.get(id(asg)) is None or info.loops.get(id(asg), True):
            continue
        loads = info.loads(name)
        if not loads:
            continue
        calls = []
        for ld in loads:
            par = info.parents.get(id(ld))
            gp = info.parents.get(id(par)) if par is not None else None
            ok = isinstance(par, ast.Attribute) and par.value is ld and par.attr == 'copy' and isinstance(gp, ast.Call) and gp.func is par and not gp.args and not gp.keywords
            ok = ok or (isinstance(par, ast.Call) and isinstance(par.func, ast.Name) and par.func.id == 'list' and par.args == [ld] and not par.keywords)
            ok = ok or (isinstance(par, ast.Subscript) and par.value is ld and isinstance(par.ctx, ast.Load) and isinstance(par.slice, ast.Slice) and par.slice.lower is None and par.slice.upper is None and par.slice.step is None)
            if not ok or info.order.get(info.owner.get(id(ld)), -1) <= info.order[id(asg)]:
                calls = None
                break
            calls.append(gp if isinstance(par, ast.Attribute) else par)
        if not calls:
            continue
        free = _free_names(asg.value) - FRESH_CALLS
        if not info.stable_after(free, asg):
            # re-binding of a free name after the last copy is harmless; be exact only for the simple case
            later = [info.order.get(info.owner.get(id(ld)), -1) for ld in loads]
            rebinds = [info.order.get(info.owner.get(id(x)), 10 ** 9) for x in ast.walk(fn) if isinstance(x, ast.Name) and x.id in free and isinstance(x.ctx, (ast.Store, ast.Del))
                       and info.order.get(info.owner.get(id(x)), -1) > info.order[id(asg)]]
            if any(r <= max(later) for r in rebinds) or any(info.loops.get(info.owner.get(id(x)), True) for x in ast.walk(fn) if isinstance(x, ast.Name) and x.id in free and isinstance(x.ctx, ast.Store)
                                                               and info.order.get(info.owner.get(id(x)), -1) > info.order[id(asg)]):
                continue
        ids = {id(c) for c in calls}
        val = asg.value

        class Rp(ast.NodeTransformer):
            def visit_Call(self, n):
                if id(n) in ids:
                    return ast.copy_location(copy.deepcopy(val), n)
                return self.generic_visit(n)

            def visit_Subscript(self, n):
                if id(n) in ids:
                    return ast.copy_location(copy.deepcopy(val), n)
                return self.generic_visit(n)
        Rp().visit(fn)
        _remove_stmt(fn, asg)
        ast.fix_missing_locations(fn)
        return True
    return False


def _names(stmts, ctx):
    return {x.id for st in stmts for x in ast.walk(st) if isinstance(x, ast.Name) and isinstance(x.ctx, ctx)}


def _store_bases(stmts):
    """names written by the statements: plain stores, bases of subscript / attribute stores, receivers of method calls, targets of augmented assignments"""
    out = set()
    for st in stmts:
        for x in ast.walk(st):
            if isinstance(x, ast.Name) and isinstance(x.ctx, (ast.Store, ast.Del)):
                out.add(x.id)
            if isinstance(x, (ast.Subscript, ast.Attribute)) and isinstance(x.ctx, (ast.Store, ast.Del)):
                b = x
                while isinstance(b, (ast.Subscript, ast.Attribute)):
                    b = b.value
                if isinstance(b, ast.Name):
                    out.add(b.id)
            if isinstance(x, ast.Call) and isinstance(x.func, ast.Attribute):
                b = x.func.value
                while isinstance(b, (ast.Subscript, ast.Attribute)):
                    b = b.value
                if isinstance(b, ast.Name) and b.id not in ('np', 'numpy', 'math'):
                    out.add(b.id)
            if isinstance(x, ast.Call) and any(k.arg == 'out' for k in x.keywords):
                for k in x.keywords:
                    if k.arg == 'out':
                        out |= {y.id for y in ast.walk(k.value) if isinstance(y, ast.Name)}
            if isinstance(x, ast.Call) and isinstance(x.func, ast.Attribute) and x.func.attr == 'at' and x.args:
                out |= {y.id for y in ast.walk(x.args[0]) if isinstance(y, ast.Name)}
    return out


def _fuse_producer_consumer(fn):
    """L = [] ; for T1 in R1: BODY1 ; L.append(E)        for T2 in L: BODY2          ->   for T1 in R1: BODY1 ; T2 = E ; BODY2
    L has no other use; BODY1 only computes locals (effect-free calls, stores into lists it created itself); what BODY2 writes is not read by BODY1 / R1 / E and
    what BODY1 binds is not read by BODY2 (other than through T2)."""
    info = _FnInfo(fn)
    for n in ast.walk(fn):
        for fld in ('body', 'orelse', 'finalbody'):
            blk = getattr(n, fld, None)
            if not (isinstance(blk, list) and len(blk) >= 3 and isinstance(blk[0], ast.stmt)):
                continue
            for i in range(len(blk) - 2):
                a, p, c = blk[i], blk[i + 1], blk[i + 2]
                if not (isinstance(a, ast.Assign) and len(a.targets) == 1 and isinstance(a.targets[0], ast.Name) and isinstance(a.value, ast.List) and not a.value.elts):
                    continue
                L = a.targets[0].id
                if not (isinstance(p, ast.For) and isinstance(c, ast.For) and not p.orelse and not c.orelse and isinstance(c.iter, ast.Name) and c.iter.id == L and p.body):
                    continue
                last = p.body[-1]
                if not (isinstance(last, ast.Expr) and isinstance(last.value, ast.Call) and isinstance(last.value.func, ast.Attribute) and last.value.func.attr == 'append'
                        and isinstance(last.value.func.value, ast.Name) and last.value.func.value.id == L and len(last.value.args) == 1 and not last.value.keywords):
                    continue
                if sum(1 for x in ast.walk(fn) if isinstance(x, ast.Name) and x.id == L) != 3:
                    continue
                body1, E, body2 = p.body[:-1], last.value.args[0], c.body
                if any(isinstance(x, (ast.Break, ast.Continue, ast.Return, ast.Yield, ast.YieldFrom, ast.FunctionDef, ast.Lambda, ast.While, ast.Try, ast.With)) for st in body1 + body2 for x in ast.walk(st)):
                    continue
                # BODY1: effect-free calls only, stores only into names it binds itself
                own = _names(body1, ast.Store) | _names([ast.Expr(value=p.target)], ast.Store)
                ok = True
                for st in body1 + [ast.Expr(value=E)]:
                    for x in ast.walk(st):
                        if isinstance(x, ast.Call):
                            f = x.func
                            if isinstance(f, ast.Name) and f.id in FRESH_CALLS:
                                continue
                            if isinstance(f, ast.Attribute) and f.attr in ('copy', 'index', 'count') and isinstance(f.value, ast.Name):
                                continue
                            ok = False
                if not ok or not (_store_bases(body1) <= own):
                    continue
                t2 = _names([ast.Expr(value=c.target)], ast.Store)
                w2 = _store_bases(body2) | t2
                r1 = _names(body1, ast.Load) | _names([ast.Expr(value=p.iter), ast.Expr(value=E)], ast.Load)
                # reads of BODY1 that see a value from outside the iteration: everything it reads minus what it has bound before (straight-line approximation)
                bound, exposed = set(_names([ast.Expr(value=p.target)], ast.Store)), set()
                for st in body1:
                    if isinstance(st, ast.Assign):
                        exposed |= {x.id for x in ast.walk(st.value) if isinstance(x, ast.Name)} - bound
                        for t in st.targets:
                            if isinstance(t, ast.Name):
                                bound.add(t.id)
                            else:
                                exposed |= {x.id for x in ast.walk(t) if isinstance(x, ast.Name) and isinstance(x.ctx, ast.Load)} - bound
                    else:
                        exposed |= {x.id for x in ast.walk(st) if isinstance(x, ast.Name) and isinstance(x.ctx, ast.Load)} - bound
                exposed |= {x.id for x in ast.walk(E) if isinstance(x, ast.Name)} - bound
                exposed |= _names([ast.Expr(value=p.iter)], ast.Load)
                if w2 & exposed:
                    continue
                r2 = _names(body2, ast.Load) - t2
                if r2 & own:
                    continue
                # names bound by BODY1 must not be read after the loops expecting their last value? they keep it: BODY2 does not bind them (w2 & own checked through exposed only) - require disjointness
                if (w2 - t2) & own:
                    continue
                bind = ast.copy_location(ast.Assign(targets=[c.target], value=E), last)
                p.body = body1 + [bind] + body2
                del blk[i + 2]
                del blk[i]
                ast.fix_missing_locations(fn)
                return True
    return False


def _eafp_unpack(fn):
    """try: (a, b) = S  except ValueError: H   [rest]      ->   if len(S) != 2: H  else: a = S[0] ; b = S[1]
    S is this function's *args tuple or a parameter annotated tuple / list, not re-bound before the statement (its length is then all the unpacking can complain about)"""
    sized = set()
    if fn.args.vararg:
        sized.add(fn.args.vararg.arg)
    for a in fn.args.posonlyargs + fn.args.args + fn.args.kwonlyargs:
        if a.annotation is not None and ast.unparse(a.annotation).strip("'\"").split('[')[0] in ('tuple', 'list', 'Tuple', 'List'):
            sized.add(a.arg)
    if not sized:
        return False
    info = _FnInfo(fn)
    for n in ast.walk(fn):
        for fld in ('body', 'orelse', 'finalbody'):
            blk = getattr(n, fld, None)
            if not (isinstance(blk, list) and blk and isinstance(blk[0], ast.stmt)):
                continue
            for i, st in enumerate(blk):
                if not (isinstance(st, ast.Try) and len(st.body) == 1 and len(st.handlers) == 1 and not st.finalbody and isinstance(st.body[0], ast.Assign)):
                    continue
                asg, h = st.body[0], st.handlers[0]
                if not (len(asg.targets) == 1 and isinstance(asg.targets[0], (ast.Tuple, ast.List)) and isinstance(asg.value, ast.Name) and asg.value.id in sized
                        and all(isinstance(e, ast.Name) for e in asg.targets[0].elts) and info.counts.get(asg.value.id, 0) == 0):
                    continue
                if not (isinstance(h.type, ast.Name) and h.type.id == 'ValueError' and h.name is None):
                    continue
                if any(isinstance(x, ast.Raise) and x.exc is None for s_ in h.body for x in ast.walk(s_)):
                    continue
                S, k = asg.value.id, len(asg.targets[0].elts)
                binds = [ast.Assign(targets=[ast.Name(id=e.id, ctx=ast.Store())], value=ast.Subscript(value=ast.Name(id=S, ctx=ast.Load()), slice=ast.Constant(value=j), ctx=ast.Load()))
                         for j, e in enumerate(asg.targets[0].elts)]
                new = ast.If(test=ast.Compare(left=ast.Call(func=ast.Name(id='len', ctx=ast.Load()), args=[ast.Name(id=S, ctx=ast.Load())], keywords=[]), ops=[ast.NotEq()], comparators=[ast.Constant(value=k)]),
                             body=h.body, orelse=binds + list(st.orelse))
                ast.copy_location(new, st)
                # a handler that always leaves: the bindings and the rest follow the `if`
                if isinstance(h.body[-1], (ast.Return, ast.Raise, ast.Continue, ast.Break)):
                    new.orelse = []
                    blk[i:i + 1] = [new] + binds + list(st.orelse)
                else:
                    blk[i] = new
                ast.fix_missing_locations(fn)
                return True
    return False


def _generated_list_results(fn):
    """Y = list(X) / Y = X  for a generated accumulator X (__out*) that is otherwise only appended to / extended, Y bound once and not seen before:  X is renamed Y"""
    info = _FnInfo(fn)
    for asg in [n for n in ast.walk(fn) if isinstance(n, ast.Assign)]:
        if len(asg.targets) != 1 or not isinstance(asg.targets[0], ast.Name):
            continue
        y, v = asg.targets[0].id, asg.value
        if isinstance(v, ast.Call) and isinstance(v.func, ast.Name) and v.func.id == 'list' and len(v.args) == 1 and not v.keywords and isinstance(v.args[0], ast.Name):
            src = v.args[0]
        elif isinstance(v, ast.Name):
            src = v
        else:
            continue
        x = src.id
        if not x.startswith('__out') or info.counts.get(x, 0) != 1 or not info.single(y) or info.loops.get(id(asg), True):
            continue
        at = info.order.get(id(asg))
        if at is None:
            continue
        ok = True
        for ld in info.loads(x):
            if ld is src:
                continue
            par = info.parents.get(id(ld))
            gp = info.parents.get(id(par)) if par is not None else None
            if not (isinstance(par, ast.Attribute) and par.value is ld and par.attr in ('append', 'extend') and isinstance(gp, ast.Call) and gp.func is par
                    and info.order.get(info.owner.get(id(ld)), 10 ** 9) < at):
                ok = False
        if not ok:
            continue
        if any(isinstance(n, ast.Name) and n.id == y and n is not asg.targets[0] and info.order.get(info.owner.get(id(n)), -1) <= at for n in ast.walk(fn)):
            continue
        if any(isinstance(n, (ast.FunctionDef, ast.Lambda, ast.ClassDef)) and n is not fn for n in ast.walk(fn)):
            continue
        for n in ast.walk(fn):
            if isinstance(n, ast.Name) and n.id == x:
                n.id = y
        _remove_stmt(fn, asg)
        ast.fix_missing_locations(fn)
        return True
    return False


def _adjacent_copies(fn):
    """<statement binding t> ; x = t      ->   <statement binding x>       (adjacent; t bound once and read once, x bound once: also inside loops)"""
    info = _FnInfo(fn)
    for n in ast.walk(fn):
        for fld in ('body', 'orelse', 'finalbody'):
            blk = getattr(n, fld, None)
            if not (isinstance(blk, list) and len(blk) >= 2 and isinstance(blk[0], ast.stmt)):
                continue
            for i in range(len(blk) - 1):
                a, b = blk[i], blk[i + 1]
                if not (isinstance(b, ast.Assign) and len(b.targets) == 1 and isinstance(b.targets[0], ast.Name) and isinstance(b.value, ast.Name) and isinstance(a, ast.Assign)):
                    continue
                x, t = b.targets[0].id, b.value.id
                if x == t or info.counts.get(t, 0) != 1 or info.counts.get(x, 0) != 1 or t in info.params or x in info.params or len(info.loads(t)) != 1:
                    continue
                tstores = [y for tg in a.targets for y in ast.walk(tg) if isinstance(y, ast.Name) and isinstance(y.ctx, ast.Store) and y.id == t]
                if len(tstores) != 1 or any(isinstance(y, ast.Name) and y.id == x for y in ast.walk(a)):
                    continue
                if any(isinstance(y, (ast.FunctionDef, ast.ClassDef)) and y.name in (x, t) for y in ast.walk(fn) if y is not fn) or any(isinstance(y, ast.arg) and y.arg in (x, t) and y.arg not in info.params for y in ast.walk(fn)):
                    continue
                if '__' in x and '__' not in t:
                    keep, drop = t, x           # keep the programmer's name
                else:
                    keep, drop = x, t
                for y in ast.walk(fn):
                    if isinstance(y, ast.Name) and y.id == drop:
                        y.id = keep
                del blk[i + 1]
                ast.fix_missing_locations(fn)
                return True
    return False


def _globals_subscripts(fn):
    """globals()['name'] (read or written) inside a function is the module variable `name`:  m = globals() ; m['x'] = v   ->   global x ; x = v"""
    def is_globals_call(e):
        return isinstance(e, ast.Call) and isinstance(e.func, ast.Name) and e.func.id == 'globals' and not e.args and not e.keywords
    if not any(is_globals_call(x) for x in ast.walk(fn)):
        return False
    if any(isinstance(x, ast.Name) and x.id == 'globals' and isinstance(x.ctx, ast.Store) for x in ast.walk(fn)):
        return False
    info = _FnInfo(fn)
    # aliases: locals bound once to globals() and only ever subscripted with constant strings
    aliases = set()
    for asg in [n for n in ast.walk(fn) if isinstance(n, ast.Assign)]:
        if len(asg.targets) == 1 and isinstance(asg.targets[0], ast.Name) and is_globals_call(asg.value) and info.single(asg.targets[0].id):
            nm = asg.targets[0].id
            lds = info.loads(nm)
            if lds and all(isinstance(info.parents.get(id(ld)), ast.Subscript) and info.parents[id(ld)].value is ld and isinstance(info.parents[id(ld)].slice, ast.Constant)
                           and isinstance(info.parents[id(ld)].slice.value, str) for ld in lds):
                aliases.add(nm)
    subs = []
    for x in ast.walk(fn):
        if isinstance(x, ast.Subscript) and isinstance(x.slice, ast.Constant) and isinstance(x.slice.value, str) and x.slice.value.isidentifier() \
                and (is_globals_call(x.value) or (isinstance(x.value, ast.Name) and x.value.id in aliases)):
            subs.append(x)
    if not subs:
        return False
    # every globals() call must be consumed that way
    used = {id(x.value) for x in subs}
    for x in ast.walk(fn):
        if is_globals_call(x) and id(x) not in used:
            par = info.parents.get(id(x))
            if not (isinstance(par, ast.Assign) and par.value is x and isinstance(par.targets[0], ast.Name) and par.targets[0].id in aliases):
                return False
    names = {x.slice.value for x in subs}
    written = {x.slice.value for x in subs if isinstance(x.ctx, (ast.Store, ast.Del))}
    # the names must not be locals / parameters of this function
    declared = {nm for x in ast.walk(fn) if isinstance(x, ast.Global) for nm in x.names}
    for nm in names:
        if nm in info.params or (info.counts.get(nm, 0) and nm not in declared):
            return False
        if any(isinstance(x, ast.Name) and x.id == nm for x in ast.walk(fn)) and nm not in declared and nm in written:
            return False
    ids = {id(x): x for x in subs}

    class Rp(ast.NodeTransformer):
        def visit_Subscript(self, n):
            if id(n) in ids:
                return ast.copy_location(ast.Name(id=n.slice.value, ctx=n.ctx), n)
            return self.generic_visit(n)
    Rp().visit(fn)
    for asg in [n for n in ast.walk(fn) if isinstance(n, ast.Assign)]:
        if len(asg.targets) == 1 and isinstance(asg.targets[0], ast.Name) and asg.targets[0].id in aliases and is_globals_call(asg.value):
            _remove_stmt(fn, asg)
    need = sorted(written - declared)
    if need:
        doc = 1 if fn.body and isinstance(fn.body[0], ast.Expr) and isinstance(fn.body[0].value, ast.Constant) and isinstance(fn.body[0].value.value, str) else 0
        fn.body.insert(doc, ast.Global(names=need))
    ast.fix_missing_locations(fn)
    return True


def _loop_target_aliases(fn):
    """for .. t ..: ... x = t ...     (t bound only as that loop target, x bound only by that copy, every read of x follows the copy inside the loop)   ->   one variable"""
    info = _FnInfo(fn)
    for loop in [n for n in ast.walk(fn) if isinstance(n, ast.For)]:
        tnames = {y.id for y in ast.walk(loop.target) if isinstance(y, ast.Name)}
        for asg in [n for st in loop.body for n in ast.walk(st) if isinstance(n, ast.Assign)]:
            if not (len(asg.targets) == 1 and isinstance(asg.targets[0], ast.Name) and isinstance(asg.value, ast.Name) and asg.value.id in tnames):
                continue
            x, t = asg.targets[0].id, asg.value.id
            if x == t or info.counts.get(t, 0) != 1 or info.counts.get(x, 0) != 1 or x in info.params or t in info.params:
                continue
            if any(isinstance(y, (ast.FunctionDef, ast.Lambda, ast.ClassDef)) for y in ast.walk(loop)):
                continue
            xs = [y for y in ast.walk(fn) if isinstance(y, ast.Name) and y.id == x and y is not asg.targets[0]]
            if not _later_in_same_block(fn, asg, xs):
                continue
            # the copy must not sit in an inner loop of `loop` where t could be... t is only bound by `loop` itself: fine
            if '__' in x and '__' not in t:
                keep, drop = t, x
            else:
                keep, drop = x, t
            for y in ast.walk(fn):
                if isinstance(y, ast.Name) and y.id == drop:
                    y.id = keep
            _remove_stmt(fn, asg)
            ast.fix_missing_locations(fn)
            return True
    return False


def _for_over_genexp(fn):
    """for T in (E for v in X if C): BODY     ->   for v in X: if C: T = E ; BODY          (exactly what the generator expression does, one element at a time)
    when E is the comprehension variable itself the loop runs over X directly with T as its variable"""
    for n in ast.walk(fn):
        for fld in ('body', 'orelse', 'finalbody'):
            blk = getattr(n, fld, None)
            if not (isinstance(blk, list) and blk and isinstance(blk[0], ast.stmt)):
                continue
            for i, st in enumerate(blk):
                if not (isinstance(st, ast.For) and isinstance(st.iter, ast.GeneratorExp) and len(st.iter.generators) == 1 and not st.orelse):
                    continue
                g = st.iter.generators[0]
                if g.is_async:
                    continue
                vnames = {y.id for y in ast.walk(g.target) if isinstance(y, ast.Name)}
                inside = {id(y) for y in ast.walk(st.iter)}

                def shape(e):
                    return ast.dump(e).replace('Store()', 'Load()')
                if shape(st.iter.elt) == shape(g.target) == shape(st.target) and not any(isinstance(y, ast.Name) and y.id in vnames and isinstance(y.ctx, ast.Store) for b in st.body for y in ast.walk(b)):
                    # for i, o in ((i, o) for i, o in X if C): BODY   ->   for i, o in X: if C: BODY        (same names inside and outside: nothing to rename)
                    body = st.body
                    if g.ifs:
                        test = g.ifs[0] if len(g.ifs) == 1 else ast.BoolOp(op=ast.And(), values=list(g.ifs))
                        body = [ast.If(test=test, body=body, orelse=[])]
                    blk[i] = ast.copy_location(ast.For(target=st.target, iter=g.iter, body=body, orelse=[]), st)
                    ast.fix_missing_locations(fn)
                    return True
                if any(isinstance(y, ast.Name) and y.id in vnames and id(y) not in inside for y in ast.walk(fn)):
                    continue            # the comprehension variable would collide with a name of the function
                if any(isinstance(y, (ast.Break,)) for b in st.body for y in ast.walk(b)) and g.ifs and False:
                    continue
                elt = st.iter.elt
                if isinstance(elt, ast.Name) and isinstance(g.target, ast.Name) and elt.id == g.target.id and isinstance(st.target, ast.Name):
                    # rename the comprehension variable to the loop variable
                    new_name = st.target.id
                    if any(isinstance(y, ast.Name) and y.id == new_name for c_ in g.ifs + [g.iter] for y in ast.walk(c_)):
                        continue
                    for c_ in g.ifs:
                        for y in ast.walk(c_):
                            if isinstance(y, ast.Name) and y.id == elt.id:
                                y.id = new_name
                    body = st.body
                    if g.ifs:
                        test = g.ifs[0] if len(g.ifs) == 1 else ast.BoolOp(op=ast.And(), values=list(g.ifs))
                        body = [ast.If(test=test, body=body, orelse=[])]
                    blk[i] = ast.copy_location(ast.For(target=st.target, iter=g.iter, body=body, orelse=[]), st)
                else:
                    body = [ast.Assign(targets=[st.target], value=elt)] + st.body
                    if g.ifs:
                        # `continue` inside BODY still continues the loop: fine
                        test = g.ifs[0] if len(g.ifs) == 1 else ast.BoolOp(op=ast.And(), values=list(g.ifs))
                        body = [ast.If(test=test, body=body, orelse=[])]
                    blk[i] = ast.copy_location(ast.For(target=g.target, iter=g.iter, body=body, orelse=[]), st)
                ast.fix_missing_locations(fn)
                return True
    return False


def _head_tail_destructure(fn):
    """t = tuple(E) | list(E) | E ; uses only t[0] .. t[n-1] and t[n:] (the slice only as a starred argument / loop iterable)     ->   t__0, .., *t__rest = E"""
    info = _FnInfo(fn)
    for asg in [n for n in ast.walk(fn) if isinstance(n, ast.Assign)]:
        if len(asg.targets) != 1 or not isinstance(asg.targets[0], ast.Name):
            continue
        name, val = asg.targets[0].id, asg.value
        if not (isinstance(val, ast.Call) and isinstance(val.func, ast.Name) and val.func.id in ('tuple', 'list') and len(val.args) == 1 and not val.keywords
                and isinstance(val.args[0], ast.Call)):
            continue
        if not info.single(name) or info.order.get(id(asg)) is None:
            continue
        occ = [n for n in ast.walk(fn) if isinstance(n, ast.Name) and n.id == name and n is not asg.targets[0]]
        if not occ or (info.loops.get(id(asg), True) and not _later_in_same_block(fn, asg, occ)):
            continue
        idx, tail, ok = {}, {}, True
        for o in occ:
            par = info.parents.get(id(o))
            if not (isinstance(par, ast.Subscript) and par.value is o and isinstance(par.ctx, ast.Load)):
                ok = False
                break
            k = _const_key(par.slice)
            if k is not None and k[0] == 'int' and k[1] >= 0:
                idx[id(par)] = k[1]
            elif isinstance(par.slice, ast.Slice) and par.slice.upper is None and par.slice.step is None and par.slice.lower is not None \
                    and (_const_key(par.slice.lower) or ('', 0))[0] == 'int' and _const_key(par.slice.lower)[1] >= 0:
                gp = info.parents.get(id(par))
                if not (isinstance(gp, ast.Starred) or (isinstance(gp, (ast.For, ast.comprehension)) and gp.iter is par)):
                    ok = False
                    break
                tail[id(par)] = _const_key(par.slice.lower)[1]
            else:
                ok = False
                break
        if not ok or len(set(tail.values())) > 1:
            continue
        n_head = list(tail.values())[0] if tail else (max(idx.values()) + 1 if idx else 0)
        if not tail:
            continue            # without the slice the length of E is unknown: t[0], t[1] alone do not fix it
        if any(k >= n_head for k in idx.values()):
            continue
        existing = {n.id for n in ast.walk(fn) if isinstance(n, ast.Name)} | info.params
        names = ['%s__%d' % (name, i) for i in range(n_head)] + ['%s__rest' % name]
        if any(x in existing for x in names):
            continue

        class Rp(ast.NodeTransformer):
            def visit_Subscript(self, n):
                if id(n) in idx:
                    return ast.copy_location(ast.Name(id=names[idx[id(n)]], ctx=ast.Load()), n)
                if id(n) in tail:
                    return ast.copy_location(ast.Name(id=names[-1], ctx=ast.Load()), n)
                return self.generic_visit(n)
        Rp().visit(fn)
        asg.targets = [ast.Tuple(elts=[ast.Name(id=x, ctx=ast.Store()) for x in names[:-1]] + [ast.Starred(value=ast.Name(id=names[-1], ctx=ast.Store()), ctx=ast.Store())], ctx=ast.Store())]
        asg.value = val.args[0]
        ast.fix_missing_locations(fn)
        return True
    return False


def _conditional_displays(fn):
    """X = (a, *[t for t in (u, v) if C(t)], b)      ->   X = (a,) ; if C(u): X += (u,) ; if C(v): X += (v,) ; X += (b,)
    (the filtered comprehension over a literal tuple of names spelled as the conditional appends it stands for)"""
    for n in ast.walk(fn):
        for fld in ('body', 'orelse', 'finalbody'):
            blk = getattr(n, fld, None)
            if not (isinstance(blk, list) and blk and isinstance(blk[0], ast.stmt)):
                continue
            for i, st in enumerate(blk):
                if not (isinstance(st, ast.Assign) and len(st.targets) == 1 and isinstance(st.targets[0], ast.Name) and isinstance(st.value, (ast.Tuple, ast.List))):
                    continue
                X = st.targets[0].id
                stars = [j for j, e in enumerate(st.value.elts) if isinstance(e, ast.Starred)]
                if len(stars) != 1:
                    continue
                j = stars[0]
                comp = st.value.elts[j].value
                if isinstance(comp, ast.Call) and isinstance(comp.func, ast.Name) and comp.func.id in ('tuple', 'list') and len(comp.args) == 1 and not comp.keywords:
                    comp = comp.args[0]
                if not (isinstance(comp, (ast.ListComp, ast.GeneratorExp)) and len(comp.generators) == 1):
                    continue
                g = comp.generators[0]
                if not (g.ifs and isinstance(g.target, ast.Name) and isinstance(comp.elt, ast.Name) and comp.elt.id == g.target.id and isinstance(g.iter, (ast.Tuple, ast.List))
                        and g.iter.elts and all(isinstance(e, (ast.Name, ast.Attribute)) and _pure(e) for e in g.iter.elts)):
                    continue
                others = st.value.elts[:j] + st.value.elts[j + 1:]
                if any(isinstance(y, ast.Name) and y.id == X for e in st.value.elts for y in ast.walk(e)) or not all(_pure(e) for e in others):
                    continue
                v = g.target.id
                disp = type(st.value)

                def one(items):
                    return disp(elts=list(items), ctx=ast.Load())
                new = [ast.Assign(targets=[ast.Name(id=X, ctx=ast.Store())], value=one(st.value.elts[:j]))]
                for item in g.iter.elts:
                    class Sb(ast.NodeTransformer):
                        def visit_Name(self, y):
                            return copy.deepcopy(item) if y.id == v and isinstance(y.ctx, ast.Load) else y
                    conds = [Sb().visit(copy.deepcopy(c)) for c in g.ifs]
                    test = conds[0] if len(conds) == 1 else ast.BoolOp(op=ast.And(), values=conds)
                    new.append(ast.If(test=test, body=[ast.AugAssign(target=ast.Name(id=X, ctx=ast.Store()), op=ast.Add(), value=one([copy.deepcopy(item)]))], orelse=[]))
                if st.value.elts[j + 1:]:
                    new.append(ast.AugAssign(target=ast.Name(id=X, ctx=ast.Store()), op=ast.Add(), value=one(st.value.elts[j + 1:])))
                for x_ in new:
                    ast.copy_location(x_, st)
                    ast.fix_missing_locations(x_)
                blk[i:i + 1] = new
                return True
    return False


def _forward_temps(fn):
    """t = E ; TARGET = t      ->  TARGET = E        (adjacent statements; t bound once and read once - by that copy; TARGET may be a global, an
    attribute or a subscript whose own sub-expressions are effect free)"""
    info = _FnInfo(fn)
    for n in ast.walk(fn):
        for fld in ('body', 'orelse', 'finalbody'):
            blk = getattr(n, fld, None)
            if not (isinstance(blk, list) and blk and isinstance(blk[0], ast.stmt)):
                continue
            for i in range(len(blk) - 1):
                a, b = blk[i], blk[i + 1]
                if not (isinstance(a, ast.Assign) and len(a.targets) == 1 and isinstance(a.targets[0], ast.Name) and isinstance(b, ast.Assign) and len(b.targets) == 1
                        and isinstance(b.value, ast.Name) and b.value.id == a.targets[0].id):
                    continue
                t = a.targets[0].id
                if info.counts.get(t, 0) != 1 or t in info.params or len(info.loads(t)) != 1:
                    continue
                tgt = b.targets[0]
                if isinstance(tgt, ast.Name):
                    if tgt.id == t:
                        continue
                elif not all(_pure(x) for x in ast.iter_child_nodes(tgt) if isinstance(x, ast.expr)):
                    continue
                b.value = a.value
                del blk[i]
                ast.fix_missing_locations(fn)
                return True
    return False


def _coalesce_copies(fn):
    """t = ... (one or more bindings, e.g. one per branch) ; x = t      ->  x = ...
    t is read exactly once - by the copy - and x is bound only by that copy and never read before it: t and x are one variable"""
    info = _FnInfo(fn)
    for asg in [n for n in ast.walk(fn) if isinstance(n, ast.Assign)]:
        if len(asg.targets) != 1 or not isinstance(asg.targets[0], ast.Name) or not isinstance(asg.value, ast.Name):
            continue
        x, t = asg.targets[0].id, asg.value.id
        x_is_param = x in info.params and info.counts.get(x, 0) == 1
        if x == t or not (info.single(x) or x_is_param) or t in info.params or info.counts.get(t, 0) < 1:
            continue
        at = info.order.get(id(asg))
        if at is None or info.loops.get(id(asg), True):
            continue
        t_loads = info.loads(t)
        if len(t_loads) != 1 or t_loads[0] is not asg.value:
            continue
        defs = [n for n in ast.walk(fn) if isinstance(n, ast.FunctionDef) and n.name == t and n is not fn]
        if defs:
            # x = <nested def t>: the def simply gets the name x (t is not referenced anywhere else, not even by itself)
            if len(defs) == 1 and info.counts.get(t, 0) == 1 and info.order.get(id(defs[0])) is not None and info.order[id(defs[0])] < at \
                    and not any(isinstance(n, ast.Name) and n.id == x and n is not asg.targets[0] and info.order.get(info.owner.get(id(n)), -1) <= at for n in ast.walk(fn)) \
                    and not any(isinstance(n, ast.Name) and n.id == x for n in ast.walk(defs[0])):
                defs[0].name = x
                _remove_stmt(fn, asg)
                return True
            continue
        # every binding of t is a plain Name store in an Assign / AugAssign / tuple target of this function's own body, before the copy and outside loops
        ok = True
        for n in ast.walk(fn):
            if isinstance(n, ast.Name) and n.id == t and isinstance(n.ctx, (ast.Store, ast.Del)):
                st = info.owner.get(id(n))
                if isinstance(n.ctx, ast.Del) or info.order.get(st) is None or info.order[st] >= at:
                    ok = False
            if isinstance(n, (ast.FunctionDef, ast.ClassDef)) and n.name in (t, x) and n is not fn:
                ok = False
            if isinstance(n, ast.arg) and n.arg in (t, x) and n.arg not in info.params:
                ok = False
        if ok and x_is_param:
            # x = f(x) spelled through a temporary:  t = x | t = g(x) (one binding per path) ; x = t.     Reads of the OLD x are allowed only where they still see
            # the old value after the renaming: before the first binding of t, in the value of a binding of t, or in the test of an `if` that encloses bindings of
            # t and precedes them
            stmts_by_id = {id(z): z for z in ast.walk(fn) if isinstance(z, ast.stmt)}
            tb = [info.owner.get(id(n)) for n in ast.walk(fn) if isinstance(n, ast.Name) and n.id == t and isinstance(n.ctx, ast.Store)]
            first = min(info.order[b] for b in tb)
            if any(info.loops.get(b, True) for b in tb):
                ok = False
            for n in ast.walk(fn):
                if not ok:
                    break
                if isinstance(n, ast.Name) and n.id == x and n is not asg.targets[0]:
                    st = info.owner.get(id(n))
                    o = info.order.get(st)
                    if o is None:
                        ok = False
                    elif o < first or o > at:
                        continue
                    elif st in tb and isinstance(stmts_by_id.get(st), ast.Assign) and any(y is n for y in ast.walk(stmts_by_id[st].value)):
                        continue
                    elif isinstance(stmts_by_id.get(st), ast.If) and any(y is n for y in ast.walk(stmts_by_id[st].test)) \
                            and all(info.order[b] > o for b in tb if any(z is stmts_by_id.get(b) for z in ast.walk(stmts_by_id[st]))) \
                            and not any(info.order[b] < o and info.order[b] >= first for b in tb):
                        continue
                    else:
                        ok = False
        elif ok:
            for n in ast.walk(fn):
                if isinstance(n, ast.Name) and n.id == x and n is not asg.targets[0]:
                    st = info.owner.get(id(n))
                    if info.order.get(st, -1) <= at:
                        ok = False
        if not ok:
            continue
        for n in ast.walk(fn):
            if isinstance(n, ast.Name) and n.id == t:
                n.id = x
        _remove_stmt(fn, asg)
        return True
    return False


def simplify_function(fn, ctx, inliner, cls):
    changed_any = False
    for _it in range(40):
        changed = False
        f = Fold(ctx)
        f.shadowed = {x.id for x in ast.walk(fn) if isinstance(x, ast.Name) and isinstance(x.ctx, ast.Store)} | {a.arg for a in ast.walk(fn) if isinstance(a, ast.arg)}
        f.counter = _it * 100
        f.visit(fn)
        changed |= f.changed
        changed |= _prune_ifs(fn)
        changed |= _first_match_loops(fn)
        changed |= _reduce_loops(fn, ctx)
        changed |= _destructure_loop_targets(fn)
        changed |= _bool_flags(fn)
        changed |= _flatten_product_loops(fn)
        changed |= _modern_syntax(fn)
        changed |= _induction_vars(fn)
        changed |= _membership_loops(fn)
        changed |= _eafp_unpack(fn)
        changed |= _globals_subscripts(fn)
        changed |= _yield_from_genexp(fn)
        changed |= _for_over_genexp(fn)
        changed |= _setattr_statements(fn)
        changed |= _loop_else_without_break(fn)
        changed |= _conditional_displays(fn)
        if _propagate_locals(fn, ctx):
            changed = True
        elif _record_dicts(fn):
            changed = True
        elif _record_objects(fn):
            changed = True
        elif _multi_bound_records(fn):
            changed = True
        elif _local_closures(fn, inliner, cls):
            changed = True
        elif _coalesce_copies(fn):
            changed = True
        elif _forward_temps(fn):
            changed = True
        elif _head_tail_destructure(fn):
            changed = True
        elif _adjacent_copies(fn):
            changed = True
        elif _loop_target_aliases(fn):
            changed = True
        elif _generated_lists(fn):
            changed = True
        elif _generated_list_results(fn):
            changed = True
        elif _round_trip_temps(fn):
            changed = True
        elif _copy_of_template(fn):
            changed = True
        elif _fuse_producer_consumer(fn):
            changed = True
        elif _split_impure_packs(fn):
            changed = True
        if not changed:
            break
        changed_any = True
    if changed_any:
        ast.fix_missing_locations(fn)
    return changed_any


def lower_module(tree, inliner, extra_passes=()):
    """fixpoint of: private constants -> helper inlining -> per-function simplification -> extra (unrolling) passes"""
    ctx = _partial_names(tree)
    _RECORDS.clear()
    _RECORDS.update(_record_classes(tree))
    _SENTINELS.clear()
    stores = {}
    for n in ast.walk(tree):
        if isinstance(n, ast.Name) and isinstance(n.ctx, (ast.Store, ast.Del)):
            stores[n.id] = stores.get(n.id, 0) + 1
    for st in tree.body:
        if isinstance(st, ast.Assign) and len(st.targets) == 1 and isinstance(st.targets[0], ast.Name) and st.targets[0].id.startswith('_') and stores.get(st.targets[0].id) == 1 \
                and isinstance(st.value, ast.Call) and isinstance(st.value.func, ast.Name) and st.value.func.id == 'object' and not st.value.args and not st.value.keywords:
            _SENTINELS.add(st.targets[0].id)
    for it in range(8):
        before = ast.dump(tree)
        module_consts(tree)
        inliner.run()
        if getattr(inliner, 'after_run', None) is not None:
            inliner.after_run()
        for n in tree.body:
            if isinstance(n, ast.FunctionDef):
                _simplify_tree(n, ctx, inliner, None)
            elif isinstance(n, ast.ClassDef):
                for m in n.body:
                    if isinstance(m, ast.FunctionDef):
                        _simplify_tree(m, ctx, inliner, n.name)
        for p in extra_passes:
            p(tree)
        ast.fix_missing_locations(tree)
        if ast.dump(tree) == before:
            break


def _simplify_tree(fn, ctx, inliner, cls):
    # inner functions first (their simplified bodies are what the outer function's closures inlining sees)
    for d in [n for n in ast.walk(fn) if isinstance(n, ast.FunctionDef) and n is not fn]:
        simplify_function(d, ctx, inliner, cls)
    simplify_function(fn, ctx, inliner, cls)
