"""Run every implemented check against seeded changes (patch.diff files) on scratch copies of /repo.
usage: seeded_eval.py <dir-with-patch.diff> [...]     (each dir: patch.diff [meta.json])
Prints, per patch, which properties' checks report it (exit 1 + rules) / are incomplete (exit 2) / stay silent."""
import os, sys, json, shutil, tempfile, subprocess
from concurrent.futures import ProcessPoolExecutor
HERE = os.path.dirname(os.path.abspath(__file__))
sys.path.insert(0, os.path.dirname(HERE))


def props():
    return sorted(f[:-3].upper() for f in os.listdir(os.path.join(HERE, 'props')) if f.startswith('c') and f[1:3].isdigit() and f.endswith('.py'))


def run_one(d):
    os.environ['SA_NO_SELFTEST'] = '1'
    tmp = tempfile.mkdtemp(prefix='sa_seed_')
    evd = tempfile.mkdtemp(prefix='sa_ev_')
    try:
        shutil.copytree('/repo/synapgrad', os.path.join(tmp, 'synapgrad'), ignore=shutil.ignore_patterns('__pycache__'))
        r = subprocess.run(['git', 'apply', '--unsafe-paths', '--directory=' + tmp, os.path.join(d, 'patch.diff')], capture_output=True, text=True, cwd=tmp)
        if r.returncode != 0:
            r = subprocess.run(['patch', '-p1', '-s', '-i', os.path.join(d, 'patch.diff')], capture_output=True, text=True, cwd=tmp)
            if r.returncode != 0:
                return dict(dir=d, error='patch does not apply: ' + (r.stderr or r.stdout)[:200])
        import sa.report, sa.check
        from sa import opcat
        sa.report.EVIDENCE_DIR = evd
        sa.check.EVIDENCE_DIR = evd
        out = {}
        for p in props():
            opcat._cache.clear()
            code, R = sa.check.run(p, 'quick', repo=tmp, quiet=True, selftest=False)
            if code != 0:
                out[p] = dict(code=code, rules=sorted({o['rule'] for o in getattr(R, 'viol', [])}), where=sorted({o['where'].split('.')[-1] for o in getattr(R, 'viol', [])})[:4],
                              incomplete=[list(x) for x in R.incomplete][:2], err=getattr(R, 'internal_error', None))
        return dict(dir=d, results=out)
    finally:
        shutil.rmtree(tmp, ignore_errors=True)
        shutil.rmtree(evd, ignore_errors=True)


if __name__ == '__main__':
    dirs = [d.rstrip('/') for d in sys.argv[1:] if os.path.exists(os.path.join(d, 'patch.diff'))]
    with ProcessPoolExecutor(max_workers=12) as ex:
        res = list(ex.map(run_one, dirs))
    for r in res:
        meta = {}
        try:
            meta = json.load(open(os.path.join(r['dir'], 'meta.json')))
        except Exception:
            pass
        tag = r['dir'].replace('/tmp/agents/out_', '')
        if 'error' in r:
            print('%-10s ERROR %s' % (tag, r['error']))
            continue
        own = meta.get('property')
        fired = {p: v for p, v in r['results'].items() if v['code'] == 1}
        inc = {p: v for p, v in r['results'].items() if v['code'] == 2}
        status = 'CAUGHT' if fired else ('INCOMPLETE' if inc else 'MISSED')
        print('%-10s %-10s own=%s fired=%s incomplete=%s' % (tag, status, own, {p: v['rules'] for p, v in fired.items()}, {p: (v['incomplete'] or v['err']) for p, v in inc.items()}))
        print('           %s' % (meta.get('summary', '')[:200]))
    json.dump(res, open('/tmp/seeded_eval_last.json', 'w'), indent=1)
