"""Copy verified seeded changes from the agents' output directories into /verif/seeded/<id>/ (patch.diff, demo.py, meta.json)
and record which checks report them.   usage: seeded_store.py /tmp/agents/out_C01/m1 ..."""
import os, sys, json, shutil, subprocess
HERE = os.path.dirname(os.path.abspath(__file__))
sys.path.insert(0, os.path.dirname(HERE))
from sa import seeded_eval

_FE = None


def _first_eval():
    """optional record of the first evaluation (output of seeded_eval.py saved before the checks were strengthened): SEED_FIRST_EVAL=<file>"""
    global _FE
    if _FE is None:
        _FE = {}
        path = os.environ.get('SEED_FIRST_EVAL')
        if path and os.path.exists(path):
            import ast as _ast, re
            for line in open(path):
                mt = re.match(r"^(/\S+)\s+(CAUGHT|MISSED|INCOMPLETE)\s+own=\S+\s+fired=(\{.*?\})\s+incomplete=", line)
                if mt:
                    st = {'CAUGHT': 'caught', 'MISSED': 'missed', 'INCOMPLETE': 'incomplete (exit 2)'}[mt.group(2)]
                    try:
                        fired = _ast.literal_eval(mt.group(3))
                    except Exception:
                        fired = {}
                    _FE[mt.group(1)] = dict(status=st, reported_by=fired)
    return _FE


def main(dirs):
    out_root = os.path.join(os.path.dirname(HERE), 'seeded')
    os.makedirs(out_root, exist_ok=True)
    from concurrent.futures import ProcessPoolExecutor
    good = []
    for d in dirs:
        d = d.rstrip('/')
        vj = os.path.join(d, 'verify.json')
        if not os.path.exists(vj):
            print('skip (not verified yet)', d); continue
        v = json.load(open(vj))
        ok = v['applied'] and v['clean_exit'] == 0 and v['mut_exit'] == 1 and v['tests'].startswith('1 failed, 92 passed') and v['failed'].strip() == 'FAILED tests/test_losses.py::test_BCELoss'
        if not ok:
            print('REJECTED (claims not confirmed)', d, v); continue
        good.append((d, v))
    with ProcessPoolExecutor(max_workers=12) as ex:
        res = list(ex.map(seeded_eval.run_one, [d for d, _ in good]))
    for (d, v), r in zip(good, res):
        meta = json.load(open(os.path.join(d, 'meta.json')))
        if d.startswith('/tmp/agents5/out_'):
            sid = d.replace('/tmp/agents5/out_', '').replace('/m', '-t')        # fifth round: Cxx-t1..t3
        elif d.startswith('/tmp/agents4/out_'):
            sid = d.replace('/tmp/agents4/out_', '').replace('/m', '-s')        # fourth round: Cxx-s1..s3
        elif d.startswith('/tmp/agents3/out_'):
            sid = d.replace('/tmp/agents3/out_', '').replace('/m', '-r')        # third round: Cxx-r1..r3
        elif d.startswith('/tmp/agents2/out_'):
            sid = d.replace('/tmp/agents2/out_', '').replace('/m', '-n')        # second round: Cxx-n1..n3
        else:
            sid = d.replace('/tmp/agents/out_', '').replace('/', '-')
        dst = os.path.join(out_root, sid)
        os.makedirs(dst, exist_ok=True)
        shutil.copy(os.path.join(d, 'patch.diff'), dst)
        shutil.copy(os.path.join(d, 'demo.py'), dst)
        fired = {p: x['rules'] for p, x in r.get('results', {}).items() if x['code'] == 1}
        inc = {p: (x['incomplete'] or x['err']) for p, x in r.get('results', {}).items() if x['code'] == 2}
        m = dict(id=sid, property=meta.get('property'), summary=meta.get('summary'), needs=meta.get('needs'), files=meta.get('files'), functions=meta.get('functions'),
                 origin='independent sub-agent given only the property text and a scratch worktree of /repo',
                 confirmed=dict(how='scratch worktree of /repo HEAD: demo.py on the clean tree, git apply patch.diff, demo.py again, full pytest suite',
                                demo_clean_exit=v['clean_exit'], demo_with_change_exit=v['mut_exit'], tests=v['tests'], tests_failed=v['failed'].strip()),
                 detection=dict(reported_by=fired, analysis_incomplete=inc, status='caught' if fired else ('incomplete (exit 2)' if inc else 'missed')),
                 first_evaluation=dict(status='caught' if fired else ('incomplete (exit 2)' if inc else 'missed'), reported_by=fired))
        fe = _first_eval().get(d)
        if fe is not None:
            m['first_evaluation'] = fe          # what the checks said when the change was evaluated for the first time (before any strengthening)
        json.dump(m, open(os.path.join(dst, 'meta.json'), 'w'), indent=1)
        print(sid, m['detection']['status'], sorted(fired))

if __name__ == '__main__':
    main(sys.argv[1:])
