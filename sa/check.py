"""CLI of the static checks:  /venv/bin/python /verif/sa/check.py <ID> [--tier quick|thorough] [--explain FILE]

Every run re-parses /repo's working tree (SA_REPO overrides the root, used by the self-test on scratch copies),
rewrites /verif/evidence/<ID>.json and exits 0 / 1 (VIOLATION) / 2 (ANALYSIS-ERROR | ANALYSIS-INCOMPLETE).
"""
import sys, os, json, traceback, importlib

sys.path.insert(0, os.path.dirname(os.path.dirname(os.path.abspath(__file__))))

from sa.core import Model, AnalysisError          # noqa: E402
from sa.report import Report, Incomplete, EVIDENCE_DIR   # noqa: E402

PROPS = ['C%02d' % i for i in range(1, 21)]


def run(prop, tier, repo=None, quiet=False, selftest=True):
    R = Report(prop, tier, quiet=quiet)
    try:
        model = Model(repo)
        mod = importlib.import_module('sa.props.%s' % prop.lower())
        meta = mod.check(model, R, tier)
        if tier == 'thorough' and selftest and os.environ.get('SA_NO_SELFTEST') != '1':
            from sa import selftest as st
            R.selftest = st.run_for(prop)
        code = R.finish(meta['explanation'], meta['assumptions'], meta['technique'], meta.get('extra'))
        return code, R
    except (AnalysisError, Incomplete) as e:
        if not quiet:
            print('ANALYSIS-ERROR: property=%s %s' % (prop, e))
        _error_evidence(prop, tier, str(e), R)
        return 2, R
    except Exception as e:      # a traceback must never look like a violation
        if not quiet:
            print('ANALYSIS-ERROR: property=%s internal error: %s: %s' % (prop, type(e).__name__, e))
            traceback.print_exc()
        R.internal_error = '%s: %s' % (type(e).__name__, e)
        _error_evidence(prop, tier, '%s: %s' % (type(e).__name__, e), R)
        return 2, R


def _error_evidence(prop, tier, msg, R):
    import time
    ev = dict(property_id=prop, tier=tier, seed=int(os.environ.get('VERIF_SEED', '0') or 0), level='other',
              coverage=dict(explanation='ANALYSIS-ERROR: the static analysis could not complete: ' + msg, obligations=len(R.obligations),
                            discharged=sum(1 for o in R.obligations if o['ok']), evaluations=max(1, len(R.obligations)), distinct_nontrivial=0),
              assumptions=[], wall_s=round(time.time() - R.t0, 3), violations=0)
    os.makedirs(EVIDENCE_DIR, exist_ok=True)
    json.dump(ev, open(os.path.join(EVIDENCE_DIR, '%s.json' % prop), 'w'), indent=1)


def main(argv):
    if len(argv) < 2 or argv[1] not in PROPS:
        print('usage: check.py <C01..C20> [--tier quick|thorough] [--explain violations.json]')
        return 2
    prop = argv[1]
    tier = os.environ.get('VERIF_TIER') or 'quick'
    if '--tier' in argv:
        tier = argv[argv.index('--tier') + 1]
    if tier not in ('quick', 'thorough'):
        tier = 'quick'
    if '--explain' in argv:
        path = argv[argv.index('--explain') + 1]
        data = json.load(open(path))
        for v in data.get('violations', []):
            print('%s at %s (%s)\n  construct: %s\n  reason: %s\n' % (v['rule'], v['where'], v['loc'], v['construct'], v['detail']))
        # re-run the check on the current tree to show whether it still reproduces
        code, _ = run(prop, tier)
        return code
    code, _ = run(prop, tier)
    return code


if __name__ == '__main__':
    sys.exit(main(sys.argv))
