"""Run every check against behaviour-preserving refactoring patches: any exit != 0 is a false alarm (1) or an
unrecognised idiom (2).  usage: twin_eval.py a.diff b.diff ..."""
import os, sys, json, shutil, tempfile, subprocess
from concurrent.futures import ProcessPoolExecutor
HERE = os.path.dirname(os.path.abspath(__file__))
sys.path.insert(0, os.path.dirname(HERE))
from sa.seeded_eval import props


def run_one(diff):
    os.environ['SA_NO_SELFTEST'] = '1'
    tmp = tempfile.mkdtemp(prefix='sa_twin_')
    evd = tempfile.mkdtemp(prefix='sa_ev_')
    try:
        shutil.copytree('/repo/synapgrad', os.path.join(tmp, 'synapgrad'), ignore=shutil.ignore_patterns('__pycache__'))
        r = subprocess.run(['git', 'apply', '--unsafe-paths', '--directory=' + tmp, diff], capture_output=True, text=True, cwd=tmp)
        if r.returncode != 0:
            return dict(diff=diff, error='patch does not apply: ' + (r.stderr or r.stdout)[:200])
        import sa.report, sa.check
        from sa import opcat
        sa.report.EVIDENCE_DIR = evd
        sa.check.EVIDENCE_DIR = evd
        out = {}
        for p in props():
            opcat._cache.clear()
            code, R = sa.check.run(p, 'quick', repo=tmp, quiet=True, selftest=False)
            if code != 0:
                out[p] = dict(code=code, viol=[(o['rule'], o['where'].split('.')[-1], o['construct'][:90], o['detail'][:140]) for o in getattr(R, 'viol', [])][:6],
                              incomplete=[list(x) for x in R.incomplete][:4], err=getattr(R, 'internal_error', None),
                              floors=[(r_, R.counts.get(r_, 0), fl) for r_, fl in R.floors.items() if R.counts.get(r_, 0) < fl])
        return dict(diff=diff, results=out)
    finally:
        shutil.rmtree(tmp, ignore_errors=True)
        shutil.rmtree(evd, ignore_errors=True)


if __name__ == '__main__':
    diffs = sys.argv[1:]
    with ProcessPoolExecutor(max_workers=12) as ex:
        res = list(ex.map(run_one, diffs))
    bad = 0
    for r in res:
        if 'error' in r:
            print(r['diff'], 'ERROR', r['error']); continue
        if not r['results']:
            print(r['diff'], 'SILENT (all 20 checks exit 0)')
            continue
        bad += 1
        print(r['diff'], 'ALARMS:')
        for p, v in r['results'].items():
            print('   %s exit %d' % (p, v['code']))
            for x in v['viol']:
                print('      VIOL', x)
            for x in v['incomplete']:
                print('      INCOMPLETE', x)
            if v['err']:
                print('      ERR', v['err'])
            if v['floors']:
                print('      FLOORS', v['floors'])
    print('%d patches, %d with alarms' % (len(res), bad))
