"""AXIS typestate (C01.AXIS / C05.AXIS): a dim / axis argument is RAW (None | int | tuple, possibly negative) until it is
normalised on the path; RAW may be handed to NumPy APIs that normalise themselves and may subscript a full-rank shape tuple
(Python's negative indexing agrees), but must not be order-compared with another dim, compared / tested for membership against
non-negative positions, used in arithmetic that builds an index / slice bound / length, used as a slice bound, special-cased by a
negative literal, or (for the documented tuple / None kinds) used as a subscript.

Flow-sensitive walk over the statements of each function with dim-like parameters; kernels inherit the state of the arguments
at their call sites in the wrappers (a wrapper that normalises before calling makes the kernel parameter NORM).
"""
import ast
from .core import norm, dotted, names_in, body_walk
from .report import Incomplete

DIM_PARAMS = {'axis', 'dim', 'dimension', 'source', 'destination', 'axis0', 'axis1', 'dim0', 'dim1', 'start_dim', 'end_dim'}
RAW, NORM = 'RAW', 'NORM'
SCOPE_MODULES = ('synapgrad.functional', 'synapgrad.cpu_ops', 'synapgrad.nn.functional')


def _kinds_from_annotation(arg):
    if arg.annotation is None:
        return {'int'}
    a = norm(arg.annotation).lower()
    k = set()
    if 'int' in a:
        k.add('int')
    if 'tuple' in a or 'list' in a:
        k.add('tuple')
    if 'none' in a:
        k.add('none')
    return k or {'int'}


class Walker:
    def __init__(self, f, init_state, report):
        self.f = f
        self.state = dict(init_state)      # name -> RAW | NORM
        self.kinds = {}                    # name -> set of kinds
        self.report = report               # callable(kind, node, name, why)
        self.call_args = []                # (call node, callee dotted text, [(param index / kw, state or None)])
        self.moduli = []                   # (dim name, modulus expression text, node) for every manual normalisation
        self.uses = 0
        self.alias = {}                    # name -> dim it is a plain copy of (start = start_dim)
        self.neg = set()                   # dims known to be negative on the current path (inside `if d < 0:`)
        from .core import single_bindings
        try:
            self._single = single_bindings(f.node)
        except Exception:
            self._single = {}

    # ------------------------------------------------------------ helpers
    def is_dim(self, e):
        return isinstance(e, ast.Name) and e.id in self.state

    def raw(self, e):
        return self.is_dim(e) and self.state[e.id] == RAW

    def mentions_rank(self, e):
        t = norm(e)
        if 'ndim' in t or 'len(' in t or '.shape' in t:
            return True
        # a temporary holding the rank:  n = x.ndim ; rank = len(shape) ; nd = rank or 1
        from .core import inline_expr
        try:
            t2 = norm(inline_expr(self.f.node, e, bindings=self._single))
        except RecursionError:
            return False
        return 'ndim' in t2 or 'len(' in t2 or '.shape' in t2

    def root(self, name):
        return self.alias.get(name, name)

    def sign_fact(self, test, polarity):
        """(dim, 'neg' | 'nonneg') when the test, taken with this polarity, fixes the sign of a dim (or of a plain copy of it); else None"""
        if isinstance(test, ast.UnaryOp) and isinstance(test.op, ast.Not):
            return self.sign_fact(test.operand, not polarity)
        if not (isinstance(test, ast.Compare) and len(test.ops) == 1):
            return None
        l, r, op = test.left, test.comparators[0], test.ops[0]
        if self.is_dim(l) and norm(r) == '0':
            d = self.root(l.id)
            if isinstance(op, ast.Lt):
                return (d, 'neg' if polarity else 'nonneg')
            if isinstance(op, ast.GtE):
                return (d, 'nonneg' if polarity else 'neg')
        if self.is_dim(r) and norm(l) == '0':
            d = self.root(r.id)
            if isinstance(op, ast.Gt):
                return (d, 'neg' if polarity else 'nonneg')
            if isinstance(op, ast.LtE):
                return (d, 'nonneg' if polarity else 'neg')
        return None

    def apply_sign(self, fact):
        if fact is None:
            return
        d, sgn = fact
        if sgn == 'nonneg':
            for n in list(self.state):
                if self.root(n) == d and self.kinds.get(n, {'int'}) <= {'int'}:
                    self.state[n] = NORM        # a non-negative int dim is its own normal form on this path
        else:
            self.neg.add(d)

    def normalising_value(self, name, v):
        """value expression that yields the normalised version of dim `name` (or of a RAW list)"""
        if isinstance(v, ast.IfExp) and isinstance(v.test, ast.Compare) and len(v.test.ops) == 1 and isinstance(v.test.ops[0], ast.Lt) \
                and norm(v.test.comparators[0]) == '0' and norm(v.test.left) == name:
            b, o = v.body, v.orelse
            return isinstance(b, ast.BinOp) and isinstance(b.op, ast.Add) and name in names_in(b) and self.mentions_rank(b) and norm(o) == name
        if isinstance(v, ast.BinOp) and isinstance(v.op, ast.Mod) and norm(v.left) == name and self.mentions_rank(v.right):
            return True
        return False

    def elementwise_normalising(self, v):
        """[ax + n if ax < 0 else ax for ax in <dimlist>] / [ax % n for ax in <dimlist>] / tuple(...) of those"""
        if isinstance(v, ast.Call) and dotted(v.func) in ('tuple', 'list') and len(v.args) == 1:
            v = v.args[0]
        if isinstance(v, (ast.ListComp, ast.GeneratorExp)) and len(v.generators) == 1 and isinstance(v.generators[0].target, ast.Name):
            g = v.generators[0]
            ev = g.target.id
            if self.is_dim(g.iter) or (isinstance(g.iter, ast.Name)):
                saved = dict(self.state)
                self.state[ev] = RAW
                ok = self.normalising_value(ev, v.elt)
                self.state = saved
                if ok and not g.ifs:
                    return g.iter
        return None

    # ------------------------------------------------------------ statements
    def block(self, stmts):
        for s in stmts:
            if self.stmt(s):
                return True     # terminated
        return False

    def stmt(self, s):
        if isinstance(s, ast.If):
            # normalising if:  if a < 0: a += n  /  a = a + n  /  a = n + a
            t = s.test
            if isinstance(t, ast.Compare) and len(t.ops) == 1 and isinstance(t.ops[0], ast.Lt) and norm(t.comparators[0]) == '0' and self.is_dim(t.left) \
                    and len(s.body) == 1 and not s.orelse:
                b = s.body[0]
                name = t.left.id
                ok = False
                if isinstance(b, ast.AugAssign) and isinstance(b.op, ast.Add) and norm(b.target) == name and self.mentions_rank(b.value):
                    ok = True
                if isinstance(b, ast.Assign) and norm(b.targets[0]) == name and isinstance(b.value, ast.BinOp) and isinstance(b.value.op, ast.Add) \
                        and name in names_in(b.value) and self.mentions_rank(b.value):
                    ok = True
                if ok:
                    self.state[name] = NORM
                    mod_expr = b.value if isinstance(b, ast.AugAssign) else b.value
                    self.moduli.append((name, norm(mod_expr), s))
                    return False
            # if d < 0: t = d + n / else: t = d     (statement form of the conditional expression)
            if len(s.body) == 1 and len(s.orelse) == 1 and isinstance(s.body[0], ast.Assign) and isinstance(s.orelse[0], ast.Assign) \
                    and len(s.body[0].targets) == 1 and isinstance(s.body[0].targets[0], ast.Name) and norm(s.body[0].targets[0]) == norm(s.orelse[0].targets[0]):
                tern = ast.copy_location(ast.IfExp(test=s.test, body=s.body[0].value, orelse=s.orelse[0].value), s)
                if any(self.normalising_value(dn, tern) for dn in list(self.state)):
                    self.assign(ast.copy_location(ast.Assign(targets=[s.body[0].targets[0]], value=tern), s))
                    return False
            self.expr(s.test)
            st0, k0 = dict(self.state), {k: set(v) for k, v in self.kinds.items()}
            al0, ng0 = dict(self.alias), set(self.neg)
            self.refine(s.test, True)
            self.apply_sign(self.sign_fact(s.test, True))
            t_term = self.block(s.body)
            st_t, k_t, al_t = self.state, self.kinds, self.alias
            self.state, self.kinds = dict(st0), {k: set(v) for k, v in k0.items()}
            self.alias, self.neg = dict(al0), set(ng0)
            self.refine(s.test, False)
            self.apply_sign(self.sign_fact(s.test, False))
            f_term = self.block(s.orelse)
            st_f, k_f, al_f = self.state, self.kinds, self.alias
            self.neg = set(ng0)
            if t_term and f_term:
                return True
            if t_term:
                self.state, self.kinds, self.alias = st_f, k_f, al_f
                # the facts of the surviving branch hold from here on only if they held before (the refinement was local to the branch) - except that
                # a terminated sibling makes the surviving branch's sign fact permanent
                return False
            elif f_term:
                self.state, self.kinds, self.alias = st_t, k_t, al_t
            else:
                self.state = {n: (RAW if RAW in (st_t.get(n, NORM), st_f.get(n, NORM)) else NORM) for n in set(st_t) | set(st_f)}
                self.kinds = {n: k_t.get(n, set()) | k_f.get(n, set()) for n in set(k_t) | set(k_f)}
                self.alias = {n: v for n, v in al_t.items() if al_f.get(n) == v}
                # a dim that was RAW before the branches and is not re-bound stays RAW after the merge unless both branches normalised it
            return False
        if isinstance(s, (ast.Return, ast.Raise)):
            if getattr(s, 'value', None) is not None:
                self.expr(s.value)
            if isinstance(s, ast.Raise) and s.exc is not None:
                pass
            return True
        if isinstance(s, ast.Assign):
            self.assign(s)
            return False
        if isinstance(s, ast.AugAssign):
            self.expr(s.value)
            if self.is_dim(s.target) and isinstance(s.op, ast.Mod) and self.mentions_rank(s.value):
                self.state[s.target.id] = NORM
            return False
        if isinstance(s, (ast.For, ast.While)):
            if isinstance(s, ast.For):
                self.expr(s.iter)
                if self.is_dim(s.iter) and isinstance(s.target, ast.Name):
                    self.state[s.target.id] = self.state[s.iter.id]
                    self.kinds[s.target.id] = {'int'}
            else:
                self.expr(s.test)
            self.block(s.body)
            self.block(s.orelse)
            return False
        if isinstance(s, (ast.With,)):
            for it in s.items:
                self.expr(it.context_expr)
            return self.block(s.body)
        if isinstance(s, ast.Try):
            self.block(s.body)
            for h in s.handlers:
                self.block(h.body)
            self.block(s.finalbody)
            return False
        if isinstance(s, ast.Expr):
            self.expr(s.value)
            return False
        if isinstance(s, (ast.FunctionDef, ast.ClassDef, ast.Pass, ast.Import, ast.ImportFrom, ast.Global, ast.Nonlocal, ast.Assert, ast.Delete, ast.Break, ast.Continue)):
            return False
        return False

    def assign(self, s):
        v = s.value
        t = s.targets[0]
        if isinstance(t, ast.Name):
            name = t.id
            src = self.elementwise_normalising(v)
            if src is not None and (self.is_dim(src)):
                self.moduli.append((src.id, norm(v), s))
                self.expr(v.args[0].generators[0].iter if isinstance(v, ast.Call) else v.generators[0].iter)
                self.state[name] = NORM
                self.kinds[name] = {'tuple'}
                return
            for dn in list(self.state):
                if self.normalising_value(dn, v):
                    self.moduli.append((dn, norm(v), s))
                    self.state[name] = NORM
                    self.kinds[name] = {'int'}
                    self.alias.pop(name, None)
                    return
            # x = d + rank on a path where d < 0 is known
            if isinstance(v, ast.BinOp) and isinstance(v.op, ast.Add):
                for a, b in ((v.left, v.right), (v.right, v.left)):
                    if self.is_dim(a) and self.root(a.id) in self.neg and self.mentions_rank(b):
                        self.moduli.append((self.root(a.id), norm(v), s))
                        self.state[name] = NORM
                        self.kinds[name] = {'int'}
                        self.alias.pop(name, None)
                        return
            self.expr(v)
            if isinstance(v, ast.Call) and dotted(v.func) == 'range':
                self.state[name] = NORM
                self.kinds[name] = {'tuple'}
                return
            if isinstance(v, (ast.List, ast.Tuple)) and len(v.elts) == 1 and self.is_dim(v.elts[0]):
                self.state[name] = self.state[v.elts[0].id]
                self.kinds[name] = {'tuple'}
                return
            if isinstance(v, ast.Call) and dotted(v.func) in ('tuple', 'list') and v.args and isinstance(v.args[0], (ast.GeneratorExp, ast.ListComp)):
                g = v.args[0].generators[0]
                if self.is_dim(g.iter) and norm(v.args[0].elt) == norm(g.target):
                    self.state[name] = self.state[g.iter.id]
                    self.kinds[name] = {'tuple'}
                    return
            if self.is_dim(v):
                self.state[name] = self.state[v.id]
                self.kinds[name] = set(self.kinds.get(v.id, {'int'}))
                if name != v.id:
                    self.alias[name] = self.root(v.id)
                return
            self.alias.pop(name, None)
            for n in [n for n, d in self.alias.items() if d == name]:
                del self.alias[n]           # copies of the old value are no longer copies of `name`
            if name in self.state:
                # rebound to something that is not a recognised dim expression: stop tracking
                del self.state[name]
            return
        self.expr(v)
        for tt in s.targets:
            self.expr(tt)

    # ------------------------------------------------------------ refinement
    def refine(self, test, polarity):
        if isinstance(test, ast.UnaryOp) and isinstance(test.op, ast.Not):
            return self.refine(test.operand, not polarity)
        if isinstance(test, ast.BoolOp):
            if (isinstance(test.op, ast.And) and polarity) or (isinstance(test.op, ast.Or) and not polarity):
                for v in test.values:
                    self.refine(v, polarity)
            return
        if isinstance(test, ast.Call) and dotted(test.func) == 'isinstance' and len(test.args) == 2 and self.is_dim(test.args[0]):
            n = test.args[0].id
            tt = norm(test.args[1])
            ks = set(self.kinds.get(n, {'int'}))
            if 'int' in tt and 'tuple' not in tt and 'list' not in tt:
                self.kinds[n] = {'int'} if polarity else (ks - {'int'} or ks)
            elif 'tuple' in tt or 'list' in tt:
                self.kinds[n] = {'tuple'} if polarity else (ks - {'tuple'} or ks)
            return
        if isinstance(test, ast.Compare) and len(test.ops) == 1 and isinstance(test.ops[0], (ast.Is, ast.IsNot)) and self.is_dim(test.left) and norm(test.comparators[0]) == 'None':
            n = test.left.id
            is_none = isinstance(test.ops[0], ast.Is) == polarity
            ks = set(self.kinds.get(n, {'int'}))
            self.kinds[n] = {'none'} if is_none else (ks - {'none'} or ks)

    # ------------------------------------------------------------ expressions (sensitive uses)
    def expr(self, e, in_index=False):
        if e is None:
            return
        if isinstance(e, ast.BoolOp):
            saved = {k: set(v) for k, v in self.kinds.items()}
            for v in e.values:
                self.expr(v, in_index)
                self.refine(v, isinstance(e.op, ast.And))
            self.kinds = saved
            return
        if isinstance(e, ast.IfExp):
            self.expr(e.test)
            saved = {k: set(v) for k, v in self.kinds.items()}
            self.refine(e.test, True)
            self.expr(e.body, in_index)
            self.kinds = {k: set(v) for k, v in saved.items()}
            self.refine(e.test, False)
            self.expr(e.orelse, in_index)
            self.kinds = saved
            return
        if isinstance(e, ast.Compare):
            operands = [e.left] + e.comparators
            for i, op in enumerate(e.ops):
                l, r = operands[i], operands[i + 1]
                for a, b in ((l, r), (r, l)):
                    if self.raw(a):
                        self.uses += 1
                        if isinstance(op, (ast.Lt, ast.LtE, ast.Gt, ast.GtE)):
                            if norm(b) == '0' or self.mentions_rank(b) or (isinstance(b, ast.UnaryOp) and self.mentions_rank(b.operand)) or (isinstance(b, ast.Name) and not self.is_dim(b) and 'ndim' in b.id):
                                continue    # sign test / range validation
                            self.report('order-compare', e, a.id, 'a possibly negative dim is order-compared with %s before being normalised' % norm(b))
                        elif isinstance(op, (ast.Eq, ast.NotEq)):
                            if isinstance(b, ast.Constant) and isinstance(b.value, int) and b.value >= 0:
                                self.report('position-compare', e, a.id, 'a raw dim is compared with the position %s' % norm(b))
                            elif isinstance(b, ast.UnaryOp) and isinstance(b.op, ast.USub):
                                self.report('literal-special-case', e, a.id, 'negative dims are special-cased by the literal %s instead of being normalised' % norm(b))
                            elif isinstance(b, ast.Name):
                                self.report('position-compare', e, a.id, 'a raw (possibly negative / tuple) dim is compared with the position variable %s' % b.id)
                        elif isinstance(op, (ast.In, ast.NotIn)) and a is r:
                            self.report('membership', e, a.id, 'membership of a position in a raw dim collection (negative entries never match)')
            for o in operands:
                self.expr(o, in_index)
            return
        if isinstance(e, ast.Subscript):
            self.expr(e.value)
            sl = e.slice
            if isinstance(sl, ast.Slice):
                for b in (sl.lower, sl.upper, sl.step):
                    if b is not None:
                        for n in ast.walk(b):
                            if self.raw(n):
                                self.uses += 1
                                self.report('slice-bound', e, n.id, 'a raw dim is used in a slice bound (%s): negative values select a different range' % norm(e))
                        self.expr(b, True)
            else:
                if self.is_dim(sl):
                    self.uses += 1
                    ks = self.kinds.get(sl.id, {'int'})
                    if self.state[sl.id] == RAW and (ks - {'int'}):
                        self.report('subscript-kind', e, sl.id, 'dim may be %s here and cannot subscript %s' % (sorted(ks - {'int'}), norm(e.value)))
                self.expr(sl, True)
            return
        if isinstance(e, ast.BinOp):
            if isinstance(e.op, (ast.Add, ast.Sub, ast.Mult)):
                for a, b in ((e.left, e.right), (e.right, e.left)):
                    if self.raw(a) and not self.mentions_rank(b):
                        self.uses += 1
                        self.report('index-arithmetic', e, a.id, 'arithmetic on a raw (possibly negative) dim: %s' % norm(e))
            self.expr(e.left, in_index)
            self.expr(e.right, in_index)
            return
        if isinstance(e, ast.Call):
            d = dotted(e.func)
            args = []
            for i, a in enumerate(e.args):
                args.append((i, self.state.get(a.id) if isinstance(a, ast.Name) and a.id in self.state else None, a))
            for k in e.keywords:
                args.append((k.arg, self.state.get(k.value.id) if isinstance(k.value, ast.Name) and k.value.id in self.state else None, k.value))
            self.call_args.append((e, d, args))
            if isinstance(e.func, ast.Attribute) and e.func.attr == 'insert' and e.args and self.raw(e.args[0]):
                self.uses += 1
                self.report('list-insert', e, e.args[0].id, 'list.insert with a raw negative position inserts one place too early (insert(-1, x) puts x before the last element)')
            if d == 'range':
                for a in e.args:
                    for n in ast.walk(a):
                        if self.raw(n):
                            self.uses += 1
                            self.report('index-arithmetic', e, n.id, 'a raw dim bounds a range()')
            for a in e.args:
                self.expr(a.value if isinstance(a, ast.Starred) else a)
            for k in e.keywords:
                self.expr(k.value)
            if isinstance(e.func, ast.Attribute):
                self.expr(e.func.value)
            return
        if isinstance(e, (ast.ListComp, ast.GeneratorExp, ast.SetComp)):
            saved = dict(self.state)
            savedk = {k: set(v) for k, v in self.kinds.items()}
            for g in e.generators:
                self.expr(g.iter)
                if self.is_dim(g.iter) and isinstance(g.target, ast.Name):
                    self.state[g.target.id] = self.state[g.iter.id]
                    self.kinds[g.target.id] = {'int'}
                for c in g.ifs:
                    self.expr(c)
            self.expr(e.elt, in_index)
            self.state, self.kinds = saved, savedk
            return
        for ch in ast.iter_child_nodes(e):
            if isinstance(ch, ast.expr):
                self.expr(ch, in_index)


def analyse(model, f, init):
    found = []
    w = Walker(f, init, lambda kind, node, name, why: found.append((kind, node, name, why)))
    for a in f.node.args.args:
        if a.arg in init:
            w.kinds[a.arg] = _kinds_from_annotation(a)
    w.block(f.node.body)
    return w, found


def check_axis(model, R, P, scope='all'):
    R.rule(P + '.AXIS', 'a raw (possibly negative / tuple / None) dim never reaches Python-level index arithmetic, order or position comparison, slice bounds or a subscript of the wrong kind before '
                        'it is normalised on the path (typestate; kernels inherit the state established by their wrappers)', floor=5)
    funcs = [f for m in SCOPE_MODULES for f in model.module_functions(m) if set(f.params) & DIM_PARAMS]
    # pass 1: wrappers (and closures) -> state of dim arguments at kernel call sites
    kernel_state = {}      # kernel qualname -> {param: set of states}
    results = {}
    for f in funcs:
        if f.mod.modname == 'synapgrad.cpu_ops':
            continue
        init = {p: RAW for p in f.params if p in DIM_PARAMS}
        w, found = analyse(model, f, init)
        results[f.qualname] = (f, w, found)
        final = dict(w.state)
        sites = list(w.call_args)
        for cl in model.nested(f):
            wc, fc = analyse(model, cl, {n: s for n, s in final.items()})
            results[cl.qualname] = (cl, wc, fc)
            sites += wc.call_args
        for call, d, args in sites:
            callee = model.resolve(f.mod, call.func)
            kf = model.funcs.get(callee) if callee else None
            if kf is None or kf.mod.modname != 'synapgrad.cpu_ops':
                continue
            for key, st, a in args:
                pname = kf.pos_params[key] if isinstance(key, int) and key < len(kf.pos_params) else key
                if pname in DIM_PARAMS:
                    s = st if st is not None else (NORM if isinstance(a, ast.Constant) and isinstance(a.value, int) and a.value >= 0 else RAW)
                    kernel_state.setdefault(kf.qualname, {}).setdefault(pname, set()).add(s)
    # pass 2: kernels
    for f in funcs:
        if f.mod.modname != 'synapgrad.cpu_ops':
            continue
        ks = kernel_state.get(f.qualname, {})
        init = {}
        for p in f.params:
            if p in DIM_PARAMS:
                sts = ks.get(p)
                init[p] = NORM if sts and sts == {NORM} else RAW
        # kernels called by other kernels with literal non-negative axes stay RAW unless every site is NORM
        w, found = analyse(model, f, init)
        results[f.qualname] = (f, w, found)
    # modulus of manual normalisations: ops whose NumPy sink counts the NEW axis (stack, expand_dims) need rank + 1, all others the rank
    PLUS1 = {'stack', 'stack_forward', 'unsqueeze', 'unsqueeze_forward'}
    for q, (f, w, found) in sorted(results.items()):
        for name, mtext, node in w.moduli:
            top = f
            while top.parent is not None:
                top = top.parent
            need_plus1 = top.name in PLUS1
            has_plus1 = '+ 1' in mtext or '1 +' in mtext
            has_minus = '- 1' in mtext
            ok = (has_plus1 == need_plus1) and not has_minus
            R.ob(P + '.AXIS', q, 'modulus of the normalisation of %s: %s' % (name, mtext[:60]), ok,
                 'a negative dim must be normalised with the rank of the array it indexes%s' % (' (the stacked / unsqueezed result has rank + 1)' if need_plus1 else ' (not rank +- 1)'), '%s:%d' % (f.mod.relpath, node.lineno))
    n = 0
    for q, (f, w, found) in sorted(results.items()):
        if scope == 'backward' and f.mod.modname == 'synapgrad.cpu_ops' and not (f.name.endswith('_backward') or f.name == 'unbroadcast'):
            continue
        if scope == 'forward' and f.mod.modname == 'synapgrad.cpu_ops' and f.name.endswith('_backward'):
            continue
        seen = set()
        for kind, node, name, why in found:
            key = (kind, norm(node), name)
            if key in seen:
                continue
            seen.add(key)
            R.ob(P + '.AXIS', q, '%s: %s in `%s`' % (kind, name, norm(node)[:70]), False, why, '%s:%d' % (f.mod.relpath, getattr(node, 'lineno', f.node.lineno)))
            n += 1
        if not found:
            R.ob(P + '.AXIS', q, 'dims %s: %d sensitive use(s), all on normalised / legal values' % (sorted(set(f.params) & DIM_PARAMS), w.uses), True, '', f.loc)
    R.analysed['axis_functions'] = len(results)
