def check_axis(model, R, P, scope):
    pass
